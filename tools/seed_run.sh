#!/bin/bash
# usage: seed_run.sh <seed-name> <property> [more properties...]   -- applies the patch to /repo, runs the checks, reverts
NAME=$1; shift
cd /repo || exit 2
if ! git diff --quiet; then echo "/repo is dirty"; exit 2; fi
git apply /verif/seeded/$NAME/patch.diff || { echo "patch does not apply"; exit 2; }
cd /verif
for P in "$@"; do
  OUT=$(VERIF_NO_WIDEN= ./check $P --tier quick 2>&1 | tail -3); RC=$?
  echo "[$NAME] $P -> $OUT"
  R=$(echo "$OUT" | sed -n 's/.*replay=\([^ ]*\).*/\1/p' | head -1)
  if [ -n "$R" ] && [ -f "$R" ]; then python3 -c "
import json,sys; d=json.load(open('$R')); print('   kind=%s case=%s oracle=%s'%(d.get('kind'), str(d.get('case'))[:160], d.get('oracle')))"; fi
done
git -C /repo checkout -- .
