"""Per-property configuration of ./check (which theorems file, which correspondence domains)."""

TRUSTED_BASE = [
    "Coq 8.16.1 kernel (coqc); no native_compute; vm_compute only in Example/non-vacuity lemmas",
    "extraction: Require Extraction ExtrOcamlBasic only (bool, option, unit, list, prod, sumbool, sumor mappings; andb/orb inlined); OCaml 4.13.1 ocamlopt",
    "correspondence harness: harness/ (Rust, built against /repo working tree with --cfg pubgrub_verif), ocaml/*.ml driver, ./check, tools/translate.py",
    "the reading of the English property as the Coq statements in coq/Props (DESIGN.md section 6)",
]

HOOK_COMMITS = []
NOT_APPLICABLE = {}

DOMAINS = {
    "semver": {"timeout": 1200},
}

PROPS = {
    "C20": {
        "props": "Props/Properties_C20.v",
        "level": "proof",
        "technique": "Coq proof over a Gallina model of version.rs + exhaustive-grid correspondence against the Rust implementation",
        "level_text": "11 Coq theorems (print/parse round trip, grammar of u32 parsing, which error variant and payload, lexicographic order, tuple inverses, bumps) about Model/SemVer.v, closed under the global context; the model is tied to src/version.rs by running both on a grid including u32 extremes and a grammar of well/ill-formed strings on every run.",
        "level_note": "Trusted: Coq kernel, ExtrOcamlBasic extraction, the harness/driver; Rust std (split, u32::from_str, format!) is modelled, not verified; behaviour at u32::MAX bumps is outside the property's guard.",
        "domains": ["semver"],
        "exhaustive": True,
        "rule": "grid {0,1,9,10,2^32-2,2^32-1}^3 of versions (display, round-trip, tuple, bumps below MAX: exhaustive); "
                "ordering: all pairs over {0,1,MAX}^3 + seeded pairs (quick) / all 216^2 pairs (thorough); strings: every "
                "'.'-joined sequence of <=3 (quick) / <=4 (thorough) parts out of 15 well- and ill-formed parts, seeded longer "
                "sequences and random decimals around 2^32. distinct = distinct case text; every case is non-trivial "
                "(each exercises parse, print, order or bump).",
        "assumptions": ["Rust std: str::split, u32::from_str, format! are modelled (Model/SemVer.v), validated by the correspondence",
                        "bump at u32::MAX (debug panic / release wrap) is outside the property's guard; model returns None"],
    },
}
