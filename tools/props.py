"""Per-property configuration of ./check (which theorems file, which correspondence domains)."""

TRUSTED_BASE = [
    "Coq 8.16.1 kernel (coqc); no native_compute; vm_compute only in Example/non-vacuity lemmas",
    "extraction: Require Extraction ExtrOcamlBasic only (bool, option, unit, list, prod, sumbool, sumor mappings; andb/orb inlined); OCaml 4.13.1 ocamlopt",
    "correspondence harness: harness/ (Rust, built against /repo working tree with --cfg pubgrub_verif), ocaml/*.ml driver, ./check, tools/translate.py",
    "the reading of the English property as the Coq statements in coq/Props (DESIGN.md section 6)",
]

HOOK_COMMITS = ["461a825", "4086e31"]
NOT_APPLICABLE = {}

DOMAINS = {
    "semver": {"timeout": 1200},
    "ranges": {"timeout": 2400},
    "rangeord": {"timeout": 2400},
    "rangeq": {"timeout": 2400},
    "terms": {"timeout": 2400},
    "bitset": {"timeout": 2400},
    "offline": {"timeout": 2400},
    "serde": {"timeout": 2400},
    "solver": {"timeout": 3000},
    "faults": {"timeout": 3000},
    "report": {"timeout": 3000},
    "collapse": {"timeout": 3000},
}

SOLVER_RULE = ("solver runs with a recording provider: (0) a corpus of minimised registries kept from findings and seeded changes, run first "
               "under every static priority order and the count-based strategies (one of them with a range-dependent priority table); "
               "(0') deep / family scope — 5-7 packages, the versions of a package mostly share their dependencies and the bottoms cannot be "
               "satisfied, some packages pin themselves: several conflicts per run, learned incompatibilities reused (shared nodes); "
               "(0'') wide scope — a conflict-rich core plus 33-38 filler packages decided first: back-jumps over 35 decision levels; "
               "(0+) neighbourhoods — random small edits of every corpus registry; window scope — 4-6 packages with 3-9 versions, dependencies on "
               "version windows, unavailable versions: several picks per decision level; "
               "(a) tiny scope — 2 packages x 2 versions, every slot one of 15 options (absent, "
               "unavailable, no deps, one dep on a target in {0,1,unknown 2} with set in {empty, full, {1}, {2}}; so self-dependencies, cycles, "
               "unknown packages occur), sampled registries (quick) / all 50625 (thorough), both roots, ALL scripts of the family "
               "(any admissible version at each choose_version, priority in {0,1} at each prioritize) by stateless DFS up to a cap; "
               "(b) small scope — 2-3 packages x 3 versions, <=2 deps from a pool of 10 sets, a few scripts each; (c) random — 3-8 packages, "
               "1-5 versions, multi-interval sets, newest/oldest/scripted choice x count/static(perm, ties)/history-dependent/scripted priorities, "
               "integer and string package names. Each run is replayed through the extracted Coq model (full call trace, result, "
               "derivation tree) and checked by the oracles. distinct = distinct (registry, trace); non-trivial = the run had a conflict "
               "(NoSolution, a None answer, or a package asked for a version twice).")
SOLVER_NOTE = ("Trusted: Coq kernel, extraction, harness/driver, the oracles of ocaml/d_solver.ml. Modelled, not verified: std (partition_point, "
               "sort), indexmap (insertion order, swap_indices, retain), priority_queue (pop returns a maximum; ties are taken from the recorded "
               "trace), FxHashMap iteration order of dependency maps (recorded by the harness from the very map it returns). The model is "
               "coq/Model/Solver.v; it replays the provider trace and must reproduce every call and the result. Termination is proved in the model (C05); "
               "(every theorem is for arbitrary fuel; the harness uses a call budget).")

def solver_prop(props, level, technique, text, note_extra="", domains=("solver",), extra=None):
    d = {"props": props, "level": level, "technique": technique, "level_text": text,
         "obs_fields": {"solver": ["res"], "faults": ["res"]},
         "level_note": SOLVER_NOTE + (" " + note_extra if note_extra else ""),
         "domains": list(domains), "rule": SOLVER_RULE, "exhaustive": False,
         "assumptions": ["provider is well-behaved w.r.t. the generated registry (except in the fault domain)"],
         "explanation": text}
    if extra:
        d.update(extra)
    return d

RANGE_NOTE = ("Trusted: Coq kernel, ExtrOcamlBasic extraction, harness/driver. Range<V> is modelled by the slice of its segments "
              "(Model/Range.v, hand-written, generic in the ordered version type); std's binary_search_by in `contains` is modelled as the "
              "linear cursor (equal on sorted segments); the tie to src/range.rs is the exhaustive correspondence over all canonical ranges on "
              "k bound values (every relative order of bound values, every inclusive/exclusive combination), run on every check.")

PROPS = {
    "C01": solver_prop("Props/Properties_C01.v", "proof",
        "Coq proof by invariant over the whole control flow of the solver model (unit propagation with the contradicted-cache, conflict resolution, backtracking, merging of dependency incompatibilities, the add_version fast path) + queue-coverage theorem; exhaustive-small-scope and random exploration of resolve with an independent solution checker, tied to the model by full-trace correspondence",
        "2 Coq theorems (Props/Properties_C01.v; Proofs/SolverSound1/2/.v ~1900 lines + SolverQueue/2.v): for every lawful VersionSet, every registry with well-formed dependency sets, every provider trace that agrees with the registry (any prioritisation, any choice of offered versions, any iteration order of dependency maps) and every fuel: if the model of resolve returns Ok(sol) then sol contains the root at the requested version, selects only versions the provider has and whose dependencies are available, satisfies every dependency of every selected version (a dependency on the own package counts like any other), and selects no package twice. Invariant: every dependency incompatibility of which a DECIDED package is the dependant is contradicted by the partial solution restricted to that package's decision level (established by the scan after the decision, stable under derivations and under every backtrack that keeps the decision); cache soundness; every (p,v) whose dependencies were fetched is covered by an active incompatibility (also after merging); an empty queue means no undecided positive package (C14 theorem). Oracle: every Ok result over the solver case stream is checked against the registry, and the Coq model must reproduce the run. Finding F1 (self-dependency) was found by this check and repaired in /repo."),
    "C02": solver_prop("Props/Properties_C02.v", "proof",
        "Coq proof (store validity invariant + terminal test) for any lawful VersionSet, registry, well-behaved trace and fuel; correspondence + brute-force solution search as oracle",
        "4 Coq theorems (the 4th is the converse, from termination and panic-freedom: on a finite registry, if a solution exists a complete run returns Ok): if the model of resolve returns NoSolution on a provider trace that agrees with the registry, no set of package versions containing the root satisfies all dependencies (for every lawful VersionSet, registry, strategy/trace, fuel); follows from the proved invariant that every stored incompatibility is valid and the terminal test. Tie: full-trace correspondence of the model with the Rust resolve; oracle: complete brute-force search for a solution on every NoSolution result."),
    "C03": solver_prop("Props/Properties_C03.v", "proof",
        "Coq proof that the tree built from the store has true leaves, derived nodes entailed by their causes for every assignment, a top node forbidding the root, and shared ids exactly on the derived nodes with in-degree >= 2 (all occurrences of one id the same subtree); tree correspondence + independent proof-checking oracle",
        "7 Coq theorems: for every lawful VersionSet, registry, well-behaved trace and fuel, the derivation tree of a NoSolution outcome of the model satisfies tree_ok (every external leaf true of the provider: root requirement, dependency declared with exactly that set by every existing version in the stated set, no provider version in a NoVersions set, unavailable dependencies for Custom; every derived node's terms entailed by its two causes for EVERY assignment) and its top node forbids the root at the requested version. Shared ids (nosolution_tree_sharing, Proofs/SolverShared.v): the tree is tree_of of the store for a shared list that contains exactly the derived ids with in-degree >= 2 in the cause DAG reachable from the top id (= two different incoming edges; 'reachable along more than one path' is read as this in-degree, the top counting one edge from outside), a derived node built for id j carries Some j exactly when j is in the list, all occurrences of one id are the same subtree, and build_derivation_tree never fails on a run's store (the fuel of the model's DFS suffices). The Rust tree (structure, terms, shared ids) must equal the model's tree on every NoSolution case. Oracle: independent node-by-node proof checker on every NoSolution tree."),
    "C04": solver_prop("Props/Properties_C04.v", "proof",
        "Coq proof by invariant over the whole control flow of the solver model (levels monotone in global indices; every dated derivation justified by its cause; correctness of the satisfier search; the conflict incompatibility stays satisfied along the rule of resolution) + C01 + C06; exploration with a reachability checker on every Ok result, tied to the model by correspondence",
        "3 Coq theorems (Props/Properties_C04.v; Proofs/SolverReach1/2/.v ~1500 lines): for every lawful VersionSet, every registry with well-formed dependency sets, every provider trace that agrees with the registry and every fuel: if the model of resolve returns Ok(sol) then every selected package is the root or reachable from the root through the dependencies (as the registry gives them) of the SELECTED versions; equivalently every selected package other than the root is a dependency of some selected version (no orphan, e.g. one required only by a version that was backtracked away - the non-vacuity example is such a run). Proof: the solution restricted to the reachable packages is again a solution (C01); an unreachable selected package with the earliest first positive derivation would make that restriction violate the cause of the derivation, contradicting the validity of every stored incompatibility (C06). Oracle: every Ok result of the case stream is checked for reachability."),
    "C05": solver_prop("Props/Properties_C05.v", "proof",
        "Coq proof: termination by a bounded lexicographic potential over decision levels (the CDCL argument adapted to terms over a finite ranked algebra of version sets), panic-freedom and no-Failure by a state invariant over the whole control flow of the solver model (all 19 panic sites); + exploration under catch_unwind, a call budget and a watchdog (debug assertions and overflow checks on)",
        "15 Coq theorems (Props/Properties_C05.v; Proofs/SolverTerm1..6/.v + instances ~2800 lines, SolverNoPanic1/2/.v ~2100 lines, SolverProto2.v, SolverShared.v). For every lawful VersionSet with atomic singletons (extra law: a singleton contains only the point of its version; proved for Range<V> and the bitset, and proved NECESSARY by a counter-model), every FINITE registry (finitely many packages; its dependency sets and version singletons inside a finite ranked algebra of sets - proved to exist for Range<V> relative to any finite list of bound values, and for the bitset), every trace that agrees with it: TERMINATION - every run consumes at most Events0 provider events, a number computed from the registry alone (resolve_calls_bounded), and with at least Fuel1 fuel (also a function of the registry alone) the model never runs out of fuel (resolve_never_out_of_fuel; by C07 more fuel never changes a result), so no loop of the algorithm runs forever; NO PANIC - none of the 19 Panic outcomes (one per panic!/unwrap/expect/unreachable!/debug_assert! site) is reachable; NO FAILURE - never Failure('no term'), and never Failure at all when choose_version answers inside the offered set; hence (resolve_terminates_ok_or_nosolution) a well-behaved provider without error answers gets Ok or NoSolution (or the recorded trace is not a complete run of the model). Building the derivation tree never fails. Not in the model: arithmetic overflow of counters (unbounded naturals in the model) - covered by running the implementation with overflow checks and debug assertions on. Exploration: every case runs under catch_unwind with a 20000-call budget and a 20 s watchdog (a loop without provider calls is reported as (hang)); degenerate registries (root without versions, empty sets, unknown packages, cycles, self-dependencies, unavailable versions) are generated on purpose."),
    "C06": solver_prop("Props/Properties_C06.v", "proof",
        "Coq proof by invariant over the solver model: every store entry is justified by its kind and valid (external constructors, merged dependents, rule of resolution), preserved by unit propagation, conflict resolution, backtracking and the main loop",
        "7 Coq theorems: for every lawful VersionSet, registry, well-behaved trace and fuel, every incompatibility in the model's store (external, merged, learned, intermediate prior causes; runs ending in Ok, NoSolution, errors or cut short) is valid: no solution makes all its terms true. Tie: full-trace correspondence; oracle: validity of every store entry of the replayed run against all solutions of the registry (complete enumeration on small registries).",
        "The Rust arena is observed through the add-only cfg(pubgrub_verif) hook (a Drop impl that leaves a rendering of every recorded incompatibility in a thread-local); it must equal the model's store entry by entry (kind, cause ids, terms), and the oracle checks every entry of the Rust store against all solutions.",
        extra={"obs_fields": {"solver": ["res", "store"]}, "translator": True}),
    "C07": solver_prop("Props/Properties_C07.v", "other",
        "repeat-run comparison in one process and across fresh processes, integer and string package names; the Coq model is a function of the provider answers",
        "A Gallina function is deterministic by construction, so the content is that the Rust code is such a function. Every case is run twice in-process (trace and result compared) and the whole case stream is produced a second time by a fresh process with a different environment and compared byte for byte; the model must reproduce every trace from the recorded answers alone. Coq (3 theorems): the result depends only on the consumed prefix of the answers, and not on the fuel of the model (two runs that do not run out of fuel agree).",
        extra={"cross_process": True}),
    "C12": solver_prop("Props/Properties_C12.v", "proof",
        "Coq proof: structural protocol scanner over the consumed trace + queue and non-emptiness invariants of the solver model; protocol checker on every recorded callback trace of the implementation",
        "8 Coq theorems (Props/Properties_C12.v; Proofs/SolverProtocol.v, SolverQueue2.v, SolverProto2.v), all clauses of the property for the model of resolve, for ANY fuel: the calls the model consumes are accepted by the protocol scanner `shape` (any trace): should_cancel is the first call and occurs between any two choose_version calls; get_dependencies(p, v) only immediately after the choose_version(p, .) that returned v; at most once per (p, v); and, for every lawful VersionSet and every trace whose dependency answers carry well-formed sets: the set of each choose_version(p, set) call is the set of the LAST prioritize call for p and is NOT EMPTY; the FIRST choose_version call is for the root with the singleton set of the requested version, preceded by exactly one should_cancel and one prioritize call. Tie: the model replays every recorded trace (it refuses any call it would not make itself), and the protocol checker of the harness checks all clauses on the implementation's own trace.",
        domains=("solver", "faults")),
    "C13": solver_prop("Props/Properties_C13.v", "proof",
        "Coq proof: the run is a function of the consumed answers; error answers are last and determine the outcome; two-run fault-injection theorem; + fault enumeration on the implementation: every position of the fault-free trace, every callback kind, plus out-of-set answers",
        "8 Coq theorems (Props/Properties_C13.v; Proofs/SolverTrace.v, SolverFaults.v, SolverInject.v), for any VersionSet operations with a correct equality, any fuel: the result is a function of the consumed prefix of the provider's answers; an error outcome is only returned because of an error answer of that very callback; an error answer is the LAST call of the run and the outcome is then the matching error carrying the queried package and version; FAULT INJECTION (two runs): if the fault-free run made the call that e answers, the run that receives a faulty answer to that same call (an error; for choose_version also a version outside the offered set) makes exactly the same calls with the same answers up to that point, then that call, and stops with ErrorInShouldCancel / ErrorChoosingPackageVersion / ErrorRetrievingDependencies(p, v) / Failure, whatever would have followed; a consumed out-of-set choose_version answer is the last call and the outcome is Failure, never a solution. Exploration: for each base run a fault is injected at every index of its callback trace (error at should_cancel / choose_version / get_dependencies; out-of-set version at choose_version): the faulty trace must equal the fault-free trace up to the fault, end there, and the result must be the matching error variant (with the queried package and version) resp. Failure; the Coq model must reproduce every faulty run.",
        domains=("faults",)),
    "C14": solver_prop("Props/Properties_C14.v", "proof",
        "Coq proof by two invariants over the solver model (changed-index bookkeeping of partial_solution.rs; every non-deciding continuation re-queues the picked package) + per-decision check on the decision log of every replayed run",
        "7 Coq theorems (Props/Properties_C14.v, from Proofs/SolverQueue.v + SolverQueue2.v, 174 lemmas), for every lawful VersionSet, any fuel and any trace whose dependency answers carry well-formed sets (every trace agreeing with a well-formed registry): at EVERY decision point every undecided package with a positive term is queued, its entry was reported for its CURRENT set and is the LAST prioritize call for that package (second clause, in full); the package of the choose_version call has a queue entry for exactly the offered set whose priority is the maximum of the queue, and every queued priority is below that maximum (first clause). Which of several maximal packages the Rust PriorityQueue pops is an adversarial parameter taken from the recorded trace: the model REJECTS a trace whose picked package is not maximal (OPickNotMax), so the tie for 'the implementation picks a maximal one' is the replay of every recorded run. Static, set-dependent (count), scripted and history-dependent priorities are generated. The root cause of F1 violated this and was found here.",
        extra={"assumptions": ["provider is well-behaved w.r.t. the generated registry",
                               "priority_queue::PriorityQueue::pop (external crate, not part of /repo) returns an element of maximal priority: not modelled, checked on every replayed run (the model rejects a non-maximal pick, which would surface as a correspondence break and a C14 oracle failure)"]}),
    "C08": {
        "props": "Props/Properties_C08.v",
        "level": "proof",
        "technique": "Coq proof by a reporter-state invariant over a Gallina model of DefaultStringReporter that mirrors the Rust control flow (explicit fuel, proved sufficient) + correspondence through a recording ReportFormatter on resolve trees and synthetic DAGs with forced sharing, before and after collapse_no_versions",
        "level_text": "6 Coq theorems about Model/Report.v (report_steps = the lines DefaultStringReporter builds, each recorded as the ReportFormatter callback that produced it, its arguments and the (n) suffixes), for every VersionSet, every tree whose shared ids are consistent and whose derived nodes follow from their causes on ANY chosen set of admissible assignments (all assignments, or only those selecting existing versions - the reading used after collapse_no_versions): the model is total (fuel suffices); numbers are 1..k in order of appearance and a line carries at most one; every (n) reference points to exactly one line, which is earlier and concludes the cited terms; each explaining line's conclusion is entailed by the incompatibilities of the external facts it names, the terms of its references and - for an 'And because' line - the conclusion of the (existing, non-blank) preceding line; every external leaf is cited; the last line concludes the top node. The step list has no formatter parameter (same through report and report_with_formatter by construction). Tie: report_with_formatter is run with a recording formatter, every line decoded (callback, arguments, (n) suffixes) and compared with the extracted model; report() and report_with_formatter(default) must equal the default formatter applied to the recorded steps; an independent oracle re-checks all six clauses on the Rust steps (entailment by enumeration of assignments over the cells of the occurring bounds).",
        "level_note": "Trusted: Coq kernel, extraction, harness/driver, the oracle of ocaml/d_report.ml. Derived.terms (a hash map) is modelled as an association list and compared sorted by package; strings are not modelled (the default formatter's text is compared inside the harness against the real DefaultStringReportFormatter applied to the recorded arguments). That trees built by resolve are shared-consistent and locally entailed is C03's business (checked there by oracle); after collapse_no_versions local entailment holds only on existing versions (C09) and the theorem is used with that set of assignments.",
        "domains": ["report"],
        "exhaustive": False,
        "rule": "trees: (i) every distinct NoSolution tree of the solver generators (tiny scope: all scripts of sampled registries; small scope; random registries with 3-8 packages; single-leaf trees capped at 400); (ii) synthetic DAGs: 3-8 random external leaves (dependency incl. self-dependency and empty sets, NoVersions, Custom, at most one NotRoot) combined by 1-12 resolution steps between random earlier nodes sharing a package (union on the pivot, intersection elsewhere, always-true term dropped), nodes with in-degree >= 2 get a shared id (Arc-shared like resolve's); (iii) the result of collapse_no_versions on each of (i),(ii) when it differs. All 6 callbacks, the blank-line re-entry and the add_line_ref+recurse path occur thousands of times (histogram printed by the harness on stderr). distinct = distinct case text; non-trivial = trees with at least one derived node.",
        "assumptions": ["shared ids label identical subtrees (SharedConsistent) and derived nodes follow from their causes (premise of the property)",
                        "hash-map iteration order of Derived.terms is irrelevant to the compared observations (terms compared sorted)"],
        "explanation": "",
    },
    "C09": {
        "props": "Props/Properties_C09.v",
        "level": "proof",
        "technique": "Coq proof over a Gallina model of collapse_no_versions / merge_no_versions (explicit PANIC outcome): structural clauses for all trees, semantic preservation on any admissible set of assignments for every lawful VersionSet; + correspondence and an independent semantic oracle (validity on existing versions) on resolve trees with their registries and on synthetic DAGs",
        "level_text": "17 Coq theorems (Model/Report.v; Proofs/ReportProofs.v, SolverCollapse.v, SolverNoPair.v). THE PROPERTY for the trees resolve produces (nosolution_tree_collapse_never_panics_and_stays_valid): for every lawful VersionSet, well-formed registry, well-behaved trace and fuel, collapse_no_versions never panics on a NoSolution tree of the solver model, and the collapsed tree is a valid explanation on existing versions (derived nodes entailed, NoVersions leaves true and surviving only next to NoVersions/Custom leaves, every leaf equivalent on existing versions to a leaf of the original tree, the top node still forbids the root); a tree without NoVersions leaves is returned unchanged. Ingredients: every NoSolution tree of the solver model is well formed, its NoVersions leaves are true on existing versions, its derived nodes are entailed for every assignment and it is `related`; hence, whenever it has no (NoVersions, NotRoot) pair, collapse_no_versions succeeds and the collapsed tree is locally entailed on existing versions, every leaf is equivalent on existing versions to a leaf of the original tree, NoVersions leaves survive only next to NoVersions/Custom leaves, and the top node still forbids the root. About collapse itself: For every VersionSet and EVERY tree: a tree without NoVersions leaves is returned unchanged; in the result every NoVersions leaf that is a cause of a derived node sits next to a NoVersions or Custom leaf; collapse panics if and only if some derived node has the causes (NoVersions, NotRoot) in either order, so it never panics otherwise, nor on its own result. For every lawful VersionSet and any set of admissible assignments on which the NoVersions leaves are true (instance: assignments selecting registry versions only): if the derived nodes of t follow from their causes, so do those of the collapsed tree; its NoVersions leaves stay true; every leaf of the result is a leaf of t or a dependency leaf fired by exactly the same admissible assignments as one of t (true of the provider stays true on existing versions); the new top node is fired wherever the old one was, so it still forbids the root. Hypotheses of the semantic theorems: well-formed (canonical) version sets in the leaves and `related t` (a NoVersions(p) cause whose sibling collapses to a dependency leaf p1->p2 is about p1 or p2; merge_no_versions does not check this and would widen the wrong set otherwise). The never-panics clause rests on the run-level invariant that the not_root incompatibility is never a cause of a derived entry (resolve_never_resolves_with_not_root). Exploration: every generated resolve tree and synthetic DAG is collapsed by the implementation and compared with the model, with an independent re-check of all semantic clauses on the Rust result.",
        "level_note": "Trusted: Coq kernel, extraction, harness/driver, the oracle of ocaml/d_report.ml. Arc::make_mut un-sharing is modelled by a function on trees (observationally identical: the collapsed tree is compared node by node including shared ids). For synthetic DAGs 'existing versions' are the versions outside the union of the tree's NoVersions sets per package. Leaves true of the registry and local entailment BEFORE the call are C03's business (a leaf is only blamed on collapse if all leaves were true before).",
        "domains": ["collapse"],
        "exhaustive": False,
        "rule": "same tree stream as C08 (i),(ii): every distinct NoSolution tree of the solver generators together with its registry and root, and synthetic DAGs (NoVersions in about 30% of the leaves; a NoVersions leaf directly against NotRoot is generated rarely, on purpose, to exercise the panic arm: the model must predict the panic). Observation: the collapsed tree (or panic) and the report steps of the collapsed tree. distinct = distinct case text; non-trivial = trees with at least one derived node.",
        "assumptions": ["resolve trees: leaves are true of the registry and nodes locally entailed before the call (C03)",
                        "resolve trees contain no (NoVersions, NotRoot) pair of causes and satisfy `related` (explored on every generated tree, not proved)"],
        "explanation": "Proved in Coq: identity without NoVersions leaves, where NoVersions leaves may survive, exact characterisation of the panic (all trees, all VersionSets); preservation of local entailment, of the truth of leaves and of what the top node forbids on existing versions (lawful VersionSets, hypothesis `related`). Explored, not proved: that resolve never builds a (NoVersions, NotRoot) pair (so: no panic on resolve trees) and that resolve trees satisfy `related`. Every generated tree is additionally re-checked by an independent oracle (entailment by enumeration of assignments restricted to registry versions).",
    },
    "C10": {
        "translator": True,
        "props": "Props/Properties_C10.v",
        "level": "proof",
        "technique": "Coq proof (functor over any ordered version type) of pointwise set laws, canonical form and extensional equality + exhaustive small-scope correspondence",
        "level_text": "14 Coq theorems over Model/Range.v for every decidable total order of versions: every range reachable through the public API is canonical; union/intersection/complement are the pointwise set operations on the dense completion of the version order (hence on versions); is_disjoint/subset_of agree with the pointwise definitions; canonical ranges with the same points are structurally equal; a∩b=a iff subset, a∩b=∅ iff disjoint. Tie: all 128x128 pairs of canonical ranges over 3 bound values (thorough: 512x512 over 4) built through three different API construction trees, every observable compared with the extracted model, plus pointwise-law oracles on the Rust results.",
        "level_note": RANGE_NOTE,
        "domains": ["ranges"],
        "obs_fields": {"ranges": ["built", "compl", "cc", "ma", "mc", "u", "i", "dj", "ss", "eq", "mb", "mu", "mi", "ieqa", "iempty"]},
        "exhaustive": True,
        "rule": "all canonical ranges over bound values {10,20,30} = subsets of the 7 cells (-inf,10),{10},(10,20),...,(30,inf): 128 ranges x 3 construction trees (unary ops) and all 128^2 ordered pairs (binary ops, predicates, ==, cmp, hash), each built through the public API only; thorough adds k=4 (512 ranges, 262144 pairs). distinct = distinct case text; non-trivial = every case (each evaluates the operations on a distinct pair of sets).",
        "assumptions": ["order-isomorphism: the code only compares bound values, so behaviour depends only on their relative order (property text)",
                        "SmallVec abstracted to as_slice; std slice::binary_search_by trusted"],
    },
    "C11": {
        "translator": True,
        "props": "Props/Properties_C11.v",
        "level": "proof",
        "technique": "Coq proof over any lawful VersionSet that the seven Term operations equal evaluation on every choice + exhaustive small-scope correspondence through cfg hooks",
        "level_text": "13 Coq obligations: for every lawful VersionSet (laws in Proofs/VSLaws.v) and well-formed terms, negate/intersection/union are pointwise not/and/or over all choices (each point, or not selected); subset_of, is_disjoint, relation_with (Satisfied/Contradicted/Inconclusive) and contains are characterised by quantification over all choices; any/empty are always/never true; Range over any ordered version type and the 8-version bitset are proved lawful (non-vacuity). The pre-repair (Negative,Negative) arm of is_disjoint is refuted by a theorem (finding F2, fixed in /repo). Tie: all 64x64 pairs of terms over ranges on 2 bound values, the extremes against everything and 20000 seeded pairs on 3 bound values (thorough: all 256x256), plus 20000 term pairs over BitSet8, through the cfg(pubgrub_verif) wrappers; every result compared with the extracted model and re-evaluated on every choice by an independent oracle.",
        "level_note": "Trusted: Coq kernel, extraction, harness/driver, the add-only cfg(pubgrub_verif) wrapper module in src/term.rs (thin calls). The theorems assume the VersionSet laws, which are proved for Range (canonical ranges) and for the bitset.",
        "domains": ["terms", "bitset"],
        "case_filter": {"bitset": r"^\(bt2 "},
        "exhaustive": True,
        "rule": "terms = sign x canonical range; all ordered pairs over 2 bound values (64x64), always-true/never-true/empty/full extremes against all 256 terms over 3 bound values, 20000 seeded pairs (quick) or all 65536 (thorough); BitSet8 terms: 20000 seeded + extremes. distinct = distinct case text; all non-trivial (each pair evaluates 7 operations).",
        "assumptions": ["choices are evaluated at one representative per cell of the bound values (order-isomorphism, as C10)"],
    },
    "C15": {
        "translator": True,
        "props": "Props/Properties_C15.v",
        "level": "proof",
        "technique": "Coq proof of the query/Display specifications over the range model + exhaustive correspondence over ranges x sorted version sequences with law oracles",
        "level_text": "11 Coq theorems (any ordered version type): contains_many = map contains on ascending input; bounding_range, as_singleton, from_range_bounds (vs std RangeBounds::contains), is_empty, iter specifications; Display tokens denote exactly the set on the dense completion, are injective on canonical ranges, and the text is their rendering; simplify(versions) is canonical, agrees with the original on every listed version and never has more segments (range_simplify_spec, by induction over the group builder with the version cursor), plus the three documented special cases. Tie: every canonical range over 3 bound values x every ascending version sequence (with repetitions) of length <= 3 (thorough 5) over versions at every bound and in every gap, plus longer random ones; Display compared byte for byte and re-read by a reference parser.",
        "level_note": RANGE_NOTE + "",
        "domains": ["rangeq"],
        "exhaustive": True,
        "rule": "128 canonical ranges over {10,20,30} x all non-decreasing sequences over the probes {5,10,...,35} of length <= 3 (quick; half of the length-3 ones) / <= 5 (thorough), + seeded random sorted sequences of length 4..9, + from_range_bounds over all 25 bound pairs on {10,20}, + unary queries and Display of all 128 ranges. distinct = distinct case text; non-trivial = every case with a non-empty version list or a unary query.",
        "assumptions": ["versions are u32 in the harness; Display of u32 is decimal (modelled by dec_Z)"],
    },
    "C16": {
        "translator": True,
        "props": "Props/Properties_C16.v",
        "level": "proof",
        "technique": "Coq proof that Range::cmp is the lexicographic order of bound positions (total, Eq iff ==) for all segment lists + exhaustive pairs / sampled-or-exhaustive triples correspondence",
        "level_text": "10 Coq theorems: range_cmp = Eq iff equal, antisymmetric, transitive, total, partial_cmp = Some cmp, == iff cmp = Eq, the two 9-arm bound tables are the position orders of start/end bounds (any ordered version type, any segment list, canonical or not); Eq and Hash of the 4-variant SmallVec are functions of as_slice (equal => same hash stream). Tie: cmp/partial_cmp/==/DefaultHasher+FxHasher equality on all 128^2 pairs built through different construction trees, triples sampled (quick) or all 2M (thorough).",
        "level_note": RANGE_NOTE + " The concrete hash functions are not modelled: only that equal values feed equal streams; that == ranges hash equally under DefaultHasher and FxHasher is observed on every pair.",
        "domains": ["rangeord"],
        "obs_fields": {"rangeord": ["eq", "cmp", "pcmp", "rcmp", "heq", "lt", "gt"]},
        "exhaustive": True,
        "rule": "all 128^2 ordered pairs of canonical ranges over 3 bound values, the two sides built through different API trees (cmp, partial_cmp, reverse cmp, ==, hash equality); triples: 20000 seeded (quick) / all 128^3 (thorough). distinct = distinct case text; all non-trivial.",
        "assumptions": ["std::hash::Hash for tuples/Bound/u32 and the hashers are trusted"],
    },
    "C17": {
        "translator": True,
        "props": "Props/Properties_C17.v",
        "level": "proof",
        "technique": "Coq proof that the four provided VersionSet methods are correct for any lawful implementation of the required ones + exhaustive BitSet8 correspondence",
        "level_text": "6 Coq obligations: for any implementation whose required methods satisfy the set laws with canonical equality (ReqLawful), full/union/is_disjoint/subset_of defaults compute the universe, union, emptiness of intersection and inclusion, hence the trait with inherited methods is a lawful VersionSet (vs_defaults_lawful); the bitset over 8 versions is such an implementation (by complete enumeration inside Coq). The solver half of C17 is carried by stating every solver theorem over an arbitrary lawful VersionSet (see C01..C14 entries). Tie: a Rust BitSet8 implementing only the required methods, all provided methods compared with the model on 256x256 pairs (quick: a quarter + extremes), and used as DP::VS in the solver correspondence.",
        "level_note": "Trusted: Coq kernel (vm_compute used for the 256x256x8 enumeration proving the bitset laws), extraction, harness/driver. An unlawful VersionSet is outside every statement.",
        "domains": ["bitset"],
        "exhaustive": True,
        "rule": "all 8 singletons; pairs (a,b) of 8-bit masks: all with a or b in {0..3,252..255} plus a seeded quarter of the rest (quick) / all 65536 (thorough); BitSet8 terms 20000 (quick) / 200000 (thorough). distinct = distinct case text; all non-trivial.",
        "assumptions": ["versions of BitSet8 are 0..7 only (1u8 << v overflows beyond)"],
    },
    "C18": {
        "props": "Props/Properties_C18.v",
        "level": "proof",
        "technique": "Coq proof by induction over add_dependencies histories (last-write-wins map, ascending versions, newest-first choice) + exhaustive short histories correspondence",
        "level_text": "6 Coq theorems for every history of add_dependencies calls: get_dependencies returns the (de-duplicated, later entry wins) dependencies of the last call for (p,v) and Unavailable otherwise; packages()/versions(p) enumerate exactly what was added, versions strictly ascending, None iff never added; choose_version returns the greatest added version inside the set or None; prioritize counts matching versions and fewer matches compare strictly greater (Reverse). Tie: all histories of <= 2 calls (thorough 3) over 30 distinct calls with overwrites and duplicate dependency entries, seeded longer ones, followed by all queries; compared with the extracted model and with an independent reference map.",
        "level_note": "Trusted: Coq kernel, extraction, harness/driver. FxHashMap / BTreeMap are modelled as association lists (iteration order of the dependency map is not modelled; results are compared as sorted maps); packages are numbers and versions integers in the model.",
        "domains": ["offline"],
        "exhaustive": True,
        "rule": "30 distinct add_dependencies calls (2 packages x 3 versions x 5 dependency lists incl. duplicates and unknown packages): all sequences of length 0..2 (quick) / 0..3 (thorough) + seeded sequences of length 3..7; after each history all queries (deps for 3x3 pairs incl. never-added, packages, versions, choose/prioritize for 6 sets). distinct = distinct history; non-trivial = histories with at least one call.",
        "assumptions": ["hash-map iteration order is irrelevant to the compared observations"],
    },
    "C19": {
        "props": "Props/Properties_C19.v",
        "level": "proof",
        "technique": "Coq proof that the modelled JSON encoding of Range / SemanticVersion / OfflineDependencyProvider decodes back to the same value and that the legacy interval forms decode to start<=v<end / start<=v + correspondence of that encoding with serde_json (and ron for the legacy forms) on exhaustive small scopes",
        "level_text": "13 Coq theorems over Model/Json.v (a JSON tree type with executable encoders/decoders mirroring what serde_json does for Bound, 2-tuples, Option, sequences, string versions and integer-keyed maps, and the untagged EitherInterval of src/range.rs, first matching variant wins): decode(encode r) = r for every segment list and any version payload that round-trips (instances: u32 numbers, SemanticVersion strings via C20's print/parse); [a,b] and [a,null] decode to Included(a)..Excluded(b) / Included(a)..Unbounded whenever a version's JSON is not itself a Bound encoding or null (proved for numbers and for a.b.c strings) and these are the sets a<=v<b / a<=v; integer map keys are exactly the canonical decimals <= u32::MAX; decode(encode p) = p for every provider with u32 packages/versions (in particular every add_dependencies history), hence every function of the provider value agrees after the round trip. Tie: serde_json::to_value / from_value / to_string / from_str on all 128 canonical ranges over 3 bound values x 3 construction trees, 216 grid versions, Range<SemanticVersion>, ~700 single-interval JSON trees built from 26 well- and ill-formed atoms plus thousands of multi-interval ones (legacy, new, mixed, wrong arity, wrong tags, non-arrays), the legacy forms as RON text in three layouts, provider histories of the C18 stream and 6000 random small registries (encoding as a sorted tree, all C18 queries after the round trip, resolve before/after on every root), malformed provider trees, and the repository's legacy RON fixture (641 roots).",
        "level_note": "Trusted: Coq kernel, extraction, harness/driver. serde, serde_json, ron and the derive macros are NOT modelled: the theorems are about the encoding that model and implementation are observed to share on every run (floats and duplicate keys inside one JSON object are outside the model; RON is only exercised on the legacy forms, its alpha release cannot read back the new enum-valued bounds inside the untagged enum, as the property text says). Resolution after the round trip: the model theorem (resolve_after_roundtrip) is about functions of the provider VALUE; the implementation's round trip preserves the maps but not the FxHashMap iteration order, on which pubgrub::resolve depends. The check therefore enforces, on every root, the same kind of outcome and that every solution found after the round trip is a solution of the original registry (cases prov-resolve, fixture), and additionally runs the STRICT reading 'identical solution map / identical report text' (cases prov-resolve-identical, fixture-identical), whose failures on the unchanged tree are listed in known-findings.txt (KNOWN-FINDING line on every run) rather than hidden.",
        "domains": ["serde"],
        "obs_fields": {"serde": ["built", "enc", "dec", "str", "eq", "val", "q", "same", "str-same", "outcome-same", "ron-ok", "json-rt-same", "legacy-shape"]},
        "exhaustive": True,
        "rule": "rt-range: 128 canonical ranges over {10,20,30} x 3 API construction trees (thorough + 512 over 4 values); dec-range: every pair of 26 JSON atoms as one interval, 12 odd shapes, 13x13 core pairs, 4000 (thorough 60000) seeded lists of 2..4 intervals; dec-ron: 7x7 legacy tuples + arity/list variants x 3 text layouts + 2000 seeded lists; sv-json: grid {0,1,9,10,2^32-2,2^32-1}^3; dec-sv: all '.'-joined strings of <=3 of 12 parts; rt-range-sv: 32 (thorough 128) canonical ranges x 3 triples of versions incl. u32 extremes; dec-range-sv: 16x16 atoms; prov / prov-resolve: 30 single calls, half (thorough all) of the 900 pairs, 6000 (thorough 100000) seeded registries of <=6 packages x 3 versions x <=5 dependencies; dec-prov: 15 key spellings at each of the 3 map levels + malformed trees; fixture: test-examples/large_case_u16_NumberVersion.ron. distinct = distinct case text; non-trivial = every case.",
        "assumptions": ["serde / serde_json 1.0 / ron 0.9.0-alpha.0 behaviour is modelled from observation (Model/Json.v header), validated by the correspondence on every run",
                        "RON Some(x)/None are mapped to x/null only where an Option is expected (second tuple position)",
                        "strict identity of resolve results after the round trip is NOT claimed (hash-map iteration order); see level_note and known-findings.txt"],
    },
    "C20": {
        "props": "Props/Properties_C20.v",
        "level": "proof",
        "technique": "Coq proof over a Gallina model of version.rs + exhaustive-grid correspondence against the Rust implementation",
        "level_text": "11 Coq theorems (print/parse round trip, grammar of u32 parsing, which error variant and payload, lexicographic order, tuple inverses, bumps) about Model/SemVer.v, closed under the global context; the model is tied to src/version.rs by running both on a grid including u32 extremes and a grammar of well/ill-formed strings on every run.",
        "level_note": "Trusted: Coq kernel, ExtrOcamlBasic extraction, the harness/driver; Rust std (split, u32::from_str, format!) is modelled, not verified; behaviour at u32::MAX bumps is outside the property's guard.",
        "domains": ["semver"],
        "exhaustive": True,
        "rule": "grid {0,1,9,10,2^32-2,2^32-1}^3 of versions (display, round-trip, tuple, bumps below MAX: exhaustive); "
                "ordering: all pairs over {0,1,MAX}^3 + seeded pairs (quick) / all 216^2 pairs (thorough); strings: every "
                "'.'-joined sequence of <=3 (quick) / <=4 (thorough) parts out of 15 well- and ill-formed parts, seeded longer "
                "sequences and random decimals around 2^32. distinct = distinct case text; every case is non-trivial "
                "(each exercises parse, print, order or bump).",
        "assumptions": ["Rust std: str::split, u32::from_str, format! are modelled (Model/SemVer.v), validated by the correspondence",
                        "bump at u32::MAX (debug panic / release wrap) is outside the property's guard; model returns None"],
    },
}
