#!/usr/bin/env python3
"""Translator (DESIGN.md 3.1): regenerates the Gallina text of the comparison tables of src/range.rs,
the sign tables of src/term.rs and the default bodies of src/version_set.rs from the CURRENT source.
The generated definitions (coq/Gen/*.v) are proved equal to the hand-written model in
coq/Proofs/GenEq.v, so an edit of a table entry breaks a proof obligation deterministically.

Usage: translate.py <repo> <outdir>.  Exit status 1 (with a message) if the source no longer has the
restricted shape this reader understands: that is a broken tie, never a silent skip.

Supported Rust subset: `match (e1, e2) { pat => expr, ... }` (also on a single expression), patterns built
from tuple patterns, constructor patterns `C(p)`, `_`, binders, or-patterns (top level and nested) and
`if` guards; expressions built from paths, method calls, field access, `&`/`?`/`!`, comparison operators,
`&&`, `if … { … } else { … }`, nested `match`, blocks, tuples and calls.  Pattern matching is compiled by
enumerating the constructors of the scrutinee components (Bound: 3, Term: 2, Ordering: 3)."""
import re
import sys
import os

# ------------------------------------------------------------------------------ tokenizer
TOK = re.compile(r"\s+|//[^\n]*|(?P<tok>=>|==|<=|>=|&&|\|\||::|\.\.|[A-Za-z_][A-Za-z0-9_]*|\d+|\"[^\"]*\"|.)", re.S)


def tokenize(src):
    out = []
    for m in TOK.finditer(src):
        if m.group("tok") is not None:
            out.append(m.group("tok"))
    return out


class ParseError(Exception):
    pass


class P:
    def __init__(self, toks):
        self.t = toks
        self.i = 0

    def peek(self, k=0):
        return self.t[self.i + k] if self.i + k < len(self.t) else None

    def eat(self, tok=None):
        x = self.peek()
        if x is None or (tok is not None and x != tok):
            raise ParseError("expected %r, got %r at %d: …%s…" % (tok, x, self.i, " ".join(self.t[max(0, self.i - 8):self.i + 8])))
        self.i += 1
        return x

    # ---- patterns
    def pattern(self):
        alts = [self.pattern1()]
        while self.peek() == "|":
            self.eat()
            alts.append(self.pattern1())
        return alts[0] if len(alts) == 1 else ("or", alts)

    def pattern1(self):
        x = self.peek()
        if x == "(":
            self.eat()
            items = []
            while self.peek() != ")":
                items.append(self.pattern())
                if self.peek() == ",":
                    self.eat()
            self.eat(")")
            return ("tuple", items)
        if x == "&":
            self.eat()
            return self.pattern1()
        if x == "_":
            self.eat()
            return ("wild",)
        name = self.path()
        if self.peek() == "(":
            self.eat()
            args = []
            while self.peek() != ")":
                args.append(self.pattern())
                if self.peek() == ",":
                    self.eat()
            self.eat(")")
            return ("ctor", name, args)
        base = name.split("::")[-1]
        if base in CTORS:
            return ("ctor", name, [])
        return ("var", name)

    def path(self):
        x = self.eat()
        if not re.match(r"[A-Za-z_]", x):
            raise ParseError("identifier expected, got %r" % x)
        while self.peek() == "::":
            self.eat()
            if self.peek() == "<":     # turbofish, skipped
                depth = 0
                while True:
                    y = self.eat()
                    if y == "<":
                        depth += 1
                    elif y == ">":
                        depth -= 1
                        if depth == 0:
                            break
                self.eat("::")
            x += "::" + self.eat()
        return x

    # ---- expressions (precedence: && < comparison < unary < postfix)
    def expr(self):
        l = self.cmp()
        while self.peek() == "&&":
            self.eat()
            l = ("and", l, self.cmp())
        return l

    def cmp(self):
        l = self.unary()
        if self.peek() in ("<=", "<", ">", ">=", "=="):
            op = self.eat()
            l = ("cmp", op, l, self.unary())
        return l

    def unary(self):
        if self.peek() == "&":
            self.eat()
            return self.unary()
        if self.peek() == "!":
            self.eat()
            return ("not", self.unary())
        return self.postfix()

    def postfix(self):
        e = self.atom()
        while True:
            x = self.peek()
            if x == ".":
                self.eat()
                name = self.eat()
                if self.peek() == "(":
                    self.eat()
                    args = []
                    while self.peek() != ")":
                        args.append(self.expr())
                        if self.peek() == ",":
                            self.eat()
                    self.eat(")")
                    e = ("method", name, e, args)
                else:
                    e = ("field", name, e)
            elif x == "?":
                self.eat()
            else:
                return e

    def atom(self):
        x = self.peek()
        if x == "(":
            self.eat()
            items = []
            while self.peek() != ")":
                items.append(self.expr())
                if self.peek() == ",":
                    self.eat()
            self.eat(")")
            return items[0] if len(items) == 1 else ("tuple", items)
        if x == "{":
            self.eat()
            e = self.expr()
            self.eat("}")
            return e
        if x == "if":
            self.eat()
            c = self.expr()
            self.eat("{")
            a = self.expr()
            self.eat("}")
            self.eat("else")
            self.eat("{")
            b = self.expr()
            self.eat("}")
            return ("if", c, a, b)
        if x == "match":
            return self.match()
        if x in ("true", "false"):
            self.eat()
            return ("bool", x)
        name = self.path()
        if self.peek() == "(":
            self.eat()
            args = []
            while self.peek() != ")":
                args.append(self.expr())
                if self.peek() == ",":
                    self.eat()
            self.eat(")")
            return ("call", name, args)
        return ("path", name)

    def match(self):
        self.eat("match")
        scrut = self.expr()
        self.eat("{")
        arms = []
        while self.peek() != "}":
            pat = self.pattern()
            guard = None
            if self.peek() == "if":
                self.eat()
                guard = self.expr()
            self.eat("=>")
            body = self.expr()
            if self.peek() == ",":
                self.eat()
            arms.append((pat, guard, body))
        self.eat("}")
        return ("match", scrut, arms)


CTORS = {"Included": "Incl", "Excluded": "Excl", "Unbounded": "Unb", "Positive": "Pos", "Negative": "Neg",
         "Less": "Lt", "Equal": "Eq", "Greater": "Gt"}
FAMILY = {"bound": [("Included", 1), ("Excluded", 1), ("Unbounded", 0)],
          "term": [("Positive", 1), ("Negative", 1)],
          "ordering": [("Less", 0), ("Equal", 0), ("Greater", 0)]}


def family_of_pattern(p):
    """which constructor family does a (component) pattern mention?"""
    k = p[0]
    if k == "ctor":
        b = p[1].split("::")[-1]
        for f, cs in FAMILY.items():
            if b in [c for c, _ in cs]:
                return f
        raise ParseError("unknown constructor " + p[1])
    if k == "or":
        for a in p[1]:
            f = family_of_pattern(a)
            if f:
                return f
    return None


def pmatch(p, val, env):
    """val = (ctor, [payload var]) ; returns list of env extensions (first alternative that matches) or None"""
    k = p[0]
    if k == "wild":
        return env
    if k == "var":
        e = dict(env)
        e[p[1]] = val
        return e
    if k == "or":
        for a in p[1]:
            r = pmatch(a, val, env)
            if r is not None:
                return r
        return None
    if k == "ctor":
        b = p[1].split("::")[-1]
        if val[0] != "ctor" or val[1] != b:
            return None
        e = env
        for sub, payload in zip(p[2], val[2]):
            e = pmatch(sub, ("value", payload), e)
            if e is None:
                return None
        return e
    if k == "tuple":
        if val[0] != "tuple":
            return None
        e = env
        for sub, v in zip(p[1], val[1]):
            e = pmatch(sub, v, e)
            if e is None:
                return None
        return e
    raise ParseError("pattern kind " + k)


class Emit:
    """translation of expressions to Gallina text under a naming environment"""

    def __init__(self, names, ops):
        self.names = names      # rust path / field expression text -> gallina text
        self.ops = ops          # operator family: "version" | "vs" | "req"
        self.fresh = 0

    def val_text(self, v):
        if v[0] == "value":
            return v[1]
        if v[0] == "ctor":
            c = CTORS[v[1]]
            return c if not v[2] else "(%s %s)" % (c, " ".join(v[2]))
        raise ParseError("tuple value used as an expression")

    def key(self, e):
        k = e[0]
        if k == "path":
            return e[1]
        if k == "field":
            return self.key(e[2]) + "." + e[1]
        if k == "method" and e[1] in ("as_ref", "clone", "cloned", "borrow", "start_bound", "end_bound") and not e[3]:
            return self.key(e[2])
        return None

    def expr(self, e, env):
        k = e[0]
        key = self.key(e)
        if key is not None:
            if key in env:
                return self.val_text(env[key])
            if key in self.names:
                return self.names[key]
            b = key.split("::")[-1]
            if b in CTORS:
                return CTORS[b]
            raise ParseError("unbound name %s" % key)
        if k == "bool":
            return e[1]
        if k == "and":
            return "(andb %s %s)" % (self.expr(e[1], env), self.expr(e[2], env))
        if k == "not":
            return "(negb %s)" % self.expr(e[1], env)
        if k == "if":
            return "(if %s then %s else %s)" % (self.expr(e[1], env), self.expr(e[2], env), self.expr(e[3], env))
        if k == "cmp":
            op, a, b = e[1], self.expr(e[2], env), self.expr(e[3], env)
            if self.ops == "version":
                return {"<=": "(vleb %s %s)" % (a, b), "<": "(vltb %s %s)" % (a, b), ">": "(vltb %s %s)" % (b, a),
                        ">=": "(vleb %s %s)" % (b, a), "==": "(veqb %s %s)" % (a, b)}[op]
            if op != "==":
                raise ParseError("only == on version sets")
            return ("(vs_eqb O %s %s)" if self.ops == "vs" else "(rq_eqb R %s %s)") % (a, b)
        if k == "call":
            b = e[1].split("::")[-1]
            args = [self.expr(a, env) for a in e[2]]
            if b in CTORS:
                return "(%s %s)" % (CTORS[b], " ".join(args))
            if e[1] in ("std::cmp::max", "cmp::max", "max"):
                return "(vmax %s %s)" % tuple(args)
            if b == "Some" and len(args) == 1:
                return args[0]
            if b == "empty" and not args:
                return "(vs_empty O)" if self.ops == "vs" else "(rq_empty R)"
            raise ParseError("unknown call " + e[1])
        if k == "method":
            recv = self.expr(e[2], env)
            args = [self.expr(a, env) for a in e[3]]
            if e[1] == "partial_cmp":
                return "(V.compare %s %s)" % (recv, args[0])
            if self.ops in ("vs", "req"):
                pre = "vs_" if self.ops == "vs" else "rq_"
                rec = "O" if self.ops == "vs" else "R"
                if e[1] in ("intersection", "union", "is_disjoint", "subset_of", "contains"):
                    return "(%s%s %s %s %s)" % (pre, e[1], rec, recv, args[0])
                if e[1] == "complement":
                    return "(%scomplement %s %s)" % (pre, rec, recv)
            raise ParseError("unknown method " + e[1])
        if k == "match":
            return self.match(e, env)
        raise ParseError("expression kind " + k)

    def match(self, m, env):
        scrut, arms = m[1], m[2]
        first = arms[0][0]
        first = first[1][0] if first[0] == "or" else first
        pat_arity = len(first[1]) if first[0] == "tuple" else None
        if scrut[0] == "tuple":
            comps, is_tuple = scrut[1], True
            texts = [self.expr(c, env) for c in comps]
        elif pat_arity == 2:
            # a pair-valued expression matched with pair patterns: project the components
            t = self.expr(scrut, env)
            comps, is_tuple = [None, None], True
            texts = ["(fst %s)" % t, "(snd %s)" % t]
        else:
            comps, is_tuple = [scrut], False
            texts = [self.expr(scrut, env)]
        # family of each component from the patterns
        fams = []
        for ci in range(len(comps)):
            fam = None
            for (pat, _, _) in arms:
                for alt in (pat[1] if pat[0] == "or" else [pat]):
                    sub = alt[1][ci] if alt[0] == "tuple" else alt
                    fam = fam or family_of_pattern(sub)
            fams.append(fam)   # None: every pattern ignores this component, no case split

        def build(ci, chosen):
            if ci == len(comps):
                val = ("tuple", chosen) if is_tuple else chosen[0]
                return self.first_arm(arms, val, env)
            if fams[ci] is None:
                return build(ci + 1, chosen + [("value", texts[ci])])
            branches = []
            for (c, arity) in FAMILY[fams[ci]]:
                vars_ = []
                for _ in range(arity):
                    self.fresh += 1
                    vars_.append("x%d" % self.fresh)
                body = build(ci + 1, chosen + [("ctor", c, vars_)])
                branches.append("| %s => %s" % (" ".join([CTORS[c]] + vars_), body))
            return "match %s with %s end" % (texts[ci], " ".join(branches))
        return "(" + build(0, []) + ")"

    def first_arm(self, arms, val, env):
        for idx, (pat, guard, body) in enumerate(arms):
            e = pmatch(pat, val, env)
            if e is None:
                continue
            b = self.expr(body, e)
            if guard is None:
                return b
            return "(if %s then %s else %s)" % (self.expr(guard, e), b, self.first_arm(arms[idx + 1:], val, env))
        raise ParseError("non-exhaustive match")


# ------------------------------------------------------------------------------ source extraction
def fn_body(src, header_re):
    m = re.search(header_re, src)
    if not m:
        raise ParseError("function not found: " + header_re)
    i = src.index("{", m.end() - 1) if src[m.end() - 1] != "{" else m.end() - 1
    depth = 0
    for j in range(i, len(src)):
        if src[j] == "{":
            depth += 1
        elif src[j] == "}":
            depth -= 1
            if depth == 0:
                return src[i + 1:j]
    raise ParseError("unbalanced braces")


def match_at(src, anchor):
    """parse the `match` expression starting at the first 'match' after [anchor]"""
    i = src.index(anchor)
    i = src.index("match", i)
    p = P(tokenize(src[i:]))
    return p.match()


def parse_expr(src):
    p = P(tokenize(src))
    e = p.expr()
    if p.peek() not in (None, ";"):
        raise ParseError("trailing tokens: %r" % p.t[p.i:p.i + 6])
    return e



# ------------------------------------------------------------------------------ incompatibility.rs constructors
class IncParser(P):
    """the external constructors of Incompatibility: `let` statements followed by a `Self { package_terms: E, kind: K }`
    literal; E built from SmallMap::One/Two array literals of (package, term) pairs and if / else-if / else"""
    PKG = {"package", "p1", "p2"}

    def stmts(self):
        lets = []
        while self.peek() == "let":
            self.eat("let")
            if self.peek() == "(":
                self.eat("(")
                a = self.eat(); self.eat(","); b = self.eat(); self.eat(")")
                self.eat("=")
                rhs = self.val()
                self.eat(";")
                lets.append("let '(%s, %s) := %s in" % (a, b, rhs))
            else:
                x = self.eat()
                self.eat("=")
                rhs = self.val()
                self.eat(";")
                lets.append("let %s := %s in" % (x, rhs))
        self.eat("Self")
        self.eat("{")
        fields = {}
        while self.peek() != "}":
            f = self.eat()
            self.eat(":")
            fields[f] = self.val()
            if self.peek() == ",":
                self.eat()
        self.eat("}")
        if self.peek() is not None:
            raise ParseError("trailing tokens after the struct literal")
        if set(fields) != {"package_terms", "kind"}:
            raise ParseError("unexpected fields %s" % sorted(fields))
        return " ".join(lets + ["{| terms := %s; ikind := %s |}" % (fields["package_terms"], fields["kind"])])

    def val(self):
        x = self.peek()
        if x == "if":
            self.eat("if")
            c = self.cond()
            self.eat("{"); a = self.val(); self.eat("}")
            self.eat("else")
            if self.peek() == "if":
                b = self.val()
            else:
                self.eat("{"); b = self.val(); self.eat("}")
            return "(if %s then %s else %s)" % (c, a, b)
        e = self.simple()
        return e

    def cond(self):
        a = self.simple()
        self.eat("==")
        b = self.simple()
        if a in self.PKG or b in self.PKG:
            return "N.eqb %s %s" % (a, b)
        return "vs_eqb O %s %s" % (a, b)

    def args(self, close):
        out = []
        while self.peek() != close:
            out.append(self.val())
            if self.peek() == ",":
                self.eat()
        self.eat(close)
        return out

    def simple(self):
        x = self.peek()
        if x == "&":
            self.eat()
            return self.simple()
        if x == "(":
            self.eat("(")
            items = self.args(")")
            e = items[0] if len(items) == 1 else "(" + ", ".join(items) + ")"
        elif x == "[":
            self.eat("[")
            items = self.args("]")
            e = "[" + "; ".join(items) + "]"
        else:
            name = self.path()
            base = name.split("::")[-1]
            if self.peek() == "(":
                self.eat("(")
                a = self.args(")")
                if name in ("SmallMap::One", "SmallMap::Two"):
                    e = a[0]
                elif base in ("Positive", "Negative"):
                    e = "(%s %s)" % (CTORS[base], a[0])
                elif name == "VS::singleton":
                    e = "(vs_singleton O %s)" % a[0]
                elif name == "VS::empty" and not a:
                    e = "(vs_empty O)"
                elif name.startswith("Kind::"):
                    k = {"NotRoot": "KNotRoot", "NoVersions": "KNoVersions", "FromDependencyOf": "KFromDep", "Custom": "KCustom"}[base]
                    e = "(%s %s)" % (k, " ".join(a))
                else:
                    raise ParseError("unknown call " + name)
            else:
                e = name
        while self.peek() == ".":
            self.eat(".")
            m = self.eat()
            self.eat("(")
            a = self.args(")")
            if m == "clone" and not a:
                pass
            elif m == "intersection" and len(a) == 1:
                e = "(vs_intersection O %s %s)" % (e, a[0])
            elif m == "union" and len(a) == 1:
                e = "(vs_union O %s %s)" % (e, a[0])
            elif m == "complement" and not a:
                e = "(vs_complement O %s)" % e
            else:
                raise ParseError("unknown method " + m)
        return e


def incompat_ctors(repo, out):
    inc = open(os.path.join(repo, "src", "internal", "incompatibility.rs")).read()
    defs = []
    for (name, header, params) in [
            ("not_root", r"pub\(crate\) fn not_root\(package: P, version: VS::V\)\s*->\s*Self\s*\{", "(package : pkg) (version : Vr)"),
            ("custom_version", r"pub\(crate\) fn custom_version\(package: P, version: VS::V, metadata: M\)\s*->\s*Self\s*\{",
             "(package : pkg) (version : Vr) (metadata : N)"),
            ("from_dependency", r"pub\(crate\) fn from_dependency\(package: P, versions: VS, dep: \(P, VS\)\)\s*->\s*Self\s*\{",
             "(package : pkg) (versions : VS) (dep : pkg * VS)")]:
        body = fn_body(inc, header)
        g = IncParser(tokenize(body)).stmts()
        defs.append("  Definition gen_%s %s : @incompat VS Vr :=\n    %s." % (name, params, g))
    text = ("(* GENERATED by tools/translate.py from /repo/src/internal/incompatibility.rs — do not edit, never committed *)\n"
            "From Coq Require Import List NArith.\nFrom PG Require Import Model.VS Model.Term Model.Solver.\nImport ListNotations.\n\n"
            "Section GenIncompat.\n  Context {VS Vr : Type} (O : VSOps VS Vr).\n\n" + "\n\n".join(defs) + "\n\nEnd GenIncompat.\n")
    open(os.path.join(out, "IncompatCtors.v"), "w").write(text)


def main():
    repo, out = sys.argv[1], sys.argv[2]
    os.makedirs(out, exist_ok=True)
    rng = open(os.path.join(repo, "src", "range.rs")).read()
    trm = open(os.path.join(repo, "src", "term.rs")).read()
    vst = open(os.path.join(repo, "src", "version_set.rs")).read()
    # only the code before the tests
    rng = rng.split("// TESTS #####")[0]
    trm = trm.split("// TESTS #####")[0]
    defs = []

    def table(name, params, ret, src_text, anchor, names, ops="version"):
        em = Emit(names, ops)
        m = match_at(src_text, anchor)
        defs.append("  Definition gen_%s %s : %s :=\n    %s." % (name, params, ret, em.match(m, {})))

    # ---- range.rs
    b = fn_body(rng, r"fn valid_segment<[^>]*>\([^)]*\)\s*->\s*bool\s*\{")
    table("valid_segment", "(start end_ : bnd)", "bool", b, "match", {"start": "start", "end": "end_"})
    b = fn_body(rng, r"fn end_before_start_with_gap<[^>]*>\([^)]*\)\s*->\s*bool\s*\{")
    table("end_before_start_with_gap", "(end_ start : bnd)", "bool", b, "match", {"start": "start", "end": "end_"})
    b = fn_body(rng, r"fn left_start_is_smaller<[^>]*>\([^)]*\)\s*->\s*bool\s*\{")
    table("left_start_is_smaller", "(left right : bnd)", "bool", b, "match", {"left": "left", "right": "right"})
    b = fn_body(rng, r"fn left_end_is_smaller<[^>]*>\([^)]*\)\s*->\s*bool\s*\{")
    table("left_end_is_smaller", "(left right : bnd)", "bool", b, "match", {"left": "left", "right": "right"})
    b = fn_body(rng, r"fn cmp_bounds_start<[^>]*>\([^)]*\)\s*->\s*Option<Ordering>\s*\{")
    table("cmp_bounds_start", "(left right : bnd)", "comparison", b, "Some(match", {"left": "left", "right": "right"})
    b = fn_body(rng, r"fn cmp_bounds_end<[^>]*>\([^)]*\)\s*->\s*Option<Ordering>\s*\{")
    table("cmp_bounds_end", "(left right : bnd)", "comparison", b, "Some(match", {"left": "left", "right": "right"})
    # within_bounds: the two boolean tables and the control flow around them
    b = fn_body(rng, r"fn within_bounds<[^>]*>\([^)]*\)\s*->\s*Ordering\s*\{")
    table("below_lower_bound", "(version : ver) (segment : seg)", "bool", b, "let below_lower_bound",
          {"version": "version", "segment": "segment"})
    table("below_upper_bound", "(version : ver) (segment : seg)", "bool", b, "let below_upper_bound",
          {"version": "version", "segment": "segment"})
    flow = re.sub(r"\s+", " ", re.sub(r"match segment \{.*?\};", "MATCH;", b, flags=re.S)).strip()
    want = ("let below_lower_bound = MATCH; if below_lower_bound { return Ordering::Less; } "
            "let below_upper_bound = MATCH; if below_upper_bound { return Ordering::Equal; } Ordering::Greater")
    if flow != want:
        raise ParseError("within_bounds: control flow changed: " + flow)
    defs.append("  Definition gen_within_bounds (version : ver) (segment : seg) : comparison :=\n"
                "    if gen_below_lower_bound version segment then Lt\n"
                "    else if gen_below_upper_bound version segment then Eq else Gt.")
    # union: the accumulator_end table; intersection: the start table
    b = fn_body(rng, r"pub fn union\(&self, other: &Self\)\s*->\s*Self\s*\{")
    table("acc_end", "(a s : bnd)", "bnd", b, "let accumulator_end",
          {"accumulator_.1": "a", "smaller_interval.1": "s"})
    b = fn_body(rng, r"pub fn intersection\(&self, other: &Self\)\s*->\s*Self\s*\{")
    table("inter_start", "(left_start right_start : bnd)", "bnd", b, "let start = match",
          {"left_start": "left_start", "right_start": "right_start"})

    rtext = ("(* GENERATED by tools/translate.py from /repo/src/range.rs — do not edit, never committed *)\n"
             "From Coq Require Import Orders.\nFrom PG Require Import Model.Text Model.Range.\n\n"
             "Module GenRange (V : UsualOrderedTypeFull).\n  Module Import M := RangeM V.\n\n" +
             "\n\n".join(defs) + "\n\nEnd GenRange.\n")
    open(os.path.join(out, "RangeTables.v"), "w").write(rtext)

    # ---- term.rs
    defs.clear()
    tnames = {"self": "t", "other": "u", "v": "v", "other_terms_intersection": "u"}

    def term_fn(name, params, ret, header):
        b = fn_body(trm, header)
        em = Emit(tnames, "vs")
        e = parse_expr(b.strip())
        defs.append("  Definition gen_%s %s : %s :=\n    %s." % (name, params, ret, em.expr(e, {})))

    term_fn("t_negate", "(t : term VS)", "term VS", r"pub\(crate\) fn negate\(&self\)\s*->\s*Self\s*\{")
    term_fn("t_contains", "(t : term VS) (v : Vr)", "bool", r"pub\(crate\) fn contains\(&self, v: &VS::V\)\s*->\s*bool\s*\{")
    term_fn("t_intersection", "(t u : term VS)", "term VS", r"pub\(crate\) fn intersection\(&self, other: &Self\)\s*->\s*Self\s*\{")
    term_fn("t_is_disjoint", "(t u : term VS)", "bool", r"pub\(crate\) fn is_disjoint\(&self, other: &Self\)\s*->\s*bool\s*\{")
    term_fn("t_union", "(t u : term VS)", "term VS", r"pub\(crate\) fn union\(&self, other: &Self\)\s*->\s*Self\s*\{")
    term_fn("t_subset_of", "(t u : term VS)", "bool", r"pub\(crate\) fn subset_of\(&self, other: &Self\)\s*->\s*bool\s*\{")
    # relation_with: control flow checked textually
    b = re.sub(r"\s+", " ", fn_body(trm, r"pub\(crate\) fn relation_with\(&self, other_terms_intersection: &Self\)\s*->\s*Relation\s*\{")).strip()
    want = ("if other_terms_intersection.subset_of(self) { Relation::Satisfied } else if "
            "self.is_disjoint(other_terms_intersection) { Relation::Contradicted } else { Relation::Inconclusive }")
    if b != want:
        raise ParseError("relation_with: control flow changed: " + b)
    defs.append("  Definition gen_t_relation_with (t u : term VS) : relation :=\n"
                "    if gen_t_subset_of u t then Satisfied else if gen_t_is_disjoint t u then Contradicted else Inconclusive.")
    ttext = ("(* GENERATED by tools/translate.py from /repo/src/term.rs — do not edit, never committed *)\n"
             "From Coq Require Import Bool.\nFrom PG Require Import Model.VS Model.Term.\n\n"
             "Section GenTerm.\n  Context {VS Vr : Type} (O : VSOps VS Vr).\n\n" +
             "\n\n".join(defs) + "\n\nEnd GenTerm.\n")
    open(os.path.join(out, "TermTables.v"), "w").write(ttext)

    # ---- version_set.rs: the four provided methods
    defs.clear()
    vnames = {"self": "a", "other": "b"}

    def vs_fn(name, params, ret, header):
        b = fn_body(vst, header)
        em = Emit(vnames, "req")
        e = parse_expr(b.strip().replace("Self::empty()", "empty()"))
        defs.append("  Definition gen_%s %s : %s :=\n    %s." % (name, params, ret, em.expr(e, {})))

    vs_fn("full_default", "", "VS", r"fn full\(\)\s*->\s*Self\s*\{")
    vs_fn("union_default", "(a b : VS)", "VS", r"fn union\(&self, other: &Self\)\s*->\s*Self\s*\{")
    vs_fn("is_disjoint_default", "(a b : VS)", "bool", r"fn is_disjoint\(&self, other: &Self\)\s*->\s*bool\s*\{")
    vs_fn("subset_of_default", "(a b : VS)", "bool", r"fn subset_of\(&self, other: &Self\)\s*->\s*bool\s*\{")
    vtext = ("(* GENERATED by tools/translate.py from /repo/src/version_set.rs — do not edit, never committed *)\n"
             "From PG Require Import Model.VS.\n\n"
             "Section GenVS.\n  Context {VS Vr : Type} (R : VSReq VS Vr).\n\n" +
             "\n\n".join(defs) + "\n\nEnd GenVS.\n")
    open(os.path.join(out, "VSDefaults.v"), "w").write(vtext)
    incompat_ctors(repo, out)
    print("translate: wrote RangeTables.v TermTables.v VSDefaults.v IncompatCtors.v")


if __name__ == "__main__":
    try:
        main()
    except (ParseError, ValueError, KeyError, IndexError) as e:
        print("translate: the source no longer has the expected shape: %s: %s" % (type(e).__name__, e))
        sys.exit(1)
