#!/usr/bin/env python3
"""Translator (DESIGN.md 3.1): regenerates the Gallina text of the comparison tables of src/range.rs,
the sign tables of src/term.rs and the default bodies of src/version_set.rs from the CURRENT source.
The generated definitions (coq/Gen/*.v) are proved equal to the hand-written model in
coq/Proofs/GenEq.v, so an edit of a table entry breaks a proof obligation deterministically.

Usage: translate.py <repo> <outdir>.  Exit status 1 (with a message) if the source no longer has the
restricted shape this reader understands: that is a broken tie, never a silent skip.

Supported Rust subset: `match (e1, e2) { pat => expr, ... }` (also on a single expression), patterns built
from tuple patterns, constructor patterns `C(p)`, `_`, binders, or-patterns (top level and nested) and
`if` guards; expressions built from paths, method calls, field access, `&`/`?`/`!`, comparison operators,
`&&`, `if … { … } else { … }`, nested `match`, blocks, tuples and calls.  Pattern matching is compiled by
enumerating the constructors of the scrutinee components (Bound: 3, Term: 2, Ordering: 3)."""
import re
import sys
import os

# ------------------------------------------------------------------------------ tokenizer
TOK = re.compile(r"\s+|//[^\n]*|(?P<tok>=>|==|<=|>=|&&|\|\||::|\.\.|[A-Za-z_][A-Za-z0-9_]*|\d+|\"[^\"]*\"|.)", re.S)


def tokenize(src):
    out = []
    for m in TOK.finditer(src):
        if m.group("tok") is not None:
            out.append(m.group("tok"))
    return out


class ParseError(Exception):
    pass


class P:
    def __init__(self, toks):
        self.t = toks
        self.i = 0

    def peek(self, k=0):
        return self.t[self.i + k] if self.i + k < len(self.t) else None

    def eat(self, tok=None):
        x = self.peek()
        if x is None or (tok is not None and x != tok):
            raise ParseError("expected %r, got %r at %d: …%s…" % (tok, x, self.i, " ".join(self.t[max(0, self.i - 8):self.i + 8])))
        self.i += 1
        return x

    # ---- patterns
    def pattern(self):
        alts = [self.pattern1()]
        while self.peek() == "|":
            self.eat()
            alts.append(self.pattern1())
        return alts[0] if len(alts) == 1 else ("or", alts)

    def pattern1(self):
        x = self.peek()
        if x == "(":
            self.eat()
            items = []
            while self.peek() != ")":
                items.append(self.pattern())
                if self.peek() == ",":
                    self.eat()
            self.eat(")")
            return ("tuple", items)
        if x == "&":
            self.eat()
            return self.pattern1()
        if x == "_":
            self.eat()
            return ("wild",)
        name = self.path()
        if self.peek() == "(":
            self.eat()
            args = []
            while self.peek() != ")":
                args.append(self.pattern())
                if self.peek() == ",":
                    self.eat()
            self.eat(")")
            return ("ctor", name, args)
        base = name.split("::")[-1]
        if base in CTORS:
            return ("ctor", name, [])
        return ("var", name)

    def path(self):
        x = self.eat()
        if not re.match(r"[A-Za-z_]", x):
            raise ParseError("identifier expected, got %r" % x)
        while self.peek() == "::":
            self.eat()
            if self.peek() == "<":     # turbofish, skipped
                depth = 0
                while True:
                    y = self.eat()
                    if y == "<":
                        depth += 1
                    elif y == ">":
                        depth -= 1
                        if depth == 0:
                            break
                self.eat("::")
            x += "::" + self.eat()
        return x

    # ---- expressions (precedence: && < comparison < unary < postfix)
    def expr(self):
        l = self.cmp()
        while self.peek() == "&&":
            self.eat()
            l = ("and", l, self.cmp())
        return l

    def cmp(self):
        l = self.unary()
        if self.peek() in ("<=", "<", ">", ">=", "=="):
            op = self.eat()
            l = ("cmp", op, l, self.unary())
        return l

    def unary(self):
        if self.peek() == "&":
            self.eat()
            return self.unary()
        if self.peek() == "!":
            self.eat()
            return ("not", self.unary())
        return self.postfix()

    def postfix(self):
        e = self.atom()
        while True:
            x = self.peek()
            if x == ".":
                self.eat()
                name = self.eat()
                if self.peek() == "(":
                    self.eat()
                    args = []
                    while self.peek() != ")":
                        args.append(self.expr())
                        if self.peek() == ",":
                            self.eat()
                    self.eat(")")
                    e = ("method", name, e, args)
                else:
                    e = ("field", name, e)
            elif x == "?":
                self.eat()
            else:
                return e

    def atom(self):
        x = self.peek()
        if x == "(":
            self.eat()
            items = []
            while self.peek() != ")":
                items.append(self.expr())
                if self.peek() == ",":
                    self.eat()
            self.eat(")")
            return items[0] if len(items) == 1 else ("tuple", items)
        if x == "{":
            self.eat()
            e = self.expr()
            self.eat("}")
            return e
        if x == "if":
            self.eat()
            c = self.expr()
            self.eat("{")
            a = self.expr()
            self.eat("}")
            self.eat("else")
            self.eat("{")
            b = self.expr()
            self.eat("}")
            return ("if", c, a, b)
        if x == "match":
            return self.match()
        if x in ("true", "false"):
            self.eat()
            return ("bool", x)
        name = self.path()
        if self.peek() == "(":
            self.eat()
            args = []
            while self.peek() != ")":
                args.append(self.expr())
                if self.peek() == ",":
                    self.eat()
            self.eat(")")
            return ("call", name, args)
        return ("path", name)

    def match(self):
        self.eat("match")
        scrut = self.expr()
        self.eat("{")
        arms = []
        while self.peek() != "}":
            pat = self.pattern()
            guard = None
            if self.peek() == "if":
                self.eat()
                guard = self.expr()
            self.eat("=>")
            body = self.expr()
            if self.peek() == ",":
                self.eat()
            arms.append((pat, guard, body))
        self.eat("}")
        return ("match", scrut, arms)


CTORS = {"Included": "Incl", "Excluded": "Excl", "Unbounded": "Unb", "Positive": "Pos", "Negative": "Neg",
         "Less": "Lt", "Equal": "Eq", "Greater": "Gt"}
FAMILY = {"bound": [("Included", 1), ("Excluded", 1), ("Unbounded", 0)],
          "term": [("Positive", 1), ("Negative", 1)],
          "ordering": [("Less", 0), ("Equal", 0), ("Greater", 0)]}


def family_of_pattern(p):
    """which constructor family does a (component) pattern mention?"""
    k = p[0]
    if k == "ctor":
        b = p[1].split("::")[-1]
        for f, cs in FAMILY.items():
            if b in [c for c, _ in cs]:
                return f
        raise ParseError("unknown constructor " + p[1])
    if k == "or":
        for a in p[1]:
            f = family_of_pattern(a)
            if f:
                return f
    return None


def pmatch(p, val, env):
    """val = (ctor, [payload var]) ; returns list of env extensions (first alternative that matches) or None"""
    k = p[0]
    if k == "wild":
        return env
    if k == "var":
        e = dict(env)
        e[p[1]] = val
        return e
    if k == "or":
        for a in p[1]:
            r = pmatch(a, val, env)
            if r is not None:
                return r
        return None
    if k == "ctor":
        b = p[1].split("::")[-1]
        if val[0] != "ctor" or val[1] != b:
            return None
        e = env
        for sub, payload in zip(p[2], val[2]):
            e = pmatch(sub, ("value", payload), e)
            if e is None:
                return None
        return e
    if k == "tuple":
        if val[0] != "tuple":
            return None
        e = env
        for sub, v in zip(p[1], val[1]):
            e = pmatch(sub, v, e)
            if e is None:
                return None
        return e
    raise ParseError("pattern kind " + k)


class Emit:
    """translation of expressions to Gallina text under a naming environment"""

    def __init__(self, names, ops):
        self.names = names      # rust path / field expression text -> gallina text
        self.ops = ops          # operator family: "version" | "vs" | "req"
        self.fresh = 0

    def val_text(self, v):
        if v[0] == "value":
            return v[1]
        if v[0] == "ctor":
            c = CTORS[v[1]]
            return c if not v[2] else "(%s %s)" % (c, " ".join(v[2]))
        raise ParseError("tuple value used as an expression")

    def key(self, e):
        k = e[0]
        if k == "path":
            return e[1]
        if k == "field":
            return self.key(e[2]) + "." + e[1]
        if k == "method" and e[1] in ("as_ref", "clone", "cloned", "borrow", "start_bound", "end_bound") and not e[3]:
            return self.key(e[2])
        return None

    def expr(self, e, env):
        k = e[0]
        key = self.key(e)
        if key is not None:
            if key in env:
                return self.val_text(env[key])
            if key in self.names:
                return self.names[key]
            b = key.split("::")[-1]
            if b in CTORS:
                return CTORS[b]
            raise ParseError("unbound name %s" % key)
        if k == "bool":
            return e[1]
        if k == "and":
            return "(andb %s %s)" % (self.expr(e[1], env), self.expr(e[2], env))
        if k == "not":
            return "(negb %s)" % self.expr(e[1], env)
        if k == "if":
            return "(if %s then %s else %s)" % (self.expr(e[1], env), self.expr(e[2], env), self.expr(e[3], env))
        if k == "cmp":
            op, a, b = e[1], self.expr(e[2], env), self.expr(e[3], env)
            if self.ops == "version":
                return {"<=": "(vleb %s %s)" % (a, b), "<": "(vltb %s %s)" % (a, b), ">": "(vltb %s %s)" % (b, a),
                        ">=": "(vleb %s %s)" % (b, a), "==": "(veqb %s %s)" % (a, b)}[op]
            if op != "==":
                raise ParseError("only == on version sets")
            return ("(vs_eqb O %s %s)" if self.ops == "vs" else "(rq_eqb R %s %s)") % (a, b)
        if k == "call":
            b = e[1].split("::")[-1]
            args = [self.expr(a, env) for a in e[2]]
            if b in CTORS:
                return "(%s %s)" % (CTORS[b], " ".join(args))
            if e[1] in ("std::cmp::max", "cmp::max", "max"):
                return "(vmax %s %s)" % tuple(args)
            if b == "Some" and len(args) == 1:
                return args[0]
            if b == "empty" and not args:
                return "(vs_empty O)" if self.ops == "vs" else "(rq_empty R)"
            raise ParseError("unknown call " + e[1])
        if k == "method":
            recv = self.expr(e[2], env)
            args = [self.expr(a, env) for a in e[3]]
            if e[1] == "partial_cmp":
                return "(V.compare %s %s)" % (recv, args[0])
            if self.ops in ("vs", "req"):
                pre = "vs_" if self.ops == "vs" else "rq_"
                rec = "O" if self.ops == "vs" else "R"
                if e[1] in ("intersection", "union", "is_disjoint", "subset_of", "contains"):
                    return "(%s%s %s %s %s)" % (pre, e[1], rec, recv, args[0])
                if e[1] == "complement":
                    return "(%scomplement %s %s)" % (pre, rec, recv)
            raise ParseError("unknown method " + e[1])
        if k == "match":
            return self.match(e, env)
        raise ParseError("expression kind " + k)

    def match(self, m, env):
        scrut, arms = m[1], m[2]
        first = arms[0][0]
        first = first[1][0] if first[0] == "or" else first
        pat_arity = len(first[1]) if first[0] == "tuple" else None
        if scrut[0] == "tuple":
            comps, is_tuple = scrut[1], True
            texts = [self.expr(c, env) for c in comps]
        elif pat_arity == 2:
            # a pair-valued expression matched with pair patterns: project the components
            t = self.expr(scrut, env)
            comps, is_tuple = [None, None], True
            texts = ["(fst %s)" % t, "(snd %s)" % t]
        else:
            comps, is_tuple = [scrut], False
            texts = [self.expr(scrut, env)]
        # family of each component from the patterns
        fams = []
        for ci in range(len(comps)):
            fam = None
            for (pat, _, _) in arms:
                for alt in (pat[1] if pat[0] == "or" else [pat]):
                    sub = alt[1][ci] if alt[0] == "tuple" else alt
                    fam = fam or family_of_pattern(sub)
            fams.append(fam)   # None: every pattern ignores this component, no case split

        def build(ci, chosen):
            if ci == len(comps):
                val = ("tuple", chosen) if is_tuple else chosen[0]
                return self.first_arm(arms, val, env)
            if fams[ci] is None:
                return build(ci + 1, chosen + [("value", texts[ci])])
            branches = []
            for (c, arity) in FAMILY[fams[ci]]:
                vars_ = []
                for _ in range(arity):
                    self.fresh += 1
                    vars_.append("x%d" % self.fresh)
                body = build(ci + 1, chosen + [("ctor", c, vars_)])
                branches.append("| %s => %s" % (" ".join([CTORS[c]] + vars_), body))
            return "match %s with %s end" % (texts[ci], " ".join(branches))
        return "(" + build(0, []) + ")"

    def first_arm(self, arms, val, env):
        for idx, (pat, guard, body) in enumerate(arms):
            e = pmatch(pat, val, env)
            if e is None:
                continue
            b = self.expr(body, e)
            if guard is None:
                return b
            return "(if %s then %s else %s)" % (self.expr(guard, e), b, self.first_arm(arms[idx + 1:], val, env))
        raise ParseError("non-exhaustive match")


# ------------------------------------------------------------------------------ source extraction
def fn_body(src, header_re):
    m = re.search(header_re, src)
    if not m:
        raise ParseError("function not found: " + header_re)
    i = src.index("{", m.end() - 1) if src[m.end() - 1] != "{" else m.end() - 1
    depth = 0
    for j in range(i, len(src)):
        if src[j] == "{":
            depth += 1
        elif src[j] == "}":
            depth -= 1
            if depth == 0:
                return src[i + 1:j]
    raise ParseError("unbalanced braces")


def match_at(src, anchor):
    """parse the `match` expression starting at the first 'match' after [anchor]"""
    i = src.index(anchor)
    i = src.index("match", i)
    p = P(tokenize(src[i:]))
    return p.match()


def parse_expr(src):
    p = P(tokenize(src))
    e = p.expr()
    if p.peek() not in (None, ";"):
        raise ParseError("trailing tokens: %r" % p.t[p.i:p.i + 6])
    return e



# ------------------------------------------------------------------------------ incompatibility.rs constructors
class IncParser(P):
    """the external constructors of Incompatibility: `let` statements followed by a `Self { package_terms: E, kind: K }`
    literal; E built from SmallMap::One/Two array literals of (package, term) pairs and if / else-if / else"""
    PKG = {"package", "p1", "p2"}

    def stmts(self):
        lets = []
        while self.peek() == "let":
            self.eat("let")
            if self.peek() == "(":
                self.eat("(")
                a = self.eat(); self.eat(","); b = self.eat(); self.eat(")")
                self.eat("=")
                rhs = self.val()
                self.eat(";")
                lets.append("let '(%s, %s) := %s in" % (a, b, rhs))
            else:
                x = self.eat()
                self.eat("=")
                rhs = self.val()
                self.eat(";")
                lets.append("let %s := %s in" % (x, rhs))
        self.eat("Self")
        self.eat("{")
        fields = {}
        while self.peek() != "}":
            f = self.eat()
            self.eat(":")
            fields[f] = self.val()
            if self.peek() == ",":
                self.eat()
        self.eat("}")
        if self.peek() is not None:
            raise ParseError("trailing tokens after the struct literal")
        if set(fields) != {"package_terms", "kind"}:
            raise ParseError("unexpected fields %s" % sorted(fields))
        return " ".join(lets + ["{| terms := %s; ikind := %s |}" % (fields["package_terms"], fields["kind"])])

    def val(self):
        x = self.peek()
        if x == "if":
            self.eat("if")
            c = self.cond()
            self.eat("{"); a = self.val(); self.eat("}")
            self.eat("else")
            if self.peek() == "if":
                b = self.val()
            else:
                self.eat("{"); b = self.val(); self.eat("}")
            return "(if %s then %s else %s)" % (c, a, b)
        e = self.simple()
        return e

    def cond(self):
        a = self.simple()
        self.eat("==")
        b = self.simple()
        if a in self.PKG or b in self.PKG:
            return "N.eqb %s %s" % (a, b)
        return "vs_eqb O %s %s" % (a, b)

    def args(self, close):
        out = []
        while self.peek() != close:
            out.append(self.val())
            if self.peek() == ",":
                self.eat()
        self.eat(close)
        return out

    def simple(self):
        x = self.peek()
        if x == "&":
            self.eat()
            return self.simple()
        if x == "(":
            self.eat("(")
            items = self.args(")")
            e = items[0] if len(items) == 1 else "(" + ", ".join(items) + ")"
        elif x == "[":
            self.eat("[")
            items = self.args("]")
            e = "[" + "; ".join(items) + "]"
        else:
            name = self.path()
            base = name.split("::")[-1]
            if self.peek() == "(":
                self.eat("(")
                a = self.args(")")
                if name in ("SmallMap::One", "SmallMap::Two"):
                    e = a[0]
                elif base in ("Positive", "Negative"):
                    e = "(%s %s)" % (CTORS[base], a[0])
                elif name == "VS::singleton":
                    e = "(vs_singleton O %s)" % a[0]
                elif name == "VS::empty" and not a:
                    e = "(vs_empty O)"
                elif name.startswith("Kind::"):
                    k = {"NotRoot": "KNotRoot", "NoVersions": "KNoVersions", "FromDependencyOf": "KFromDep", "Custom": "KCustom"}[base]
                    e = "(%s %s)" % (k, " ".join(a))
                else:
                    raise ParseError("unknown call " + name)
            else:
                e = name
        while self.peek() == ".":
            self.eat(".")
            m = self.eat()
            self.eat("(")
            a = self.args(")")
            if m == "clone" and not a:
                pass
            elif m == "intersection" and len(a) == 1:
                e = "(vs_intersection O %s %s)" % (e, a[0])
            elif m == "union" and len(a) == 1:
                e = "(vs_union O %s %s)" % (e, a[0])
            elif m == "complement" and not a:
                e = "(vs_complement O %s)" % e
            else:
                raise ParseError("unknown method " + m)
        return e


def incompat_ctors(repo, out):
    inc = open(os.path.join(repo, "src", "internal", "incompatibility.rs")).read()
    defs = []
    for (name, header, params) in [
            ("not_root", r"pub\(crate\) fn not_root\(package: P, version: VS::V\)\s*->\s*Self\s*\{", "(package : pkg) (version : Vr)"),
            ("custom_version", r"pub\(crate\) fn custom_version\(package: P, version: VS::V, metadata: M\)\s*->\s*Self\s*\{",
             "(package : pkg) (version : Vr) (metadata : N)"),
            ("from_dependency", r"pub\(crate\) fn from_dependency\(package: P, versions: VS, dep: \(P, VS\)\)\s*->\s*Self\s*\{",
             "(package : pkg) (versions : VS) (dep : pkg * VS)")]:
        body = fn_body(inc, header)
        g = IncParser(tokenize(body)).stmts()
        defs.append("  Definition gen_%s %s : @incompat VS Vr :=\n    %s." % (name, params, g))
    text = ("(* GENERATED by tools/translate.py from /repo/src/internal/incompatibility.rs — do not edit, never committed *)\n"
            "From Coq Require Import List NArith.\nFrom PG Require Import Model.VS Model.Term Model.Solver.\nImport ListNotations.\n\n"
            "Section GenIncompat.\n  Context {VS Vr : Type} (O : VSOps VS Vr).\n\n" + "\n\n".join(defs) + "\n\nEnd GenIncompat.\n")
    open(os.path.join(out, "IncompatCtors.v"), "w").write(text)


# ------------------------------------------------------------------------------ incompatibility.rs methods
# no_versions, is_terminal, merge_dependents, prior_cause: the bodies are parsed statement by statement (RParser)
# and translated by a small type-directed emitter (MethEmit) into the panic monad of Model/Solver.v.
# Nothing here compares the function text with a stored copy: the Gallina is derived from the parse tree through
# the fixed tables of MethEmit (method / function / constructor names of the source -> functions of the model).
class RParser(P):
    """statements and expressions of the function bodies: `let [mut] pat = e;`, `return e;`, `if c { … } [else …]`,
    expression statements, macros `name!(…)`, `?`, `e[i]`, closures `|pats| e`, `!=`, array and `Self { … }` literals"""

    def expr(self):
        l = self.cmp()
        while self.peek() == "&&":
            self.eat()
            l = ("and", l, self.cmp())
        if self.peek() == "||":
            raise ParseError("operator || is not supported")
        return l

    def cmp(self):
        l = self.unary()
        op = None
        if self.peek() in ("<=", "<", ">", ">=", "=="):
            op = self.eat()
        elif self.peek() == "!" and self.peek(1) == "=":
            self.eat(); self.eat()
            op = "!="
        if op is not None:
            l = ("cmp", op, l, self.unary())
        return l

    def unary(self):
        if self.peek() == "&":
            self.eat()
            if self.peek() == "mut":
                self.eat()
            return self.unary()
        if self.peek() == "!":
            self.eat()
            return ("not", self.unary())
        return self.postfix()

    def args(self, close):
        out = []
        while self.peek() != close:
            out.append(self.expr())
            if self.peek() == ",":
                self.eat()
            elif self.peek() != close:
                raise ParseError("expected , or %s, got %r" % (close, self.peek()))
        self.eat(close)
        return out

    def postfix(self):
        e = self.atom()
        while True:
            x = self.peek()
            if x == ".":
                self.eat()
                name = self.eat()
                if self.peek() == "(":
                    self.eat()
                    e = ("method", name, e, self.args(")"))
                else:
                    e = ("field", name, e)
            elif x == "?":
                self.eat()
                e = ("try", e)
            elif x == "[":
                self.eat()
                i = self.expr()
                self.eat("]")
                e = ("index", e, i)
            else:
                return e

    def atom(self):
        x = self.peek()
        if x == "(":
            self.eat()
            items = self.args(")")
            return items[0] if len(items) == 1 else ("tuple", items)
        if x == "[":
            self.eat()
            return ("array", self.args("]"))
        if x == "|":
            self.eat()
            pats = []
            while self.peek() != "|":
                pats.append(self.pattern1())
                if self.peek() == ",":
                    self.eat()
            self.eat("|")
            return ("closure", pats, self.expr())
        if x == "if":
            return self.if_()
        if x == "match":
            return self.match()
        if x == "{":
            return self.block()
        if x in ("true", "false"):
            self.eat()
            return ("bool", x)
        if x is not None and re.match(r"\d+$", x):
            self.eat()
            return ("int", x)
        if x in ("let", "return", "for", "while", "loop", "unsafe", "move", "mut"):
            raise ParseError("unsupported construct %r in an expression" % x)
        name = self.path()
        if self.peek() == "!" and self.peek(1) == "(":
            self.eat(); self.eat()
            depth = 1
            while depth:
                y = self.eat()
                depth += (y == "(") - (y == ")")
            return ("macro", name)
        if self.peek() == "(":
            self.eat()
            return ("call", name, self.args(")"))
        if name == "Self" and self.peek() == "{":
            self.eat()
            fields = []
            while self.peek() != "}":
                f = self.eat()
                if self.peek() == ":":
                    self.eat()
                    fields.append((f, self.expr()))
                else:
                    fields.append((f, ("path", f)))
                if self.peek() == ",":
                    self.eat()
            self.eat("}")
            return ("struct", fields)
        return ("path", name)

    def if_(self):
        self.eat("if")
        c = self.expr()
        a = self.block()
        b = None
        if self.peek() == "else":
            self.eat()
            b = self.if_() if self.peek() == "if" else self.block()
        return ("if", c, a, b)

    def letpat(self):
        x = self.peek()
        if x == "(":
            self.eat()
            items = []
            while self.peek() != ")":
                items.append(self.letpat())
                if self.peek() == ",":
                    self.eat()
            self.eat(")")
            return ("tuple", items)
        if x == "_":
            self.eat()
            return ("wild",)
        mut = False
        if x == "mut":
            self.eat()
            mut = True
        n = self.eat()
        if not re.match(r"[A-Za-z_][A-Za-z0-9_]*$", n):
            raise ParseError("unsupported let pattern at %r" % n)
        return ("var", n, mut)

    def block(self):
        self.eat("{")
        stmts, tail = [], None
        while self.peek() != "}":
            if tail is not None:
                raise ParseError("expression without ; in the middle of a block")
            x = self.peek()
            if x == "let":
                self.eat()
                pat = self.letpat()
                if self.peek() == ":":
                    raise ParseError("type annotation on let is not supported")
                self.eat("=")
                rhs = self.expr()
                self.eat(";")
                stmts.append(("let", pat, rhs))
            elif x == "return":
                self.eat()
                e = self.expr()
                self.eat(";")
                stmts.append(("return", e))
            elif x == "if":
                e = self.if_()
                if self.peek() == ";":
                    self.eat()
                    stmts.append(("if", e))
                elif self.peek() == "}" and e[3] is not None:
                    tail = e
                else:
                    stmts.append(("if", e))
            else:
                e = self.expr()
                if self.peek() == ";":
                    self.eat()
                    stmts.append(("macro", e[1]) if e[0] == "macro" else ("expr", e))
                else:
                    tail = e
        self.eat("}")
        return ("block", stmts, tail)

    def signature(self, name):
        """`fn name ( params ) -> Ret` up to (not including) the `{` of the body"""
        self.eat("fn")
        self.eat(name)
        if self.peek() == "<":
            raise ParseError("generic parameters on %s are not supported" % name)
        self.eat("(")
        params = []
        while self.peek() != ")":
            if self.peek() == "&" and self.peek(1) == "self":
                self.eat(); self.eat()
                params.append(("self", "Self"))
            else:
                n = self.eat()
                self.eat(":")
                params.append((n, self.rtype((",", ")"))))
            if self.peek() == ",":
                self.eat()
        self.eat(")")
        self.eat("-"); self.eat(">")
        ret = self.rtype(("{",))
        return params, ret

    def rtype(self, stops):
        depth, out = 0, []
        while True:
            x = self.peek()
            if x is None:
                raise ParseError("unterminated type")
            if depth == 0 and x in stops:
                break
            if x in ("<", "("):
                depth += 1
            elif x in (">", ")"):
                depth -= 1
            self.eat()
            if x not in ("&", "mut"):
                out.append(x)
        return "".join(out)


RTYPES = {"P": "pkg", "VS": "vs", "VS::V": "ver", "Term<VS>": "term", "Self": "incompat", "Id<Self>": "id",
          "Arena<Self>": "store", "bool": "bool", "Option<Self>": ("opt", "incompat")}
# identifiers of the source that would capture a name of the model once bound in Gallina
RESERVED = {"term", "set", "get", "remove", "kind", "incompat", "terms", "ikind", "bind", "req", "filter", "length",
            "hd_error", "fst", "snd", "option_map", "pkg", "res", "end", "in", "at", "as", "fun", "O", "VS", "Vr"}
KINDS = {"NotRoot": ("KNotRoot", ["pkg", "ver"]), "NoVersions": ("KNoVersions", ["pkg", "vs"]),
         "FromDependencyOf": ("KFromDep", ["pkg", "vs", "pkg", "vs"]), "DerivedFrom": ("KDerived", ["id", "id"])}
# functions / constructors: rust path -> (gallina head, argument types, result type)
CALLS = {"Self::from_dependency": ("from_dependency O", ["pkg", "vs", ("pair", "pkg", "vs")], "incompat"),
         "VS::empty": ("vs_empty O", [], "vs"), "VS::singleton": ("vs_singleton O", ["ver"], "vs"),
         "Term::any": ("t_any O", [], "term"), "Term::Positive": ("Pos", ["vs"], "term"), "Term::Negative": ("Neg", ["vs"], "term")}
# pure methods: (receiver type, name) -> (gallina head, argument types, result type); the receiver is the FIRST gallina argument
PURE = {("term", "union"): ("t_union O", ["term"], "term"), ("term", "intersection"): ("t_intersection O", ["term"], "term"),
        ("term", "contains"): ("t_contains O", ["ver"], "bool"),
        ("vs", "union"): ("vs_union O", ["vs"], "vs"), ("vs", "intersection"): ("vs_intersection O", ["vs"], "vs"),
        ("vs", "complement"): ("vs_complement O", [], "vs"),
        ("incompat", "as_dependency"): ("as_dependency", [], ("opt", ("pair", "pkg", "pkg")))}
# panicking conversions: (receiver type, name) -> (gallina function into res, result type, rank in the canonical order)
PANICKING = {("term", "unwrap_positive"): ("unwrap_positive", "vs", 1), ("term", "unwrap_negative"): ("unwrap_negative", "vs", 1)}
# panic site of `.unwrap()` by the method that produced the option
UNWRAP_SITE = {"split_one": "PSplitOne"}
MAP = ("list", ("pair", "pkg", "term"))
MERGE_CLOSURE = "(Some (t_intersection O a_ b_))"     # the function hard-wired in Model.Solver.merge_terms


def gtype(t):
    if isinstance(t, tuple):
        if t[0] == "opt":
            return "option (%s)" % gtype(t[1])
        if t[0] == "pair":
            return "%s * %s" % (gtype(t[1]), gtype(t[2]))
        if t[0] == "list":
            return "list (%s)" % gtype(t[1])
    return {"pkg": "pkg", "vs": "VS", "ver": "Vr", "term": "term VS", "incompat": "@incompat VS Vr", "id": "nat", "nat": "nat",
            "bool": "bool"}[t]


def unify(a, b, what):
    """types equal up to the unknown payload (None) of a literal `None`"""
    if a is None or b is None:
        return b if a is None else a
    if isinstance(a, tuple) and isinstance(b, tuple) and a[0] == b[0] and len(a) == len(b):
        return (a[0],) + tuple(unify(x, y, what) for x, y in zip(a[1:], b[1:]))
    if a != b:
        raise ParseError("type mismatch in %s: %s vs %s" % (what, a, b))
    return a


class MethEmit:
    def __init__(self, fname, mode, ret, source_order=False):
        self.fname, self.mode, self.rty = fname, mode, ret
        self.source_order = source_order
        self.pending = []
        self.nfresh = 0
        self.seq = 0

    # ---- monad
    def good(self, t):
        return ("Good %s" if self.mode == "res" else "Some %s") % t

    def fresh(self):
        self.nfresh += 1
        return "x%d" % self.nfresh

    def push(self, kind, rank, text):
        if self.mode != "res":
            raise ParseError("%s: a panicking operation / `?` in a function translated without the res monad" % self.fname)
        v = self.fresh()
        self.seq += 1
        self.pending.append({"kind": kind, "rank": rank, "seq": self.seq, "var": v, "text": text})
        return v

    def collect(self, fn):
        old, self.pending = self.pending, []
        try:
            r = fn()
            b = self.pending
        finally:
            self.pending = old
        return r, b

    def pure(self, fn, what):
        r, b = self.collect(fn)
        if b:
            raise ParseError("%s: a panicking operation or `?` inside %s is not supported" % (self.fname, what))
        return r

    def wrap(self, binds, body):
        """the panicking operations of ONE statement, bound in the canonical order (rank of the operation, then source
        order); with source_order: exactly the evaluation order of Rust"""
        if not self.source_order:
            binds = sorted(binds, key=lambda b: (b["rank"], b["seq"]))
        seen = set()
        mine = {b["var"] for b in binds}
        for b in binds:
            for v in re.findall(r"\bx\d+\b", b["text"]):
                if v in mine and v not in seen:
                    raise ParseError("%s: canonical order of the panicking operations breaks a data dependency" % self.fname)
            seen.add(b["var"])
        for b in reversed(binds):
            if b["kind"] == "bind":
                if body == self.good(b["var"]):
                    body = b["text"]            # monad law: bind m Good = m
                else:
                    body = "bind (%s) (fun %s => %s)" % (b["text"], b["var"], body)
            else:
                body = "match %s with Some %s => %s | None => Good None end" % (b["text"], b["var"], body)
        return body

    # ---- names
    def declare(self, env, name, ty, mut=False, g=None):
        if re.match(r"x\d+$", name):
            raise ParseError("identifier %s clashes with the fresh names of the translator" % name)
        e = dict(env)
        e[name] = {"g": g or (name + "_" if name in RESERVED else name), "ty": ty, "mut": mut}
        return e

    def bind_pat(self, pat, ty, env):
        k = pat[0]
        if k == "wild":
            return env, "_"
        if k == "var":
            mut = pat[2] if len(pat) > 2 else False
            env = self.declare(env, pat[1], ty, mut)
            return env, env[pat[1]]["g"]
        if k == "tuple":
            if not (isinstance(ty, tuple) and ty[0] == "pair" and len(pat[1]) == 2):
                raise ParseError("%s: tuple pattern against type %s" % (self.fname, ty))
            env, a = self.bind_pat(pat[1][0], ty[1], env)
            env, b = self.bind_pat(pat[1][1], ty[2], env)
            return env, "'(%s, %s)" % (a, b)
        raise ParseError("unsupported binding pattern %s" % (pat,))

    # ---- expressions: (gallina text, type); panicking operations are pushed on self.pending
    def eqb(self, a, b, ty):
        if ty == "pkg":
            return "(N.eqb %s %s)" % (a, b)
        if ty in ("nat", "id"):
            return "(Nat.eqb %s %s)" % (a, b)
        if ty == "term":
            return "(t_eqb O %s %s)" % (a, b)
        if ty == "vs":
            return "(vs_eqb O %s %s)" % (a, b)
        if ty == ("opt", "term"):
            return "(opt_term_eqb O %s %s)" % (a, b)
        if isinstance(ty, tuple) and ty[0] == "pair":
            return "(andb %s %s)" % (self.eqb("(fst %s)" % a, "(fst %s)" % b, ty[1]), self.eqb("(snd %s)" % a, "(snd %s)" % b, ty[2]))
        raise ParseError("%s: no equality test for type %s" % (self.fname, ty))

    def closure(self, c, tys, env, renames=None):
        if c[0] != "closure" or len(c[1]) != len(tys):
            raise ParseError("%s: closure with %d parameter(s) expected" % (self.fname, len(tys)))
        pats = []
        for i, (p, ty) in enumerate(zip(c[1], tys)):
            if renames and p[0] == "var":
                env = self.declare(env, p[1], ty, g=renames[i])
                pats.append(renames[i])
            else:
                env, t = self.bind_pat(p if p[0] != "var" else ("var", p[1], False), ty, env)
                pats.append(t)
        return pats, c[2], env

    def ex(self, e, env):
        k = e[0]
        if k == "path":
            n = e[1]
            if n in env:
                return env[n]["g"], env[n]["ty"]
            if n == "None":
                return "None", ("opt", None)
            raise ParseError("%s: unbound name %s" % (self.fname, n))
        if k == "int":
            return e[1], "nat"
        if k == "bool":
            return e[1], "bool"
        if k == "tuple":
            if len(e[1]) != 2:
                raise ParseError("only pairs are supported")
            (a, ta), (b, tb) = self.ex(e[1][0], env), self.ex(e[1][1], env)
            return "(%s, %s)" % (a, b), ("pair", ta, tb)
        if k == "array":
            items = [self.ex(x, env) for x in e[1]]
            ty = None
            for _, t in items:
                ty = unify(ty, t, "array literal")
            return "[" + "; ".join(t for t, _ in items) + "]", ("list", ty)
        if k == "and":
            a, ta = self.ex(e[1], env)
            b, tb = self.pure(lambda: self.ex(e[2], env), "the right operand of &&")
            unify(ta, "bool", "&&"); unify(tb, "bool", "&&")
            return "(andb %s %s)" % (a, b), "bool"
        if k == "not":
            a, ta = self.ex(e[1], env)
            unify(ta, "bool", "!")
            return "(negb %s)" % a, "bool"
        if k == "cmp":
            op = e[1]
            (a, ta), (b, tb) = self.ex(e[2], env), self.ex(e[3], env)
            ty = unify(ta, tb, "comparison " + op)
            if op == "==":
                return self.eqb(a, b, ty), "bool"
            if op == "!=":
                return "(negb %s)" % self.eqb(a, b, ty), "bool"
            if ty != "nat":
                raise ParseError("%s: ordering comparison on type %s" % (self.fname, ty))
            return {"<": "(Nat.ltb %s %s)" % (a, b), ">": "(Nat.ltb %s %s)" % (b, a),
                    "<=": "(Nat.leb %s %s)" % (a, b), ">=": "(Nat.leb %s %s)" % (b, a)}[op], "bool"
        if k == "index":
            a, ta = self.ex(e[1], env)
            i, ti = self.ex(e[2], env)
            if ta != "store" or ti != "id" or e[2][0] != "path":
                raise ParseError("%s: only store[id parameter] is supported as an index expression" % self.fname)
            return None, ("stored", e[2][1])
        if k == "field":
            a, ta = self.ex(e[2], env)
            if e[1] != "package_terms":
                raise ParseError("%s: field .%s is not modelled" % (self.fname, e[1]))
            if ta == "incompat":
                return "(terms %s)" % a, MAP
            if isinstance(ta, tuple) and ta[0] == "stored":
                return env["#terms_of_" + ta[1]]["g"], MAP      # the arena is abstracted by the term maps of the two ids
            raise ParseError("%s: .package_terms of type %s" % (self.fname, ta))
        if k == "try":
            a, ta = self.ex(e[1], env)
            if not (isinstance(ta, tuple) and ta[0] == "opt"):
                raise ParseError("%s: `?` on type %s" % (self.fname, ta))
            if not (isinstance(self.rty, tuple) and self.rty[0] == "opt"):
                raise ParseError("%s: `?` in a function that does not return an Option" % self.fname)
            return self.push("try", 0, a), ta[1]
        if k == "struct":
            f = dict(e[1])
            if sorted(f) != ["kind", "package_terms"] or len(e[1]) != 2:
                raise ParseError("%s: unexpected fields %s" % (self.fname, [x for x, _ in e[1]]))
            (a, ta), (b, tb) = self.ex(f["package_terms"], env), self.ex(f["kind"], env)
            unify(ta, MAP, "package_terms"); unify(tb, "kind", "kind")
            return "{| terms := %s; ikind := %s |}" % (a, b), "incompat"
        if k == "call":
            return self.call(e, env)
        if k == "method":
            return self.method(e, env)
        raise ParseError("%s: %s is not supported in expression position" % (self.fname, k))

    def call(self, e, env):
        name = e[1]
        if name == "Some":
            if len(e[2]) != 1:
                raise ParseError("Some with %d arguments" % len(e[2]))
            a, ta = self.ex(e[2][0], env)
            return "(Some %s)" % a, ("opt", ta)
        args = [self.ex(a, env) for a in e[2]]
        if name in ("SmallMap::One", "SmallMap::Two"):
            n = 1 if name.endswith("One") else 2
            if len(args) != 1 or e[2][0][0] != "array" or len(e[2][0][1]) != n:
                raise ParseError("%s needs an array literal of %d entr%s" % (name, n, "y" if n == 1 else "ies"))
            unify(args[0][1], MAP, name)
            return args[0][0], MAP
        if name.startswith("Kind::"):
            if name[6:] not in KINDS:
                raise ParseError("unknown kind " + name)
            head, tys, res = KINDS[name[6:]] + ("kind",)
        elif name in CALLS:
            head, tys, res = CALLS[name]
        else:
            raise ParseError("%s: unknown function %s" % (self.fname, name))
        if len(args) != len(tys):
            raise ParseError("%s: %s with %d arguments" % (self.fname, name, len(args)))
        for (_, t), want in zip(args, tys):
            unify(t, want, "argument of " + name)
        return "(" + " ".join([head] + [a for a, _ in args]) + ")", res

    def method(self, e, env):
        name, recv_e, arg_es = e[1], e[2], e[3]
        recv, rt = self.ex(recv_e, env)
        if name in ("clone", "cloned") and not arg_es:
            return recv, rt
        if (rt, name) in PURE:
            head, tys, res = PURE[(rt, name)]
            args = [self.ex(a, env) for a in arg_es]
            if len(args) != len(tys):
                raise ParseError("%s: .%s with %d arguments" % (self.fname, name, len(args)))
            for (_, t), want in zip(args, tys):
                unify(t, want, "argument of ." + name)
            return "(" + " ".join([head, recv] + [a for a, _ in args]) + ")", res
        if (rt, name) in PANICKING and not arg_es:
            fn, res, rank = PANICKING[(rt, name)]
            return self.push("bind", rank, "%s %s" % (fn, recv)), res
        is_opt = isinstance(rt, tuple) and rt[0] == "opt"
        if is_opt and name == "unwrap" and not arg_es:
            origin = recv_e[1] if recv_e[0] == "method" else None
            return self.push("bind", 0, "req %s %s" % (recv, UNWRAP_SITE.get(origin, "PGetUnwrap"))), rt[1]
        if is_opt and name == "map_or" and len(arg_es) == 2:
            d, td = self.pure(lambda: self.ex(arg_es[0], env), "the default of map_or")
            pats, body, cenv = self.closure(arg_es[1], [rt[1]], env)
            (b, tb), inner = self.collect(lambda: self.ex(body, cenv))
            ty = unify(td, tb, "map_or")
            if not inner:
                return "(match %s with Some %s => %s | None => %s end)" % (recv, pats[0], b, d), ty
            m = "match %s with Some %s => %s | None => %s end" % (recv, pats[0], self.wrap(inner, self.good(b)), self.good(d))
            return self.push("bind", 2, m), ty
        if rt == "incompat" and name == "get" and len(arg_es) == 1:
            a, ta = self.ex(arg_es[0], env)
            unify(ta, "pkg", "argument of get")
            return "(get %s (terms %s))" % (a, recv), ("opt", "term")
        if rt == MAP:
            if name == "get" and len(arg_es) == 1:
                a, ta = self.ex(arg_es[0], env)
                unify(ta, "pkg", "argument of get")
                return "(get %s %s)" % (a, recv), ("opt", "term")
            if name == "len" and not arg_es:
                return "(length %s)" % recv, "nat"
            if name == "iter" and not arg_es:
                return recv, ("iter", MAP[1])
            if name == "split_one" and len(arg_es) == 1:
                a, ta = self.ex(arg_es[0], env)
                unify(ta, "pkg", "argument of split_one")
                return "(option_map (fun t0_ => (t0_, remove %s %s)) (get %s %s))" % (a, recv, a, recv), ("opt", ("pair", "term", MAP))
        if isinstance(rt, tuple) and rt[0] == "iter":
            if name == "next" and not arg_es:
                return "(hd_error %s)" % recv, ("opt", rt[1])
            if name == "filter" and len(arg_es) == 1:
                pats, body, cenv = self.closure(arg_es[0], [rt[1]], env)
                b, tb = self.pure(lambda: self.ex(body, cenv), "a filter closure")
                unify(tb, "bool", "filter closure")
                return "(filter (fun %s => %s) %s)" % (pats[0], b, recv), rt
        raise ParseError("%s: unknown method .%s on type %s" % (self.fname, name, rt))

    # ---- statements that update a `mut` local: translated as a re-binding of the local
    def mutation(self, e, env):
        if not (e[0] == "method" and e[2][0] == "path" and e[2][1] in env and env[e[2][1]]["mut"]):
            raise ParseError("%s: expression statement that is not a method call on a `mut` local" % self.fname)
        var, name, arg_es = e[2][1], e[1], e[3]
        g, ty = env[var]["g"], env[var]["ty"]
        if ty == MAP and name == "insert" and len(arg_es) == 2:
            (a, ta), (b, tb) = self.ex(arg_es[0], env), self.ex(arg_es[1], env)
            unify(ta, "pkg", "insert"); unify(tb, "term", "insert")
            return var, "(set %s %s %s)" % (a, b, g)
        if ty == MAP and name == "merge" and len(arg_es) == 2:
            it, ti = self.ex(arg_es[0], env)
            unify(ti, ("iter", MAP[1]), "first argument of merge")
            pats, body, cenv = self.closure(arg_es[1], ["term", "term"], env, renames=["a_", "b_"])
            b, tb = self.pure(lambda: self.ex(body, cenv), "the merge closure")
            if b != MERGE_CLOSURE:
                raise ParseError("%s: the closure given to merge is %s but Model.Solver.merge_terms hard-wires %s"
                                 % (self.fname, b, MERGE_CLOSURE))
            return var, "(merge_terms O %s %s)" % (g, it)
        raise ParseError("%s: unknown mutating method .%s on type %s" % (self.fname, name, ty))

    # ---- blocks
    def ret(self, e, env):
        (t, ty), binds = self.collect(lambda: self.ex(e, env))
        unify(ty, self.rty, "returned value")
        return self.wrap(binds, self.good(t))

    def tail(self, e, env):
        if e[0] == "if":
            if e[3] is None:
                raise ParseError("%s: if without else as a value" % self.fname)
            (c, tc), binds = self.collect(lambda: self.ex(e[1], env))
            unify(tc, "bool", "if condition")
            a = self.block(e[2][1], e[2][2], env)
            b = self.tail(e[3], env) if e[3][0] == "if" else self.block(e[3][1], e[3][2], env)
            return self.wrap(binds, "if %s then %s else %s" % (c, a, b))
        if e[0] in ("match", "block", "macro"):
            raise ParseError("%s: %s as the value of a block is not supported" % (self.fname, e[0]))
        return self.ret(e, env)

    def block(self, stmts, tail, env):
        if not stmts:
            if tail is None:
                raise ParseError("%s: block without a value" % self.fname)
            return self.tail(tail, env)
        s, rest = stmts[0], stmts[1:]
        k = s[0]
        if k == "macro":
            if s[1] != "debug_assert":
                raise ParseError("%s: macro statement %s!" % (self.fname, s[1]))
            return self.block(rest, tail, env)
        if k == "return":
            if rest or tail is not None:
                raise ParseError("%s: code after return" % self.fname)
            return self.ret(s[1], env)
        if k == "let":
            pat, rhs = s[1], s[2]
            if rhs[0] == "match":
                return self.let_match(pat, rhs, rest, tail, env)
            (t, ty), binds = self.collect(lambda: self.ex(rhs, env))
            env2, lhs = self.bind_pat(pat, ty, env)
            return self.wrap(binds, "let %s := %s in %s" % (lhs, t, self.block(rest, tail, env2)))
        if k == "if":
            c_e, blk, els = s[1][1], s[1][2], s[1][3]
            if els is not None:
                raise ParseError("%s: if/else as a statement is not supported" % self.fname)
            (c, tc), binds = self.collect(lambda: self.ex(c_e, env))
            unify(tc, "bool", "if condition")
            bst, btail = blk[1], blk[2]
            if len(bst) == 1 and bst[0][0] == "return" and btail is None:
                r = self.block(bst, None, env)
                return self.wrap(binds, "if %s then %s else %s" % (c, r, self.block(rest, tail, env)))
            if btail is None and bst and all(x[0] == "expr" for x in bst):
                cur, var, new = env, None, None
                for x in bst:
                    v, new1 = self.pure(lambda: self.mutation(x[1], cur), "a conditional update")
                    if var not in (None, v):
                        raise ParseError("%s: a conditional block updating two variables" % self.fname)
                    var = v
                    new = new1 if new is None else "(let %s := %s in %s)" % (env[var]["g"], new, new1)
                g = env[var]["g"]
                return self.wrap(binds, "let %s := if %s then %s else %s in %s" % (g, c, new, g, self.block(rest, tail, env)))
            raise ParseError("%s: unsupported body of an if statement" % self.fname)
        if k == "expr":
            (var, new), binds = self.collect(lambda: self.mutation(s[1], env))
            return self.wrap(binds, "let %s := %s in %s" % (env[var]["g"], new, self.block(rest, tail, env)))
        raise ParseError("%s: statement kind %s" % (self.fname, k))

    def let_match(self, pat, m, rest, tail, env):
        """`let x = match s { pat => e, pat => panic!(..) };`: the continuation goes into the arms that produce a value"""
        (s, ts), binds = self.collect(lambda: self.ex(m[1], env))
        if ts != "term":
            raise ParseError("%s: match on type %s" % (self.fname, ts))
        arms, seen = [], []
        for (p, guard, body) in m[2]:
            if guard is not None or p[0] != "ctor" or p[1] not in ("Term::Positive", "Term::Negative") or len(p[2]) != 1:
                raise ParseError("%s: unsupported match arm %s" % (self.fname, (p,)))
            seen.append(p[1])
            sub = p[2][0]
            aenv, b = env, "_"
            if sub[0] == "var":
                aenv, b = self.bind_pat(("var", sub[1], False), "vs", env)
            elif sub[0] != "wild":
                raise ParseError("%s: nested pattern in a match arm" % self.fname)
            if body[0] == "macro":
                if body[1] != "panic":
                    raise ParseError("%s: macro %s! in a match arm" % (self.fname, body[1]))
                rhs = "None" if self.mode == "opt" else "Panic PNoVersionsNegative"
            else:
                (t, ty), ab = self.collect(lambda: self.ex(body, aenv))
                env2, lhs = self.bind_pat(pat, ty, aenv)
                rhs = self.wrap(ab, "let %s := %s in %s" % (lhs, t, self.block(rest, tail, env2)))
            arms.append("| %s %s => %s" % (CTORS[p[1].split("::")[-1]], b, rhs))
        if sorted(seen) != ["Term::Negative", "Term::Positive"]:
            raise ParseError("%s: match on a term must have exactly the arms Positive and Negative" % self.fname)
        return self.wrap(binds, "match %s with %s end" % (s, " ".join(arms)))


def translate_method(src, name, mode, source_order=False, suffix=""):
    m = re.search(r"\bfn\s+%s\b" % name, src)
    if not m:
        raise ParseError("function not found: " + name)
    p = RParser(tokenize(src[m.start():]))
    params, ret = p.signature(name)
    body = p.block()
    for (_, t) in params:
        if t not in RTYPES:
            raise ParseError("%s: parameter type %s is not modelled" % (name, t))
    if ret not in RTYPES:
        raise ParseError("%s: return type %s is not modelled" % (name, ret))
    em = MethEmit(name, mode, RTYPES[ret], source_order)
    env, gparams = {}, []
    ids = [n for (n, t) in params if RTYPES[t] == "id"]
    for (n, t) in params:
        ty = RTYPES[t]
        if ty == "store":
            env = em.declare(env, n, ty)
            continue
        env = em.declare(env, n, ty)
        gparams.append("(%s : %s)" % (env[n]["g"], gtype(ty)))
        if ty == "id" and n == ids[-1] and any(RTYPES[t2] == "store" for (_, t2) in params):
            # the arena parameter is replaced by the term maps stored at the id parameters, placed right after them
            for i in ids:
                env["#terms_of_" + i] = {"g": "terms_of_" + i, "ty": MAP, "mut": False}
                gparams.append("(terms_of_%s : %s)" % (i, gtype(MAP)))
    text = em.block(body[1], body[2], env)
    rty = ("option (%s)" if mode == "opt" else "res (%s)") % gtype(RTYPES[ret])
    return params, " ".join(gparams), rty, text, env


def incompat_methods(repo, out):
    inc = open(os.path.join(repo, "src", "internal", "incompatibility.rs")).read()
    inc = inc.split("// TESTS #####")[0]
    defs = []
    # no_versions: the only panic is the `panic!` arm, the model uses option (None = panic)
    _, gp, rty, text, _ = translate_method(inc, "no_versions", "opt")
    defs.append("  Definition gen_no_versions %s : %s :=\n    %s." % (gp, rty, text))
    # is_terminal: translated in the panic monad (the source has an unwrap), then projected to bool; GenEqSolver.v proves
    # that the monadic version is always [Good]
    _, gp, rty, text, env = translate_method(inc, "is_terminal", "res")
    defs.append("  Definition gen_is_terminal_res %s : %s :=\n    %s." % (gp, rty, text))
    names = " ".join(re.findall(r"\((\w+) :", gp))
    defs.append("  Definition gen_is_terminal %s : bool :=\n    match gen_is_terminal_res %s with Good b => b | Panic _ => false end." % (gp, names))
    _, gp, rty, text, _ = translate_method(inc, "merge_dependents", "res")
    defs.append("  Definition gen_merge_dependents %s : %s :=\n    %s." % (gp, rty, text))
    # the same with the panicking operations bound exactly in the evaluation order of Rust (differs only in WHICH panic
    # site is reported when two of them fail)
    _, gp, rty, text, _ = translate_method(inc, "merge_dependents", "res", source_order=True)
    defs.append("  Definition gen_merge_dependents_src %s : %s :=\n    %s." % (gp, rty, text))
    _, gp, rty, text, _ = translate_method(inc, "prior_cause", "res")
    defs.append("  Definition gen_prior_cause %s : %s :=\n    %s." % (gp, rty, text))
    text = ("(* GENERATED by tools/translate.py from /repo/src/internal/incompatibility.rs — do not edit, never committed *)\n"
            "From Coq Require Import List NArith Bool.\nFrom PG Require Import Model.VS Model.Term Model.Solver.\nImport ListNotations.\n\n"
            "Section GenIncompatMethods.\n  Context {VS Vr : Type} (O : VSOps VS Vr).\n\n" + "\n\n".join(defs) + "\n\nEnd GenIncompatMethods.\n")
    open(os.path.join(out, "IncompatMethods.v"), "w").write(text)


def main():
    repo, out = sys.argv[1], sys.argv[2]
    os.makedirs(out, exist_ok=True)
    rng = open(os.path.join(repo, "src", "range.rs")).read()
    trm = open(os.path.join(repo, "src", "term.rs")).read()
    vst = open(os.path.join(repo, "src", "version_set.rs")).read()
    # only the code before the tests
    rng = rng.split("// TESTS #####")[0]
    trm = trm.split("// TESTS #####")[0]
    defs = []

    def table(name, params, ret, src_text, anchor, names, ops="version"):
        em = Emit(names, ops)
        m = match_at(src_text, anchor)
        defs.append("  Definition gen_%s %s : %s :=\n    %s." % (name, params, ret, em.match(m, {})))

    # ---- range.rs
    b = fn_body(rng, r"fn valid_segment<[^>]*>\([^)]*\)\s*->\s*bool\s*\{")
    table("valid_segment", "(start end_ : bnd)", "bool", b, "match", {"start": "start", "end": "end_"})
    b = fn_body(rng, r"fn end_before_start_with_gap<[^>]*>\([^)]*\)\s*->\s*bool\s*\{")
    table("end_before_start_with_gap", "(end_ start : bnd)", "bool", b, "match", {"start": "start", "end": "end_"})
    b = fn_body(rng, r"fn left_start_is_smaller<[^>]*>\([^)]*\)\s*->\s*bool\s*\{")
    table("left_start_is_smaller", "(left right : bnd)", "bool", b, "match", {"left": "left", "right": "right"})
    b = fn_body(rng, r"fn left_end_is_smaller<[^>]*>\([^)]*\)\s*->\s*bool\s*\{")
    table("left_end_is_smaller", "(left right : bnd)", "bool", b, "match", {"left": "left", "right": "right"})
    b = fn_body(rng, r"fn cmp_bounds_start<[^>]*>\([^)]*\)\s*->\s*Option<Ordering>\s*\{")
    table("cmp_bounds_start", "(left right : bnd)", "comparison", b, "Some(match", {"left": "left", "right": "right"})
    b = fn_body(rng, r"fn cmp_bounds_end<[^>]*>\([^)]*\)\s*->\s*Option<Ordering>\s*\{")
    table("cmp_bounds_end", "(left right : bnd)", "comparison", b, "Some(match", {"left": "left", "right": "right"})
    # within_bounds: the two boolean tables and the control flow around them
    b = fn_body(rng, r"fn within_bounds<[^>]*>\([^)]*\)\s*->\s*Ordering\s*\{")
    table("below_lower_bound", "(version : ver) (segment : seg)", "bool", b, "let below_lower_bound",
          {"version": "version", "segment": "segment"})
    table("below_upper_bound", "(version : ver) (segment : seg)", "bool", b, "let below_upper_bound",
          {"version": "version", "segment": "segment"})
    flow = re.sub(r"\s+", " ", re.sub(r"match segment \{.*?\};", "MATCH;", b, flags=re.S)).strip()
    want = ("let below_lower_bound = MATCH; if below_lower_bound { return Ordering::Less; } "
            "let below_upper_bound = MATCH; if below_upper_bound { return Ordering::Equal; } Ordering::Greater")
    if flow != want:
        raise ParseError("within_bounds: control flow changed: " + flow)
    defs.append("  Definition gen_within_bounds (version : ver) (segment : seg) : comparison :=\n"
                "    if gen_below_lower_bound version segment then Lt\n"
                "    else if gen_below_upper_bound version segment then Eq else Gt.")
    # union: the accumulator_end table; intersection: the start table
    b = fn_body(rng, r"pub fn union\(&self, other: &Self\)\s*->\s*Self\s*\{")
    table("acc_end", "(a s : bnd)", "bnd", b, "let accumulator_end",
          {"accumulator_.1": "a", "smaller_interval.1": "s"})
    b = fn_body(rng, r"pub fn intersection\(&self, other: &Self\)\s*->\s*Self\s*\{")
    table("inter_start", "(left_start right_start : bnd)", "bnd", b, "let start = match",
          {"left_start": "left_start", "right_start": "right_start"})

    rtext = ("(* GENERATED by tools/translate.py from /repo/src/range.rs — do not edit, never committed *)\n"
             "From Coq Require Import Orders.\nFrom PG Require Import Model.Text Model.Range.\n\n"
             "Module GenRange (V : UsualOrderedTypeFull).\n  Module Import M := RangeM V.\n\n" +
             "\n\n".join(defs) + "\n\nEnd GenRange.\n")
    open(os.path.join(out, "RangeTables.v"), "w").write(rtext)

    # ---- term.rs
    defs.clear()
    tnames = {"self": "t", "other": "u", "v": "v", "other_terms_intersection": "u"}

    def term_fn(name, params, ret, header):
        b = fn_body(trm, header)
        em = Emit(tnames, "vs")
        e = parse_expr(b.strip())
        defs.append("  Definition gen_%s %s : %s :=\n    %s." % (name, params, ret, em.expr(e, {})))

    term_fn("t_negate", "(t : term VS)", "term VS", r"pub\(crate\) fn negate\(&self\)\s*->\s*Self\s*\{")
    term_fn("t_contains", "(t : term VS) (v : Vr)", "bool", r"pub\(crate\) fn contains\(&self, v: &VS::V\)\s*->\s*bool\s*\{")
    term_fn("t_intersection", "(t u : term VS)", "term VS", r"pub\(crate\) fn intersection\(&self, other: &Self\)\s*->\s*Self\s*\{")
    term_fn("t_is_disjoint", "(t u : term VS)", "bool", r"pub\(crate\) fn is_disjoint\(&self, other: &Self\)\s*->\s*bool\s*\{")
    term_fn("t_union", "(t u : term VS)", "term VS", r"pub\(crate\) fn union\(&self, other: &Self\)\s*->\s*Self\s*\{")
    term_fn("t_subset_of", "(t u : term VS)", "bool", r"pub\(crate\) fn subset_of\(&self, other: &Self\)\s*->\s*bool\s*\{")
    # relation_with: control flow checked textually
    b = re.sub(r"\s+", " ", fn_body(trm, r"pub\(crate\) fn relation_with\(&self, other_terms_intersection: &Self\)\s*->\s*Relation\s*\{")).strip()
    want = ("if other_terms_intersection.subset_of(self) { Relation::Satisfied } else if "
            "self.is_disjoint(other_terms_intersection) { Relation::Contradicted } else { Relation::Inconclusive }")
    if b != want:
        raise ParseError("relation_with: control flow changed: " + b)
    defs.append("  Definition gen_t_relation_with (t u : term VS) : relation :=\n"
                "    if gen_t_subset_of u t then Satisfied else if gen_t_is_disjoint t u then Contradicted else Inconclusive.")
    ttext = ("(* GENERATED by tools/translate.py from /repo/src/term.rs — do not edit, never committed *)\n"
             "From Coq Require Import Bool.\nFrom PG Require Import Model.VS Model.Term.\n\n"
             "Section GenTerm.\n  Context {VS Vr : Type} (O : VSOps VS Vr).\n\n" +
             "\n\n".join(defs) + "\n\nEnd GenTerm.\n")
    open(os.path.join(out, "TermTables.v"), "w").write(ttext)

    # ---- version_set.rs: the four provided methods
    defs.clear()
    vnames = {"self": "a", "other": "b"}

    def vs_fn(name, params, ret, header):
        b = fn_body(vst, header)
        em = Emit(vnames, "req")
        e = parse_expr(b.strip().replace("Self::empty()", "empty()"))
        defs.append("  Definition gen_%s %s : %s :=\n    %s." % (name, params, ret, em.expr(e, {})))

    vs_fn("full_default", "", "VS", r"fn full\(\)\s*->\s*Self\s*\{")
    vs_fn("union_default", "(a b : VS)", "VS", r"fn union\(&self, other: &Self\)\s*->\s*Self\s*\{")
    vs_fn("is_disjoint_default", "(a b : VS)", "bool", r"fn is_disjoint\(&self, other: &Self\)\s*->\s*bool\s*\{")
    vs_fn("subset_of_default", "(a b : VS)", "bool", r"fn subset_of\(&self, other: &Self\)\s*->\s*bool\s*\{")
    vtext = ("(* GENERATED by tools/translate.py from /repo/src/version_set.rs — do not edit, never committed *)\n"
             "From PG Require Import Model.VS.\n\n"
             "Section GenVS.\n  Context {VS Vr : Type} (R : VSReq VS Vr).\n\n" +
             "\n\n".join(defs) + "\n\nEnd GenVS.\n")
    open(os.path.join(out, "VSDefaults.v"), "w").write(vtext)
    incompat_ctors(repo, out)
    incompat_methods(repo, out)
    print("translate: wrote RangeTables.v TermTables.v VSDefaults.v IncompatCtors.v IncompatMethods.v")


if __name__ == "__main__":
    try:
        main()
    except (ParseError, ValueError, KeyError, IndexError) as e:
        print("translate: the source no longer has the expected shape: %s: %s" % (type(e).__name__, e))
        sys.exit(1)
