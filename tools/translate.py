#!/usr/bin/env python3
"""Translator: regenerates coq/Gen/*.v from /repo/src (DESIGN.md 3.1).  Filled in by later stages."""
import sys
sys.exit(0)
