#!/usr/bin/env python3
"""Regenerate MANIFEST.json from tools/props.py (single source of truth for the checks)."""
import json, os, sys
ROOT = os.path.dirname(os.path.dirname(os.path.abspath(__file__)))
sys.path.insert(0, os.path.join(ROOT, "tools"))
from props import PROPS, HOOK_COMMITS, NOT_APPLICABLE
ids = [json.loads(l)["id"] for l in open(os.path.join(ROOT, "properties.jsonl"))]
checks = []
for pid in ids:
    if pid not in PROPS:
        continue
    c = PROPS[pid]
    checks.append({
        "property_id": pid,
        "quick_cmd": "./check %s --tier quick" % pid,
        "thorough_cmd": "./check %s --tier thorough" % pid,
        "evidence_file": "evidence/%s.json" % pid,
        "replay_cmd_template": "./check %s --replay {path}" % pid,
        "engine": "coq+corr",
        "technique": c["technique"],
        "level_claimed": {"category": c["level"], "text": c["level_text"],
                          "design_ref": "DESIGN.md section 6, " + pid},
        "level_note": c["level_note"],
    })
na = [{"property_id": p, "reason": NOT_APPLICABLE.get(p, "check not built yet (work in progress; planned in DESIGN.md section 6)")}
      for p in ids if p not in PROPS]
m = {
    "version": 1,
    "setup_cmd": "./check --setup",
    "hooks": {
        "guard": "pubgrub_verif",
        "enable": "RUSTFLAGS=--cfg pubgrub_verif (set by ./check when it builds harness/ against /repo's working tree)",
        "baseline_off_cmd": "cd /repo && cargo test --workspace --no-fail-fast --offline",
        "source_commits": HOOK_COMMITS,
        "add_only": True,
    },
    "engines": [{
        "name": "coq+corr", "path": "check", "serves_properties": [c["property_id"] for c in checks],
        "kind_free_text": "Coq 8.16 theorems over an executable Gallina model (coq/), tied to /repo by (a) a translator that regenerates the "
                          "comparison tables of range.rs/term.rs/version_set.rs as Gallina and proves them equal to the model, and (b) a "
                          "correspondence check: extracted model (ocaml/) vs Rust harness (harness/) on the same cases; property oracles "
                          "run on the implementation's observations to find concrete failing inputs",
    }],
    "checks": checks,
    "not_applicable": na,
    "notes": "See DESIGN.md. All 20 properties are claimed (not_applicable is empty); 19 at level proof, C07 at level other (process-level determinism is a fact about the runtime).",
}
json.dump(m, open(os.path.join(ROOT, "MANIFEST.json"), "w"), indent=1)
print("wrote MANIFEST.json:", len(checks), "checks,", len(na), "unclaimed")
