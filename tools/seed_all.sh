#!/bin/bash
# re-runs every stored seeded change against the check of its property (regression of the sensitivity record)
cd /verif
for d in seeded/*/; do
  n=$(basename $d); p=$(python3 -c "import json;print(json.load(open('$d/meta.json'))['property'])" 2>/dev/null)
  [ -z "$p" ] && p=${n%%-*}
  tools/seed_run.sh $n $p 2>&1 | grep "^\[" 
done
