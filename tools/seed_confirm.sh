#!/bin/bash
# usage: seed_confirm.sh <worktree> <seed-name> <property> [rustflags]
# Confirms in the scratch worktree that (1) the existing suite passes with the change, (2) the demo fails
# with it and (3) passes without it; then stores patch + demo under /verif/seeded/<seed-name>/.
set -u
WT=$1; NAME=$2; PROP=$3; FLAGS=${4:-}
cd "$WT" || exit 2
export CARGO_NET_OFFLINE=true
mkdir -p /tmp/seedhold && mv tests/seed_demo.rs /tmp/seedhold/seed_demo.rs
echo "== suite with change"; cargo test --offline 2>&1 | grep -E "^test result|FAILED|panicked" | sort | uniq -c
mv /tmp/seedhold/seed_demo.rs tests/seed_demo.rs
echo "== demo with change (must fail)"; RUSTFLAGS="$FLAGS" cargo test --offline --test seed_demo 2>&1 | grep -E "^test result" 
git stash push -q -- src
echo "== demo without change (must pass)"; RUSTFLAGS="$FLAGS" cargo test --offline --test seed_demo 2>&1 | grep -E "^test result"
git stash pop -q
D=/verif/seeded/$NAME; mkdir -p $D
git diff -- src > $D/patch.diff; cp tests/seed_demo.rs $D/seed_demo.rs; cp seed_notes.md $D/notes.md 2>/dev/null
echo "stored in $D"; wc -l $D/patch.diff
