#!/usr/bin/env python3
"""Validate MANIFEST.json and evidence/*.json against the schemas (run with python3-vt, which has jsonschema)."""
import json, glob, sys
import jsonschema
m = json.load(open('/verif/MANIFEST.json')); s = json.load(open('/root/.vp/MANIFEST.schema.json'))
jsonschema.validate(m, s); print("manifest ok:", len(m["checks"]), "checks")
es = json.load(open('/root/.vp/EVIDENCE.schema.json'))
for f in sorted(glob.glob('/verif/evidence/*.json')):
    jsonschema.validate(json.load(open(f)), es); print("evidence ok:", f)
ids = {json.loads(l)["id"] for l in open('/verif/properties.jsonl')}
claimed = {c["property_id"] for c in m["checks"]}
na = {c["property_id"] for c in m.get("not_applicable", [])}
print("unclaimed and not listed:", sorted(ids - claimed - na))
