#!/usr/bin/env python3
"""Developer helper: rebuild the extracted model driver and the harness (what ./check does under its lock)."""
import importlib.util, importlib.machinery, sys
loader = importlib.machinery.SourceFileLoader('chk', '/verif/check')
spec = importlib.util.spec_from_loader('chk', loader); m = importlib.util.module_from_spec(spec); loader.exec_module(m)
ok, out = m.coq_build("Extract/Extract.vo"); print("extract", ok, out[-1500:] if not ok else "")
ok, out = m.build_ocaml(); print("ocaml", ok, out[-3000:])
ok, out = m.build_harness(); print("harness", ok, out[-3000:] if not ok else "")
