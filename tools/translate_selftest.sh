#!/bin/bash
# Sensitivity self-test of tools/translate.py for coq/Gen/IncompatMethods.v (no_versions, is_terminal, merge_dependents,
# prior_cause).  Every mutant is an edit of a COPY of the Rust source (the repository itself is never touched):
#   semantic mutants : the translator must fail (ParseError) or generate a different IncompatMethods.v
#                      (with --coq: a different output must moreover make coq/Proofs/GenEqSolver.v fail to compile)
#   harmless edits   : comment / whitespace / line breaks: the output must be byte-identical
# usage: tools/translate_selftest.sh [--coq] [repo]       (default repo: /repo)
set -u
HERE="$(cd "$(dirname "$0")/.." && pwd)"
COQ=0
if [ "${1:-}" = "--coq" ]; then COQ=1; shift; fi
REPO="${1:-/repo}"
T="$(mktemp -d)"
trap 'rm -rf "$T"' EXIT
F=src/internal/incompatibility.rs
fail=0

mkdir -p "$T/base" && cp -r "$REPO/src" "$T/base/src"
if ! python3 "$HERE/tools/translate.py" "$T/base" "$T/base/gen" >"$T/base/log" 2>&1; then
  echo "FAIL baseline: translator fails on the unmutated source: $(cat "$T/base/log")"; exit 1
fi
BASE="$T/base/gen/IncompatMethods.v"

# edit NAME OLD NEW : copy the source to $T/NAME and replace the (unique) occurrence of OLD by NEW
edit() {
  mkdir -p "$T/$1" && cp -r "$REPO/src" "$T/$1/src"
  python3 - "$T/$1/$F" "$2" "$3" <<'PY'
import sys
p, old, new = sys.argv[1], sys.argv[2].replace("\\n", "\n"), sys.argv[3].replace("\\n", "\n")
s = open(p).read()
if s.count(old) != 1:
    sys.exit("edit not applicable: %d occurrences of %r" % (s.count(old), old))
open(p, "w").write(s.replace(old, new))
PY
}

coq_check() {   # does GenEqSolver.v still compile against the mutated generated file?  (0 = still compiles)
  local d="$T/$1/coq"; mkdir -p "$d"
  cp "$T/$1/gen/IncompatMethods.v" "$d/IncompatMethods.v"
  sed -e 's/ Gen\.IncompatMethods\././' -e '/^Import ListNotations\./i From Mut Require Import IncompatMethods.' \
      "$HERE/coq/Proofs/GenEqSolver.v" > "$d/GenEqSolver.v"
  ( cd "$d" && coqc -w none -Q "$HERE/coq" PG -Q . Mut IncompatMethods.v >/dev/null 2>&1 \
    && coqc -w none -Q "$HERE/coq" PG -Q . Mut GenEqSolver.v >/dev/null 2>&1 )
}

semantic() {   # NAME OLD NEW
  if ! edit "$1" "$2" "$3" 2>"$T/$1.err"; then echo "FAIL $1: $(cat "$T/$1.err")"; fail=1; return; fi
  if ! python3 "$HERE/tools/translate.py" "$T/$1" "$T/$1/gen" >"$T/$1/log" 2>&1; then
    echo "OK   semantic $1: translator fails: $(sed -e 's/^translate: the source no longer has the expected shape: //' "$T/$1/log" | head -c 230)"
  elif ! cmp -s "$BASE" "$T/$1/gen/IncompatMethods.v"; then
    if [ $COQ = 1 ]; then
      if coq_check "$1"; then echo "FAIL semantic $1: output differs but GenEqSolver.v still compiles"; fail=1
      else echo "OK   semantic $1: generated IncompatMethods.v differs and GenEqSolver.v no longer compiles"; fi
    else
      echo "OK   semantic $1: generated IncompatMethods.v differs ($(diff "$BASE" "$T/$1/gen/IncompatMethods.v" | grep -c '^>') definition(s) changed)"
    fi
  else
    echo "FAIL semantic $1: generated IncompatMethods.v is unchanged"; fail=1
  fi
}

harmless() {   # NAME OLD NEW
  if ! edit "$1" "$2" "$3" 2>"$T/$1.err"; then echo "FAIL $1: $(cat "$T/$1.err")"; fail=1; return; fi
  if ! python3 "$HERE/tools/translate.py" "$T/$1" "$T/$1/gen" >"$T/$1/log" 2>&1; then
    echo "FAIL harmless $1: translator fails: $(cat "$T/$1/log")"; fail=1
  elif cmp -s "$BASE" "$T/$1/gen/IncompatMethods.v" && diff -rq "$T/base/gen" "$T/$1/gen" >/dev/null; then
    echo "OK   harmless $1: all generated files identical"
  else
    echo "FAIL harmless $1: generated output changed"; fail=1
  fi
}

if [ $COQ = 1 ]; then
  mkdir -p "$T/base0/gen" && cp "$BASE" "$T/base0/gen/"
  if coq_check base0; then echo "OK   baseline: GenEqSolver.v compiles against the unmutated output"
  else echo "FAIL baseline: GenEqSolver.v does not compile against the unmutated output"; fail=1; fi
fi

# ---- merge_dependents
semantic md_union_to_intersection '.union(other.get(p1).unwrap().unwrap_positive())' '.intersection(other.get(p1).unwrap().unwrap_positive())'
semantic md_drop_self_dependency_guard '        if p1 == p2 {\n            return None;\n        }\n' ''
semantic md_dep_term_test_inverted 'if dep_term != other.get(p2) {' 'if dep_term == other.get(p2) {'
semantic md_unwrap_negative_to_positive '|v| v.unwrap_negative().clone()' '|v| v.unwrap_positive().clone()'
semantic md_get_other_package 'let dep_term = self.get(p2);' 'let dep_term = self.get(p1);'
semantic md_swap_unwrap_order '.unwrap()\n                .unwrap_positive()\n                .union(other.get(p1).unwrap().unwrap_positive())' '.unwrap()\n                .unwrap_positive()\n                .union(self.get(p1).unwrap().unwrap_positive())'
# ---- is_terminal
semantic it_gt1_to_gt2 'self.package_terms.len() > 1' 'self.package_terms.len() > 2'
semantic it_drop_root_test '(package == root_package) && term.contains(root_version)' 'term.contains(root_version)'
semantic it_empty_is_not_terminal '        if self.package_terms.len() == 0 {\n            true' '        if self.package_terms.len() == 0 {\n            false'
# ---- prior_cause
semantic pc_any_to_empty 'if term != Term::any() {' 'if term != Term::empty() {'
semantic pc_remove_filter 'satisfier_cause_terms.iter().filter(|(p, _)| p != &package),' 'satisfier_cause_terms.iter(),'
semantic pc_filter_inverted '.filter(|(p, _)| p != &package)' '.filter(|(p, _)| p == &package)'
semantic pc_merge_closure_union '|t1, t2| Some(t1.intersection(t2))' '|t1, t2| Some(t1.union(t2))'
semantic pc_union_to_intersection 'let term = t1.union(satisfier_cause_terms.get(package).unwrap());' 'let term = t1.intersection(satisfier_cause_terms.get(package).unwrap());'
semantic pc_causes_swapped 'Kind::DerivedFrom(incompat, satisfier_cause);' 'Kind::DerivedFrom(satisfier_cause, incompat);'
semantic pc_always_insert '        if term != Term::any() {\n            package_terms.insert(package.clone(), term);\n        }' '        package_terms.insert(package.clone(), term);'
# ---- no_versions (the text of its match also occurs in custom_term: the edit is anchored on the function header)
semantic nv_arms_swapped 'fn no_versions(package: P, term: Term<VS>) -> Self {\n        let set = match &term {\n            Term::Positive(r) => r.clone(),\n            Term::Negative(_) => panic!("No version should have a positive term"),' 'fn no_versions(package: P, term: Term<VS>) -> Self {\n        let set = match &term {\n            Term::Negative(r) => r.clone(),\n            Term::Positive(_) => panic!("No version should have a positive term"),'
semantic nv_kind_changed 'kind: Kind::NoVersions(package, set),' 'kind: Kind::NoVersions(package, VS::empty()),'
# ---- harmless edits
harmless h_comment 'let dep_term = self.get(p2);' '// a new comment, with code-like text: return None; .union(x)\n        let dep_term = self.get(p2); // trailing comment'
harmless h_whitespace_and_line_breaks '        if p1 == p2 {\n            return None;\n        }\n' '        if   p1==p2 { return None ; }\n\n'
harmless h_chain_on_one_line '            self.get(p1)\n                .unwrap()\n                .unwrap_positive()\n                .union(' '            self.get(p1).unwrap().unwrap_positive().union(\n'
harmless h_is_terminal_reformatted '        } else if self.package_terms.len() > 1 {\n            false' '        }\n        else if self . package_terms . len( ) > 1\n        {\n            false'

if [ $fail = 0 ]; then echo "translate_selftest: all mutants behaved as required"; else echo "translate_selftest: FAILURES"; fi
exit $fail
