(* the binary heap of the priority-queue crate against Model/Heap.v (C07, C14) *)
open Model
open Conv
type str = Stdlib.String.t

let parse_ops (c : Sx.t) : n hop list =
  match Sx.list c with
  | Sx.A "heap" :: ops ->
    List.map (function
      | Sx.A "pop" -> HPop
      | Sx.A "clear" -> HClear
      | op -> (match Sx.list op with
          | [Sx.A "push"; p; z] -> HPush (n_of_int (Sx.int p), z_of_int (Sx.int z))
          | _ -> failwith "heap op")) ops
  | _ -> failwith "heap case"

let pair (p, z) = Printf.sprintf "(%d %d)" (int_of_n p) (int_of_z z)

let eval (c : Sx.t) : str =
  let ops = parse_ops c in
  (* run, then drain *)
  let h = List.fold_left (fun h o -> fst (heap_step N.eqb h o)) [] ops in
  let pops = List.map (function Some e -> pair e | None -> "none") (heap_run N.eqb [] ops) in
  let rec drain h acc = match heap_pop h with Some (e, h') -> drain h' (pair e :: acc) | None -> List.rev acc in
  Printf.sprintf "(pops %s) (left %d)" (String.concat " " (pops @ drain h [])) (List.length h)

(* oracle on the implementation's own observation: every pop returns an item of maximal priority
   among the items queued at that moment (reference: a plain association list) *)
let oracle (c : Sx.t) (rust : str) : (str * str) option =
  let ops = parse_ops c in
  let obs = match Sx.parse ("(" ^ rust ^ ")") with
    | Sx.L (Sx.L (Sx.A "pops" :: l) :: _) -> l
    | _ -> failwith "heap obs" in
  let q = ref [] and rest = ref obs and bad = ref None in
  let take () = match !rest with x :: r -> rest := r; Some x | [] -> None in
  let check_pop () =
    let got = take () in
    (match !q, got with
     | [], Some (Sx.A "none") -> ()
     | [], _ -> bad := Some "pop on an empty queue returned an item"
     | l, Some (Sx.L [p; z]) ->
       let p = Sx.int p and z = Sx.int z in
       let mx = List.fold_left (fun m (_, z) -> max m z) min_int l in
       if List.assoc_opt p l <> Some z then bad := Some (Printf.sprintf "pop returned (%d %d) which is not queued with that priority" p z)
       else if z <> mx then bad := Some (Printf.sprintf "pop returned priority %d but %d is queued" z mx)
       else q := List.remove_assoc p l
     | _, _ -> bad := Some "pop returned nothing although items are queued") in
  List.iter (fun o -> if !bad = None then match o with
    | HPush (p, z) -> q := (int_of_n p, int_of_z z) :: List.remove_assoc (int_of_n p) !q
    | HClear -> q := []
    | HPop -> check_pop ()) ops;
  while !bad = None && !q <> [] do check_pop () done;
  match !bad with Some w -> Some ("C14", w) | None -> None
