(* conversions between OCaml ints/strings and the extracted Coq numbers (trusted I/O boundary) *)
open Model

let rec pos_of_int (i : int) : positive =
  if i <= 1 then XH else if i land 1 = 0 then XO (pos_of_int (i lsr 1)) else XI (pos_of_int (i lsr 1))
let rec int_of_pos = function XH -> 1 | XO p -> 2 * int_of_pos p | XI p -> 2 * int_of_pos p + 1
let n_of_int i = if i = 0 then N0 else Npos (pos_of_int i)
let int_of_n = function N0 -> 0 | Npos p -> int_of_pos p
let z_of_int i = if i = 0 then Z0 else if i > 0 then Zpos (pos_of_int i) else Zneg (pos_of_int (-i))
let int_of_z = function Z0 -> 0 | Zpos p -> int_of_pos p | Zneg p -> - (int_of_pos p)

(* text = list N of bytes, rendered as a sexp list of ints *)
let text_of_sx (x : Sx.t) : n list = List.map (fun a -> n_of_int (Sx.int a)) (Sx.list x)
let sx_of_text (t : n list) : Sx.t = Sx.L (List.map (fun c -> Sx.A (string_of_int (int_of_n c))) t)
let string_of_text (t : n list) : Stdlib.String.t =
  String.init (List.length t) (fun i -> Char.chr (int_of_n (List.nth t i)))
