(* C20: model side of the semver correspondence *)
open Model
open Conv

let ver l = match l with
  | [a; b; c] -> { major = n_of_int (Sx.int a); minor = n_of_int (Sx.int b); patch = n_of_int (Sx.int c) }
  | _ -> failwith "ver"
let tup v = Printf.sprintf "%d %d %d" (int_of_n v.major) (int_of_n v.minor) (int_of_n v.patch)

let parse_obs s =
  match sv_parse s with
  | ParseOk v -> Printf.sprintf "(ok %s)" (tup v)
  | NotThreeParts f -> Printf.sprintf "(not3 %s)" (Sx.to_string (sx_of_text f))
  | ParseIntError (f, p, e) ->
    Printf.sprintf "(interr %s %s %s)" (Sx.to_string (sx_of_text f)) (Sx.to_string (sx_of_text p))
      (match e with IEmpty -> "empty" | IInvalidDigit -> "invalid" | IPosOverflow -> "overflow")

let eval (c : Sx.t) : Stdlib.String.t =
  match Sx.list c with
  | Sx.A "sv-parse" :: [b] -> parse_obs (text_of_sx b)
  | Sx.A "sv-display" :: l -> Sx.to_string (sx_of_text (sv_display (ver l)))
  | Sx.A "sv-roundtrip" :: l -> parse_obs (sv_display (ver l))
  | Sx.A "sv-cmp" :: [a; b; c; d; e; f] ->
    (match sv_compare (ver [a; b; c]) (ver [d; e; f]) with Eq -> "equal" | Lt -> "less" | Gt -> "greater")
  | Sx.A "sv-tuple" :: l ->
    let ((a, b), c) = sv_to_tuple (sv_of_tuple (sv_to_tuple (ver l))) in
    Printf.sprintf "(%d %d %d)" (int_of_n a) (int_of_n b) (int_of_n c)
  | Sx.A "sv-bump" :: Sx.A which :: l ->
    let v = ver l in
    let r = match which with "patch" -> bump_patch v | "minor" -> bump_minor v | _ -> bump_major v in
    (match r with Some v -> Printf.sprintf "(some %s)" (tup v) | None -> "none")
  | _ -> failwith "semver: unknown case"

(* property oracle on the Rust observation; the model is the formal reading of the property for
   parsing/ordering, so there a disagreement with the model is itself a failing input *)
let oracle (c : Sx.t) (rust : Stdlib.String.t) : (Stdlib.String.t * Stdlib.String.t) option =
  match Sx.list c with
  | Sx.A "sv-roundtrip" :: [a; b; c'] ->
    let want = Printf.sprintf "(ok %d %d %d)" (Sx.int a) (Sx.int b) (Sx.int c') in
    if rust = want then None else Some ("C20", "Display then FromStr does not return the version")
  | Sx.A "sv-bump" :: Sx.A which :: [a; b; c'] ->
    let (a, b, c') = (Sx.int a, Sx.int b, Sx.int c') in
    let want = match which with
      | "patch" -> Printf.sprintf "(some %d %d %d)" a b (c' + 1)
      | "minor" -> Printf.sprintf "(some %d %d 0)" a (b + 1)
      | _ -> Printf.sprintf "(some %d 0 0)" (a + 1) in
    if rust = want then None else Some ("C20", "bump below u32::MAX is not the expected strictly greater version")
  | Sx.A "sv-tuple" :: [a; b; c'] ->
    if rust = Printf.sprintf "(%d %d %d)" (Sx.int a) (Sx.int b) (Sx.int c') then None
    else Some ("C20", "tuple conversions are not mutually inverse")
  | _ -> if rust = eval c then None else Some ("C20", "differs from the specification model (parse/display/order)")
