(* the solver over the bitset VersionSet (only the required methods implemented in Rust; every other set
   operation goes through the provided methods): C17 "the solver is generic over them", C01/C02 on a second
   VersionSet.  Model: resolve_h bitset_vs (Model/VS.v: with_defaults bitset_req). *)
open Model
open Conv
type str = Stdlib.String.t
let sp = Printf.sprintf
let fuel = D_solver.fuel
let int_of_nat = D_solver.int_of_nat

type deps = (int * int) list option
type case = { reg : (int * (int * deps) list) list; rootp : int; rootv : int; trace : Sx.t list; strat : (bool * int) option }

let parse_case (c : Sx.t) : case =
  match Sx.list c with
  | Sx.A "solveb" :: Sx.L (Sx.A "reg" :: pk) :: Sx.L [Sx.A "root"; rp; rv] :: Sx.L (Sx.A "trace" :: evs) :: rest ->
    let strat = match rest with [Sx.L [Sx.A "strat"; n; pr]] -> Some (Sx.int n = 1, Sx.int pr) | _ -> None in
    let reg = List.map (fun p -> match Sx.list p with
      | pn :: vs -> (Sx.int pn, List.map (fun ve -> match Sx.list ve with
          | [v; Sx.A _] -> (Sx.int v, None)
          | [v; Sx.L ds] -> (Sx.int v, Some (List.map (fun d -> match Sx.list d with [q; m] -> (Sx.int q, Sx.int m) | _ -> failwith "dep") ds))
          | _ -> failwith "version") vs)
      | _ -> failwith "pkg") pk in
    { reg; rootp = Sx.int rp; rootv = Sx.int rv; trace = evs; strat }
  | _ -> failwith "solverb: unknown case"

let v8 i = v8_of_N (n_of_int i)
let model_ev (e : Sx.t) : (n, v8) event =
  match Sx.list e with
  | [Sx.A "c"; ok] -> EvCancel (Sx.int ok = 1)
  | [Sx.A "pr"; p; s; pr] -> EvPrioritize (n_of_int (Sx.int p), n_of_int (Sx.int s), z_of_int (Sx.int pr))
  | [Sx.A "ch"; p; s; a] ->
    EvChoose (n_of_int (Sx.int p), n_of_int (Sx.int s), (match a with
      | Sx.A "none" -> CNone | Sx.A _ -> CErr | Sx.L [_; v] -> CSome (v8 (Sx.int v)) | _ -> failwith "choose"))
  | [Sx.A "d"; p; v; a] ->
    EvDeps (n_of_int (Sx.int p), v8 (Sx.int v), (match a with
      | Sx.A _ -> DErr
      | Sx.L [Sx.A "unavail"; _] -> DUnavail N0
      | Sx.L [Sx.A "avail"; ds] -> DAvail (List.map (fun d -> match Sx.list d with
          | [q; s] -> (n_of_int (Sx.int q), n_of_int (Sx.int s)) | _ -> failwith "dep") (Sx.list ds))
      | _ -> failwith "deps"))
  | _ -> failwith "event"

let v8_eqb (a : v8) (b : v8) = (a = b)
let term_sx (t : n term) : str = match t with Pos m -> sp "(p %d)" (int_of_n m) | Neg m -> sp "(n %d)" (int_of_n m)
let terms_sx ts =
  let l = List.sort compare (List.map (fun (p, t) -> (int_of_n p, term_sx t)) ts) in
  "(" ^ String.concat " " (List.map (fun (p, t) -> sp "(%d %s)" p t) l) ^ ")"
let vi (v : v8) = int_of_n (v8_idx v)
let rec tree_sx (t : (n, v8) tree) : str =
  match t with
  | TExternal (XNotRoot (p, v)) -> sp "(ext notroot %d %d)" (int_of_n p) (vi v)
  | TExternal (XNoVersions (p, s)) -> sp "(ext nov %d %d)" (int_of_n p) (int_of_n s)
  | TExternal (XFromDep (p, s, q, t)) -> sp "(ext dep %d %d %d %d)" (int_of_n p) (int_of_n s) (int_of_n q) (int_of_n t)
  | TExternal (XCustom (p, s, _)) -> sp "(ext custom %d %d)" (int_of_n p) (int_of_n s)
  | TDerived (ts, sh, c1, c2) ->
    sp "(der %s %s %s %s)" (match sh with Some i -> string_of_int (int_of_nat i) | None -> "none") (terms_sx ts) (tree_sx c1) (tree_sx c2)

let outcome_sx (o : (n, v8) outcome) : str =
  match o with
  | OSolution sol ->
    let l = List.sort compare (List.map (fun (p, v) -> (int_of_n p, vi v)) sol) in
    "(ok (" ^ String.concat " " (List.map (fun (p, v) -> sp "(%d %d)" p v) l) ^ "))"
  | ONoSolution t -> "(nosol " ^ tree_sx t ^ ")"
  | OErrCancel -> "(errcancel)"
  | OErrChoose -> "(errchoose)"
  | OErrDeps _ -> "(errdeps)"
  | OFailure _ -> "(failure)"
  | OPanic _ -> "(panic)"
  | OOutOfFuel -> "(outoffuel)"
  | OMismatch (n, why) -> sp "(model-trace-mismatch %d %d)" (int_of_nat n) (int_of_n why)
  | OPickNotMax (n, p) -> sp "(pick-not-max %d %d)" (int_of_nat n) (int_of_n p)

(* The GENERATING model (Proofs/SolverGen.v, resolve_g): given only the provider - here the harness's strategy
   (newest / oldest version, one of four priority functions) over the registry of the case; the iteration order of a
   dependency map is taken from the recorded answer - it must produce the whole recorded call trace and the result. *)
let has_bit (m : int) (v : int) = v >= 0 && v < 8 && (m lsr v) land 1 = 1
let gen_field (c : case) (tr : (n, v8) event list) (o_h : (n, v8) outcome) : str =
  match c.strat with
  | None -> "(gen ok)"
  | Some _ when List.mem (EvCancel false) tr -> "(gen ok)"
  | Some (newest, prio) ->
    let versions p = match List.assoc_opt p c.reg with Some vs -> List.sort compare (List.map fst vs) | None -> [] in
    let inside p s = List.filter (fun v -> has_bit (int_of_n s) v) (versions (int_of_n p)) in
    let pg = {
      p_cancel = (fun _ -> true);
      p_prio = (fun _ p s -> z_of_int (match prio with
        | 0 -> 0 | 1 -> - (List.length (inside p s)) | 2 -> int_of_n p | _ -> - (int_of_n p)));
      p_choose = (fun _ p s -> match inside p s with
        | [] -> CNone
        | l -> CSome (v8 (if newest then List.nth l (List.length l - 1) else List.hd l)));
      p_deps = (fun _ p v ->
        match List.find_map (function EvDeps (p', v', a) when p' = p && v' = v -> Some a | _ -> None) tr with
        | Some a -> a
        | None -> (match List.assoc_opt (int_of_n p) c.reg with
            | Some vs -> (match List.assoc_opt (int_of_n (v8_idx v)) vs with
                | Some (Some ds) -> DAvail (List.map (fun (q, m) -> (n_of_int q, n_of_int m)) ds)
                | _ -> DUnavail N0)
            | None -> DUnavail N0)) } in
    let ((((o, _), _), _), gtr) = resolve_g bitset_vs v8_eqb pg fuel (n_of_int c.rootp) (v8 c.rootv) in
    if gtr = tr && outcome_sx o = outcome_sx o_h then "(gen ok)"
    else begin
      let rec first_diff i a b = match a, b with
        | x :: a', y :: b' -> if x = y then first_diff (i + 1) a' b' else i
        | _, _ -> i in
      sp "(gen differs %d %d %d)" (first_diff 0 gtr tr) (List.length gtr) (List.length tr)
    end

let eval (cs : Sx.t) : str =
  let c = parse_case cs in
  let tr = List.map model_ev c.trace in
  let run f = f bitset_vs v8_eqb fuel (n_of_int c.rootp) (v8 c.rootv) tr in
  match run resolve_h with
  | (((OMismatch (n, w), _), _), _) when int_of_n w = 6 ->
    let (((o, _), _), _) = run resolve in sp "(res %s) (heap pick-differs %d) %s" (outcome_sx o) (int_of_nat n) (gen_field c tr o)
  | (((o, _), _), _) -> sp "(res %s) (heap ok) %s" (outcome_sx o) (gen_field c tr o)

(* ---------------------------------------------------------------- oracles on the implementation's observation *)
let has (m : int) (v : int) = v >= 0 && v < 8 && (m lsr v) land 1 = 1
let deps_of (c : case) p v : deps option = match List.assoc_opt p c.reg with Some vs -> List.assoc_opt v vs | None -> None
let versions (c : case) p = match List.assoc_opt p c.reg with Some vs -> List.map fst vs | None -> []

let check_solution (c : case) (sol : (int * int) list) : str option =
  if List.assoc_opt c.rootp sol <> Some c.rootv then Some "root is not selected at the requested version" else
  List.find_map (fun (p, v) ->
    match deps_of c p v with
    | None -> Some (sp "selected %d@%d is not a version the provider offers" p v)
    | Some None -> Some (sp "selected %d@%d has unavailable dependencies" p v)
    | Some (Some ds) ->
      List.find_map (fun (q, s) ->
        match List.assoc_opt q sol with
        | None -> Some (sp "%d@%d depends on %d but it is not selected" p v q)
        | Some w -> if has s w then None else Some (sp "%d@%d depends on %d in a set that does not contain the selected %d" p v q w)) ds) sol

let check_reachable (c : case) (sol : (int * int) list) : str option =
  let rec go seen = function
    | [] -> seen
    | p :: rest ->
      if List.mem p seen then go seen rest else
      let next = match List.assoc_opt p sol with
        | Some v -> (match deps_of c p v with Some (Some ds) -> List.map fst ds | _ -> [])
        | None -> [] in
      go (p :: seen) (next @ rest) in
  let reach = go [] [c.rootp] in
  match List.find_opt (fun (p, _) -> not (List.mem p reach)) sol with
  | Some (p, v) -> Some (sp "package %d@%d is in the solution but not reachable from the root" p v)
  | None -> None

exception Budget
let exists_solution (c : case) : bool option =
  let steps = ref 0 in
  let rec solve asg pending =
    incr steps; if !steps > 300000 then raise Budget;
    match pending with
    | [] -> true
    | (q, s) :: rest ->
      (match List.assoc_opt q asg with
       | Some w -> has s w && solve asg rest
       | None -> List.exists (fun w -> has s w && (match deps_of c q w with
           | Some (Some ds) -> solve ((q, w) :: asg) (ds @ rest) | _ -> false)) (versions c q)) in
  try Some (solve [] [(c.rootp, 1 lsl c.rootv)]) with Budget -> None

let oracles (cs : Sx.t) (rust : str) : (str * str) list =
  let c = parse_case cs in
  let obs = match Sx.parse ("(" ^ rust ^ ")") with Sx.L (Sx.L [Sx.A "res"; r] :: _) -> r | _ -> failwith "obs" in
  let all ps w = List.map (fun p -> (p, w)) ps in
  match obs with
  | Sx.L [Sx.A "ok"; Sx.L l] ->
    let sol = List.map (fun e -> match Sx.list e with [p; v] -> (Sx.int p, Sx.int v) | _ -> failwith "sol") l in
    (match check_solution c sol with Some w -> all ["C01"; "C17"] ("bitset VersionSet: " ^ w) | None -> [])
    @ (match check_reachable c sol with Some w -> all ["C04"; "C17"] ("bitset VersionSet: " ^ w) | None -> [])
  | Sx.L (Sx.A "nosol" :: _) ->
    (match exists_solution c with
     | Some true -> all ["C02"; "C17"] "bitset VersionSet: NoSolution reported but a solution exists"
     | _ -> [])
  | Sx.L [Sx.A "panic"] -> all ["C05"; "C17"] "bitset VersionSet: resolve panicked"
  | Sx.L [Sx.A "failure"] -> all ["C05"; "C17"] "bitset VersionSet: resolve returned Failure"
  | _ -> []
