(* minimal s-expressions, same syntax as harness/src/sexp.rs *)
type t = A of string | L of t list

let tokenize (s : string) : string list =
  let toks = ref [] and cur = Buffer.create 16 in
  let flush () = if Buffer.length cur > 0 then (toks := Buffer.contents cur :: !toks; Buffer.clear cur) in
  String.iter (fun c ->
    if c = '(' || c = ')' then (flush (); toks := String.make 1 c :: !toks)
    else if c = ' ' || c = '\t' || c = '\n' || c = '\r' then flush ()
    else Buffer.add_char cur c) s;
  flush (); List.rev !toks

let parse (s : string) : t =
  let rec one = function
    | "(" :: r -> let (l, r') = many [] r in (L l, r')
    | ")" :: _ -> failwith "unexpected )"
    | a :: r -> (A a, r)
    | [] -> failwith "eof"
  and many acc = function
    | ")" :: r -> (List.rev acc, r)
    | toks -> let (x, r) = one toks in many (x :: acc) r
  in
  match one (tokenize s) with
  | (x, []) -> x
  | _ -> failwith "trailing tokens"

let rec to_string = function
  | A a -> a
  | L l -> "(" ^ String.concat " " (List.map to_string l) ^ ")"

let atom = function A a -> a | L _ -> failwith "atom expected"
let list = function L l -> l | A a -> failwith ("list expected, got " ^ a)
let int x = int_of_string (atom x)
let head x = match x with L (A h :: _) -> h | _ -> failwith "head"
