(* C18: OfflineDependencyProvider *)
open Model
open Conv
type str = Stdlib.String.t

let query_sets : RZ.range list =
  let z = z_of_int in
  [ [(Unb, Unb)]; []; [(Incl (z 2), Incl (z 2))]; [(Incl (z 2), Unb)]; [(Unb, Excl (z 3))];
    [(Unb, Excl (z 2)); (Excl (z 2), Unb)] ]

let parse_ops (x : Sx.t) : (n * z * (n * RZ.range) list) list =
  List.map (fun op -> match Sx.list op with
    | [p; v; deps] ->
      ((n_of_int (Sx.int p), z_of_int (Sx.int v)),
       List.map (fun d -> match Sx.list d with
         | [q; segs] -> (n_of_int (Sx.int q), D_ranges.build 0 (D_ranges.parse_segs segs))
         | _ -> failwith "dep") (Sx.list deps))
    | _ -> failwith "op") (Sx.list x)
  |> List.map (fun ((p, v), d) -> (p, v, d))

let render packages versions deps choose count priocmp : str =
  let b = Buffer.create 256 in
  Buffer.add_string b (Printf.sprintf "(packages (%s))" (String.concat " " (List.map string_of_int packages)));
  for p = 0 to 2 do
    (match versions p with
     | None -> Buffer.add_string b (Printf.sprintf " (versions %d none)" p)
     | Some vs -> Buffer.add_string b (Printf.sprintf " (versions %d (%s))" p (String.concat " " (List.map string_of_int vs))));
    for v = 1 to 3 do
      (match deps p v with
       | None -> Buffer.add_string b (Printf.sprintf " (deps %d %d unavailable)" p v)
       | Some m ->
         let e = List.sort compare (List.map (fun (q, r) -> (q, D_ranges.segs_sx r)) m) in
         Buffer.add_string b (Printf.sprintf " (deps %d %d (%s))" p v
           (String.concat " " (List.map (fun (q, r) -> Printf.sprintf "(%d %s)" q r) e))))
    done;
    List.iteri (fun i s ->
      Buffer.add_string b (Printf.sprintf " (q %d %d %s %d)" p i
        (match choose p s with Some v -> string_of_int v | None -> "none") (count p s))) query_sets
  done;
  Buffer.add_string b (Printf.sprintf " (prio-cmp %s)" priocmp);
  Buffer.contents b

let rec int_of_nat = function O -> 0 | S n -> 1 + int_of_nat n

let eval (c : Sx.t) : str =
  match Sx.list c with
  | [Sx.A "off"; ops] ->
    let ops = List.map (fun (p, v, d) -> ((p, v), d)) (parse_ops ops) in
    let prov = run ops in
    let contains = RZ.contains in
    let cnt p s = int_of_nat (prioritize_count contains prov (n_of_int p) s) in
    render
      (List.sort compare (List.map int_of_n (packages prov)))
      (fun p -> match versions prov (n_of_int p) with None -> None | Some vs -> Some (List.map int_of_z vs))
      (fun p v -> match get_dependencies prov (n_of_int p) (z_of_int v) with
         | Unavailable -> None | Available m -> Some (List.map (fun (q, r) -> (int_of_n q, r)) m))
      (fun p s -> match choose_version contains prov (n_of_int p) s with None -> None | Some v -> Some (int_of_z v))
      cnt
      (match priority_compare (prioritize_count contains prov N0 RZ.full) (prioritize_count contains prov (n_of_int 1) RZ.full) with
       | Lt -> "lt" | Eq -> "eq" | Gt -> "gt")
  | _ -> failwith "offline: unknown case"

(* independent reference: a plain association list, last write wins *)
let oracle (c : Sx.t) (rust : str) : (str * str) option =
  match Sx.list c with
  | [Sx.A "off"; ops] ->
    let ops = List.map (fun (p, v, d) -> (int_of_n p, int_of_z v, d)) (parse_ops ops) in
    let last p v = List.fold_left (fun acc (p', v', d) -> if p = p' && v = v' then Some d else acc) None ops in
    let dedup d = (* later entries for the same package win *)
      List.fold_left (fun m (q, r) -> (int_of_n q, r) :: List.filter (fun (q', _) -> q' <> int_of_n q) m) [] d in
    let pkgs = List.sort_uniq compare (List.map (fun (p, _, _) -> p) ops) in
    let vers p = List.sort_uniq compare (List.filter_map (fun (p', v, _) -> if p = p' then Some v else None) ops) in
    let has s v = List.exists (fun sg -> D_ranges.seg_has sg v) s in
    let want = render pkgs
        (fun p -> if List.mem p pkgs then Some (vers p) else None)
        (fun p v -> match last p v with None -> None | Some d -> Some (dedup d))
        (fun p s -> match List.rev (List.filter (has s) (vers p)) with v :: _ -> Some v | [] -> None)
        (fun p s -> List.length (List.filter (has s) (vers p)))
        (let a = List.length (vers 0) and b = List.length (vers 1) in if a > b then "lt" else if a = b then "eq" else "gt") in
    if want = rust then None else Some ("C18", "differs from a last-write-wins reference map (expected " ^ want ^ ")")
  | _ -> None
