(* C08 (domain "report") and C09 (domain "collapse"): the extracted model of src/report.rs
   (Model/Report.v) recomputes the observation; the oracles re-state the two properties directly on the
   implementation's observation (no model code in the oracles). *)
open Model
open Conv

type str = Stdlib.String.t
let sp = Printf.sprintf

(* ---------------------------------------------------------------- model side *)
let set_of (x : Sx.t) : RZ.range = D_ranges.parse_segs x

let ext_of_sx (l : Sx.t list) : (RZ.range, z) external0 =
  match l with
  | [Sx.A "notroot"; p; v] -> XNotRoot (n_of_int (Sx.int p), z_of_int (Sx.int v))
  | [Sx.A "nov"; p; s] -> XNoVersions (n_of_int (Sx.int p), set_of s)
  | [Sx.A "dep"; p; s; q; t] -> XFromDep (n_of_int (Sx.int p), set_of s, n_of_int (Sx.int q), set_of t)
  | [Sx.A "custom"; p; s] -> XCustom (n_of_int (Sx.int p), set_of s, N0)
  | _ -> failwith "external"

let terms_of_sx (x : Sx.t) : (n * RZ.range term) list =
  List.map (fun e -> match Sx.list e with
    | [p; Sx.L [Sx.A "p"; s]] -> (n_of_int (Sx.int p), Pos (set_of s))
    | [p; Sx.L [Sx.A "n"; s]] -> (n_of_int (Sx.int p), Neg (set_of s))
    | _ -> failwith "term") (Sx.list x)

let rec tree_of_sx (x : Sx.t) : (RZ.range, z) tree =
  match Sx.list x with
  | Sx.A "ext" :: l -> TExternal (ext_of_sx l)
  | [Sx.A "der"; sh; ts; c1; c2] ->
    TDerived (terms_of_sx ts,
              (match sh with Sx.A "none" -> None | Sx.A k -> Some (D_solver.nat_of_int (int_of_string k)) | _ -> failwith "shared"),
              tree_of_sx c1, tree_of_sx c2)
  | _ -> failwith "tree"

let ext_sx (e : (RZ.range, z) external0) : str = D_solver.tree_sx (TExternal e)

let step_sx (s : (RZ.range, z) step) : str =
  let i = D_solver.int_of_nat in
  let t = D_solver.terms_sx in
  let c = t s.s_concl in
  let body = match s.s_kind with
    | KBothExternal (a, b) -> sp "(both-ext %s %s %s)" (ext_sx a) (ext_sx b) c
    | KBothRef (r1, t1, r2, t2) -> sp "(both-ref %d %s %d %s %s)" (i r1) (t t1) (i r2) (t t2) c
    | KRefAndExternal (r, t1, e) -> sp "(ref-ext %d %s %s %s)" (i r) (t t1) (ext_sx e) c
    | KAndExternal e -> sp "(and-ext %s %s)" (ext_sx e) c
    | KAndRef (r, t1) -> sp "(and-ref %d %s %s)" (i r) (t t1) c
    | KAndPriorAndExternal (a, b) -> sp "(and-prior %s %s %s)" (ext_sx a) (ext_sx b) c
    | KBlank -> "blank"
    | KOnlyExternal e -> sp "(only-ext %s)" (ext_sx e) in
  sp "(s %s (%s))" body (String.concat " " (List.map (fun n -> string_of_int (i n)) s.s_nums))

let steps_sx (t : (RZ.range, z) tree) : str =
  match report_steps t with
  | RSteps l -> "(steps " ^ String.concat " " (List.map step_sx l) ^ ")"
  | ROutOfFuel -> "(steps out-of-fuel)"

let case_parts (c : Sx.t) =
  match Sx.list c with
  | [Sx.A dom; Sx.A src; world; tree] -> (dom, src, world, tree)
  | _ -> failwith "report: unknown case"

let eval (c : Sx.t) : str =
  let (dom, _, _, tree) = case_parts c in
  let t = tree_of_sx tree in
  match dom with
  | "report" -> steps_sx t ^ " (same 1)"
  | "collapse" ->
    (match collapse_no_versions RZ.range_vs t with
     | CPanic -> "(panic)"
     | CTree t' -> sp "(tree %s) %s" (D_solver.tree_sx t') (steps_sx t'))
  | _ -> failwith "report: unknown domain"

(* ---------------------------------------------------------------- oracles *)
open D_solver   (* oterm, parse_terms, leaf_terms, node_terms, term_true, seg_has2, bounds_of, has, versions, deps_of, parse_reg *)

type world =
  | WReg of int * int * registry         (* root package, root version, registry *)
  | WExcl of (int * RZ.range) list       (* per package: the versions that do not exist *)

let parse_world (w : Sx.t) : world =
  match Sx.list w with
  | [Sx.A "world"; Sx.L [Sx.A "root"; p; v]; reg] -> WReg (Sx.int p, Sx.int v, parse_reg reg)
  | [Sx.A "world"; Sx.L (Sx.A "excl" :: l)] ->
    WExcl (List.map (fun e -> match Sx.list e with [p; s] -> (Sx.int p, D_ranges.parse_segs s) | _ -> failwith "excl") l)
  | _ -> failwith "world"

let range_bounds (s : RZ.range) : int list =
  List.concat_map (fun (a, b) ->
    (match a with Incl x | Excl x -> [int_of_z x] | Unb -> []) @ (match b with Incl x | Excl x -> [int_of_z x] | Unb -> [])) s
let in2 (s : RZ.range) (x : int) = List.exists (fun sg -> seg_has2 sg x) s

(* the choices of package [p] (Some x on doubled coordinates, or None = not selected) given the bound values that
   occur in the terms under consideration; [restricted] = only versions that exist *)
let choices (w : world) (restricted : bool) (p : int) (bs : int list) : int option list =
  let cells bs = match List.sort_uniq compare bs with
    | [] -> [0]
    | bs -> List.sort_uniq compare (List.concat_map (fun b -> [2 * b - 1; 2 * b; 2 * b + 1]) bs) in
  if not restricted then None :: List.map (fun x -> Some x) (cells bs) else
  match w with
  | WReg (_, _, reg) -> None :: List.map (fun v -> Some (2 * v)) (versions reg p)
  | WExcl ex ->
    let gone = (match List.assoc_opt p ex with Some s -> s | None -> []) in
    None :: List.filter_map (fun x -> if in2 gone x then None else Some (Some x)) (cells (bs @ range_bounds gone))

exception Over
(* does every admissible assignment that makes all terms of [concl] true make all terms of some premise true?
   (an incompatibility "holds" when not all of its terms are true: the conclusion holds wherever all premises hold)
   None = search budget exhausted *)
let entails (w : world) (restricted : bool) (premises : oterm list list) (concl : oterm list) : bool option =
  let all = concl @ List.concat premises in
  let inconcl p = List.exists (fun (q, _, _) -> q = p) concl in
  let pk = List.sort_uniq compare (List.map (fun (p, _, _) -> p) all) in
  let pk = List.filter inconcl pk @ List.filter (fun p -> not (inconcl p)) pk in
  let ch = List.map (fun p -> (p, choices w restricted p (bounds_of (List.filter (fun (q, _, _) -> q = p) all)))) pk in
  let ok ts p c = List.for_all (fun ((q, _, _) as t) -> q <> p || term_true t c) ts in
  let budget = ref 0 in
  (* true = a counterexample exists below *)
  let rec go pk alive =
    incr budget; if !budget > 400000 then raise Over;
    match alive, pk with
    | [], _ -> List.for_all (fun p -> List.exists (fun c -> ok concl p c) (List.assoc p ch)) pk
    | _, [] -> false
    | _, p :: rest ->
      List.exists (fun c -> ok concl p c && go rest (List.filter (fun prem -> ok prem p c) alive)) (List.assoc p ch) in
  try Some (not (go pk premises)) with Over -> None

let is_ext (t : Sx.t) = match t with Sx.L (Sx.A "ext" :: _) -> true | _ -> false
let ext_kind (t : Sx.t) = match t with Sx.L (Sx.A "ext" :: Sx.A k :: _) -> k | _ -> ""
let ext_terms (e : Sx.t) : oterm list = match Sx.list e with Sx.A "ext" :: l -> leaf_terms l | _ -> failwith "ext"

let rec leaves (t : Sx.t) : Sx.t list =
  match Sx.list t with
  | Sx.A "ext" :: _ -> [t]
  | [Sx.A "der"; _; _; c1; c2] -> leaves c1 @ leaves c2
  | _ -> failwith "tree"

let rec derived_nodes (t : Sx.t) : (Sx.t * Sx.t * Sx.t) list =
  match Sx.list t with
  | Sx.A "ext" :: _ -> []
  | [Sx.A "der"; _; ts; c1; c2] -> (ts, c1, c2) :: derived_nodes c1 @ derived_nodes c2
  | _ -> failwith "tree"

(* every derived node follows from its two causes (on the admissible assignments) *)
let locally_entailed (w : world) (restricted : bool) (t : Sx.t) : bool =
  List.for_all (fun (ts, c1, c2) ->
    entails w restricted [node_terms c1; node_terms c2] (parse_terms ts) <> Some false) (derived_nodes t)

(* nodes carrying the same shared id are the same subtree (well-formedness of the DAG) *)
let shared_ids_consistent (t : Sx.t) : bool =
  let seen : (str, Sx.t) Hashtbl.t = Hashtbl.create 8 in
  let ok = ref true in
  let rec walk t =
    match Sx.list t with
    | [Sx.A "der"; sh; _; c1; c2] ->
      (match sh with
       | Sx.A "none" -> ()
       | Sx.A k -> (match Hashtbl.find_opt seen k with
           | Some other -> if other <> t then ok := false
           | None -> Hashtbl.add seen k t)
       | _ -> ());
      walk c1; walk c2
    | _ -> () in
  walk t; !ok

(* ---- C08 *)
type ostep = {
  kind : str;
  exts : Sx.t list;               (* external facts named in the line *)
  refs : (int * Sx.t) list;       (* (n) references with the terms they are said to stand for *)
  prev : bool;                    (* "And because": also uses the preceding line *)
  concl : Sx.t option;            (* current_terms; None for a blank line *)
  nums : int list;                (* " (n)" suffixes of the line *)
}

let parse_step (x : Sx.t) : ostep =
  match Sx.list x with
  | [Sx.A "s"; body; Sx.L nums] ->
    let nums = List.map Sx.int nums in
    (match body with
     | Sx.A "blank" -> { kind = "blank"; exts = []; refs = []; prev = false; concl = None; nums }
     | Sx.L [Sx.A "both-ext"; a; b; c] -> { kind = "both-ext"; exts = [a; b]; refs = []; prev = false; concl = Some c; nums }
     | Sx.L [Sx.A "both-ref"; r1; t1; r2; t2; c] -> { kind = "both-ref"; exts = []; refs = [(Sx.int r1, t1); (Sx.int r2, t2)]; prev = false; concl = Some c; nums }
     | Sx.L [Sx.A "ref-ext"; r; t; e; c] -> { kind = "ref-ext"; exts = [e]; refs = [(Sx.int r, t)]; prev = false; concl = Some c; nums }
     | Sx.L [Sx.A "and-ext"; e; c] -> { kind = "and-ext"; exts = [e]; refs = []; prev = true; concl = Some c; nums }
     | Sx.L [Sx.A "and-ref"; r; t; c] -> { kind = "and-ref"; exts = []; refs = [(Sx.int r, t)]; prev = true; concl = Some c; nums }
     | Sx.L [Sx.A "and-prior"; a; b; c] -> { kind = "and-prior"; exts = [a; b]; refs = []; prev = true; concl = Some c; nums }
     | Sx.L [Sx.A "only-ext"; e] -> { kind = "only-ext"; exts = [e]; refs = []; prev = false; concl = None; nums }
     | _ -> failwith "step body")
  | _ -> failwith "step"

let check_report (w : world) (restricted : bool) (tree : Sx.t) (steps : ostep list) : str option =
  let st = Array.of_list steps in
  let n = Array.length st in
  let problem = ref None in
  let fail s = if !problem = None then problem := Some s in
  (* numbers: at most one per line, 1..k in order of appearance *)
  Array.iteri (fun i s -> if List.length s.nums > 1 then fail (sp "line %d carries more than one number" (i + 1))) st;
  let all_nums = List.concat_map (fun s -> s.nums) steps in
  List.iteri (fun i k -> if k <> i + 1 then fail (sp "line numbers are not assigned consecutively from 1 (the %d-th number is %d)" (i + 1) k)) all_nums;
  (* references *)
  Array.iteri (fun i s ->
    List.iter (fun (r, t) ->
      let earlier = List.filter (fun j -> List.mem r st.(j).nums) (List.init i (fun j -> j)) in
      let total = List.length (List.filter (fun s' -> List.mem r s'.nums) steps) in
      (match earlier with
       | [j] ->
         if total <> 1 then fail (sp "number (%d) is carried by %d lines" r total);
         (match st.(j).concl with
          | Some c when c = t -> ()
          | _ -> fail (sp "line %d cites (%d) for terms that the line numbered (%d) does not conclude" (i + 1) r r))
       | [] -> fail (sp "line %d cites (%d) but no earlier line carries that number" (i + 1) r)
       | _ -> fail (sp "line %d cites (%d) which several earlier lines carry" (i + 1) r))) s.refs) st;
  (* each step is entailed by what it cites *)
  Array.iteri (fun i s ->
    match s.concl with
    | None -> ()
    | Some c ->
      let prev = if not s.prev then Some [] else
          if i = 0 then None else (match st.(i - 1).concl with Some pc -> Some [parse_terms pc] | None -> None) in
      (match prev with
       | None -> fail (sp "line %d is an 'And because' step but the preceding line concludes nothing" (i + 1))
       | Some prev ->
         let prem = List.map ext_terms s.exts @ List.map (fun (_, t) -> parse_terms t) s.refs @ prev in
         if entails w restricted prem (parse_terms c) = Some false
         then fail (sp "the conclusion of line %d (%s) is not entailed by the premises it cites" (i + 1) s.kind))) st;
  (* coverage of the external facts *)
  let cited = List.concat_map (fun s -> s.exts) steps in
  List.iter (fun l -> if not (List.mem l cited) then fail ("an external fact of the tree is cited by no line: " ^ Sx.to_string l)) (leaves tree);
  (* the last step concludes the top node *)
  (match Sx.list tree with
   | Sx.A "ext" :: _ ->
     (match steps with
      | [ { kind = "only-ext"; exts = [e]; nums = []; _ } ] when e = tree -> ()
      | _ -> fail "the report of a single external fact is not that fact")
   | [Sx.A "der"; _; ts; _; _] ->
     if n = 0 then fail "empty report" else
     (match st.(n - 1).concl with
      | Some c when c = ts -> ()
      | _ -> fail "the last line does not conclude the terms of the top node");
     Array.iter (fun s -> if s.kind = "only-ext" then fail "format_external line inside a derived report") st
   | _ -> fail "malformed tree");
  !problem

let parse_obs (rust : str) : Sx.t list = Sx.list (Sx.parse ("(" ^ rust ^ ")"))
let find_group (obs : Sx.t list) (name : str) : Sx.t list option =
  List.find_map (function Sx.L (Sx.A h :: r) when h = name -> Some r | _ -> None) obs

let oracle_report (src : str) (w : world) (tree : Sx.t) (rust : str) : (str * str) option =
  let obs = parse_obs rust in
  let post = (src = "solver-post" || src = "synth-post") in
  (* premise of the property: derived nodes follow from their causes (for collapsed trees: on existing versions).
     For trees of resolve this is C03's / C09's business; a synthetic tree violating it is a generator bug. *)
  if not (locally_entailed w post tree) then
    (if src = "synth" then Some ("?", "the synthetic tree is not locally entailed (generator defect)") else None)
  else if not (shared_ids_consistent tree) then
    (if src = "synth" then Some ("?", "a shared id labels two different subtrees (generator defect)") else None)
  else
  match find_group obs "steps", find_group obs "same" with
  | Some steps, Some [Sx.A same] ->
    if same <> "1" then Some ("C08", "report() / report_with_formatter(default) differ from the default formatter applied to the arguments and line numbers observed through report_with_formatter")
    else
      (match (try Ok (List.map parse_step steps) with _ -> Error ()) with
       | Error () -> Some ("C08", "a report line could not be decoded into a formatter call plus (n) suffixes")
       | Ok steps -> (match check_report w post tree steps with Some why -> Some ("C08", why) | None -> None))
  | _ -> Some ("C08", "malformed observation")

(* ---- C09 *)
let rec has_nv (t : Sx.t) = List.exists (fun l -> ext_kind l = "nov") (leaves t)

let nv_notroot_pair (t : Sx.t) =
  List.exists (fun (_, c1, c2) ->
    (ext_kind c1 = "nov" && ext_kind c2 = "notroot") || (ext_kind c1 = "notroot" && ext_kind c2 = "nov")) (derived_nodes t)

(* is the leaf true of the provider, looking at existing versions only? *)
let leaf_problem (w : world) (l : Sx.t) : str option =
  match w, Sx.list l with
  | WReg (rp, rv, _), [_; Sx.A "notroot"; p; v] ->
    if Sx.int p = rp && Sx.int v = rv then None else Some "a NotRoot leaf is not the requested root"
  | WReg (_, _, reg), [_; Sx.A "nov"; p; s] ->
    let p = Sx.int p and s = D_ranges.parse_segs s in
    if List.exists (has s) (versions reg p) then Some (sp "NoVersions leaf for %d but the provider has a version in the set" p) else None
  | WReg (_, _, reg), [_; Sx.A "custom"; p; s] ->
    let p = Sx.int p and s = D_ranges.parse_segs s in
    if List.for_all (fun v -> (not (has s v)) || deps_of reg p v = Some None) (versions reg p) then None
    else Some (sp "Custom leaf for %d covers an existing version whose dependencies are available" p)
  | WReg (_, _, reg), [_; Sx.A "dep"; p; vs; q; s] ->
    let p = Sx.int p and q = Sx.int q and vs = D_ranges.parse_segs vs and s = D_ranges.parse_segs s in
    List.find_map (fun v ->
      if not (has vs v) then None else
      match deps_of reg p v with
      | Some (Some ds) ->
        if List.exists (fun (q', s') -> q' = q && List.for_all (fun x -> has s' x = has s x) (versions reg q)) ds then None
        else Some (sp "dependency leaf: existing version %d@%d does not declare %d with that set (on existing versions)" p v q)
      | _ -> Some (sp "dependency leaf: existing version %d@%d has no available dependencies" p v)) (versions reg p)
  | WExcl ex, [_; Sx.A "nov"; p; s] ->
    let p = Sx.int p and s = D_ranges.parse_segs s in
    if List.for_all (fun c -> match c with None -> true | Some x -> not (in2 s x)) (choices w true p (range_bounds s)) then None
    else Some (sp "NoVersions leaf for %d contains a version that exists" p)
  | WExcl _, _ -> None
  | _ -> Some "unknown leaf"

(* hypothesis [related] of the Coq theorem collapse_preserves_validity_on_existing: a NoVersions(p) cause whose
   sibling collapses to a dependency leaf p1 -> p2 is about p1 or p2 *)
let rec collapses_to_dep (t : Sx.t) : (int * int) option =
  match Sx.list t with
  | [Sx.A "ext"; Sx.A "dep"; p; _; q; _] -> Some (Sx.int p, Sx.int q)
  | [Sx.A "der"; _; _; c1; c2] ->
    if ext_kind c1 = "nov" then collapses_to_dep c2
    else if ext_kind c2 = "nov" then collapses_to_dep c1 else None
  | _ -> None
let related (t : Sx.t) : bool =
  let nv_pkg c = match Sx.list c with [_; Sx.A "nov"; p; _] -> Some (Sx.int p) | _ -> None in
  List.for_all (fun (_, c1, c2) ->
    let ok a b = match nv_pkg a, collapses_to_dep b with Some p, Some (p1, p2) -> p = p1 || p = p2 | _ -> true in
    ok c1 c2 && ok c2 c1) (derived_nodes t)

let oracle_collapse (src : str) (w : world) (tree : Sx.t) (rust : str) : (str * str) option =
  let obs = parse_obs rust in
  let fail s = Some ("C09", s) in
  match obs with
  | [Sx.L [Sx.A "panic"]] ->
    if src = "solver" then fail "collapse_no_versions panics on a tree produced by resolve"
    else if nv_notroot_pair tree then None
    else fail "collapse_no_versions panics on a tree without a (NoVersions, NotRoot) pair of causes"
  | _ ->
    (match find_group obs "tree" with
     | Some [t'] ->
       if not (locally_entailed w false tree) then
         (if src = "synth" then Some ("?", "the synthetic tree is not locally entailed (generator defect)") else None)
       else
       let first = List.find_map (fun f -> f ()) in
       first [
         (fun () -> if not (related tree) then Some ("?", "hypothesis `related` of the Coq theorem fails: a NoVersions cause is about neither package of the dependency leaf next to it") else None);
         (fun () -> if (not (has_nv tree)) && t' <> tree then fail "a tree without NoVersions leaves was changed" else None);
         (fun () ->
            if List.exists (fun (_, c1, c2) ->
                let next_ok o = ext_kind o = "nov" || ext_kind o = "custom" in
                (ext_kind c1 = "nov" && not (next_ok c2)) || (ext_kind c2 = "nov" && not (next_ok c1))) (derived_nodes t')
            then fail "a NoVersions leaf survives next to something that is neither NoVersions nor Custom" else None);
         (fun () ->
            if List.exists (fun (ts, c1, c2) ->
                entails w true [node_terms c1; node_terms c2] (parse_terms ts) = Some false) (derived_nodes t')
            then fail "after collapse a derived node is not entailed by its causes on existing versions" else None);
         (fun () ->
            (* leaves: only blame collapse for leaves that were fine before *)
            if List.exists (fun l -> leaf_problem w l <> None) (leaves tree) then None else
            (match List.find_map (leaf_problem w) (leaves t') with Some p -> fail ("after collapse: " ^ p) | None -> None));
         (fun () ->
            let a = node_terms tree and b = node_terms t' in
            (* whatever the original top node forbids, the new top node forbids (on existing versions) *)
            if entails w true [b] a = Some false
            then fail "the top node of the collapsed tree forbids less than the original top node on existing versions" else None);
         (fun () ->
            match w with
            | WReg (rp, rv, _) ->
              let forbids ts = List.for_all (fun ((p, _, _) as tm) ->
                if p = rp then term_true tm (Some (2 * rv))
                else List.for_all (fun c -> term_true tm c) (choices w true p (bounds_of [tm]))) ts in
              if forbids (node_terms tree) && not (forbids (node_terms t'))
              then fail "the top node of the collapsed tree does not forbid the root" else None
            | WExcl _ -> None);
       ]
     | _ -> fail "malformed observation")

let oracle (c : Sx.t) (rust : str) : (str * str) option =
  let (dom, src, world, tree) = case_parts c in
  let w = parse_world world in
  match dom with
  | "report" -> oracle_report src w tree rust
  | "collapse" -> oracle_collapse src w tree rust
  | _ -> None
