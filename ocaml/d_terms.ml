(* C11 / C17: terms over Range and over the bitset VersionSet; provided VersionSet methods *)
open Model
open Conv

type str = Stdlib.String.t
let b01 b = if b then "1" else "0"

(* ---- terms over ranges ---- *)
let rterm_sx (t : RZ.range term) : str =
  match t with Pos r -> "(p " ^ D_ranges.segs_sx r ^ ")" | Neg r -> "(n " ^ D_ranges.segs_sx r ^ ")"
let rmk sign tree segs : RZ.range term =
  let r = D_ranges.build tree (D_ranges.parse_segs segs) in
  if sign = "p" then Pos r else Neg r
let rel_s = function Satisfied -> "0" | Contradicted -> "1" | Inconclusive -> "2"
let ovs = RZ.range_vs
let rbits t k = "b" ^ String.concat "" (List.map (fun p -> b01 (t_contains ovs t (z_of_int p))) (D_ranges.probes k))

(* ---- terms over the bitset ---- *)
let bvs = bitset_vs
let bterm_sx (t : n term) : str = match t with Pos m -> Printf.sprintf "(p %d)" (int_of_n m) | Neg m -> Printf.sprintf "(n %d)" (int_of_n m)
let bmk sign m : n term = if sign = "p" then Pos (n_of_int m) else Neg (n_of_int m)

let eval (c : Sx.t) : str =
  match Sx.list c with
  | [Sx.A "t2"; k; Sx.A sa; ta; ga; Sx.A sb; tb; gb] ->
    let k = Sx.int k in
    let a = rmk sa (Sx.int ta) ga and b = rmk sb (Sx.int tb) gb in
    Printf.sprintf "(neg %s) (inter %s) (union %s) (sub %s) (dj %s) (rel %s) (ca %s) (cb %s) (eq %s)"
      (rterm_sx (t_negate a)) (rterm_sx (t_intersection ovs a b)) (rterm_sx (t_union ovs a b))
      (b01 (t_subset_of ovs a b)) (b01 (t_is_disjoint ovs a b)) (rel_s (t_relation_with ovs a b))
      (rbits a k) (rbits b k) (b01 (t_eqb ovs a b))
  | [Sx.A "tc"] ->
    Printf.sprintf "(any %s) (empty %s) (exact %s)" (rterm_sx (t_any ovs)) (rterm_sx (t_empty ovs)) (rterm_sx (t_exact ovs (z_of_int 10)))
  | [Sx.A "b2"; a; b] ->
    let a = n_of_int (Sx.int a) and b = n_of_int (Sx.int b) in
    let ca = "b" ^ String.concat "" (List.init 8 (fun v -> b01 (bvs.vs_contains a (v8_of_N (n_of_int v))))) in
    Printf.sprintf "(full %d) (union %d) (dj %s) (ss %s) (compl %d) (inter %d) (ca %s) (eq %s)"
      (int_of_n bvs.vs_full) (int_of_n (bvs.vs_union a b)) (b01 (bvs.vs_is_disjoint a b)) (b01 (bvs.vs_subset_of a b))
      (int_of_n (bvs.vs_complement a)) (int_of_n (bvs.vs_intersection a b)) ca (b01 (bvs.vs_eqb a b))
  | [Sx.A "bs"; v] ->
    Printf.sprintf "(single %d) (empty %d)" (int_of_n (bvs.vs_singleton (v8_of_N (n_of_int (Sx.int v))))) (int_of_n bvs.vs_empty)
  | [Sx.A "bt2"; Sx.A sa; a; Sx.A sb; b] ->
    let a = bmk sa (Sx.int a) and b = bmk sb (Sx.int b) in
    Printf.sprintf "(neg %s) (inter %s) (union %s) (sub %s) (dj %s) (rel %s)"
      (bterm_sx (t_negate a)) (bterm_sx (t_intersection bvs a b)) (bterm_sx (t_union bvs a b))
      (b01 (t_subset_of bvs a b)) (b01 (t_is_disjoint bvs a b)) (rel_s (t_relation_with bvs a b))
  | _ -> failwith "terms: unknown case"

(* ---- oracles: evaluate the terms on every concrete choice, independently of the model ---- *)
(* a term is (positive?, membership predicate on versions); choices: each version of the list, or None *)
let tden (pos, memf) (c : int option) : bool =
  match c with
  | Some v -> if pos then memf v else not (memf v)
  | None -> not pos

let seg_term (s : Sx.t) : bool * (int -> bool) =
  match Sx.list s with
  | [Sx.A sign; segs] -> let sg = D_ranges.parse_segs segs in (sign = "p", fun v -> List.exists (fun x -> D_ranges.seg_has x v) sg)
  | _ -> failwith "term"
let bit_term (s : Sx.t) : bool * (int -> bool) =
  match Sx.list s with
  | [Sx.A sign; m] -> let m = Sx.int m in (sign = "p", fun v -> (m lsr v) land 1 = 1)
  | _ -> failwith "bterm"

let check_terms prop (a : bool * (int -> bool)) b (choices : int option list) parse_t (obs : Sx.t list) : (str * str) option =
  let fld = D_ranges.field obs in
  let all f = List.for_all f choices in
  let neg = parse_t (fld "neg") and inter = parse_t (fld "inter") and uni = parse_t (fld "union") in
  let sub = Sx.int (fld "sub") = 1 and dj = Sx.int (fld "dj") = 1 and rel = Sx.int (fld "rel") in
  let sat = all (fun c -> not (tden b c) || tden a c) in
  let disj = all (fun c -> not (tden a c && tden b c)) in
  if not (all (fun c -> tden neg c = not (tden a c))) then Some (prop, "negate is not the pointwise negation")
  else if not (all (fun c -> tden inter c = (tden a c && tden b c))) then Some (prop, "intersection is not the pointwise conjunction")
  else if not (all (fun c -> tden uni c = (tden a c || tden b c))) then Some (prop, "union is not the pointwise disjunction")
  else if sub <> all (fun c -> not (tden a c) || tden b c) then Some (prop, "subset_of disagrees with evaluation on every choice")
  else if dj <> disj then Some (prop, "is_disjoint disagrees with evaluation on every choice")
  else if rel <> (if sat then 0 else if disj then 1 else 2) then Some (prop, "relation_with disagrees with evaluation on every choice")
  else None

let oracle (c : Sx.t) (rust : str) : (str * str) option =
  if rust = "panic" then Some ("C11", "panic in a term operation") else
  let obs = Sx.list (Sx.parse ("(" ^ rust ^ ")")) in
  match Sx.list c with
  | [Sx.A "t2"; k; Sx.A sa; _; ga; Sx.A sb; _; gb] ->
    let k = Sx.int k in
    let a = seg_term (Sx.L [Sx.A sa; ga]) and b = seg_term (Sx.L [Sx.A sb; gb]) in
    let choices = None :: List.map (fun p -> Some p) (D_ranges.probes k) in
    let want_ca = "b" ^ String.concat "" (List.map (fun p -> b01 (tden a (Some p))) (D_ranges.probes k)) in
    if Sx.atom (D_ranges.field obs "ca") <> want_ca then Some ("C11", "contains disagrees with the meaning of the term")
    else check_terms "C11" a b choices seg_term obs
  | [Sx.A "tc"] ->
    let any = seg_term (D_ranges.field obs "any") and emp = seg_term (D_ranges.field obs "empty") in
    let choices = None :: List.map (fun p -> Some p) (D_ranges.probes 3) in
    if List.for_all (fun c -> tden any c && not (tden emp c)) choices then None
    else Some ("C11", "any / empty are not always-true / never-true")
  | [Sx.A "b2"; a; b] ->
    let a = Sx.int a and b = Sx.int b in
    let f n = Sx.int (D_ranges.field obs n) in
    if f "full" <> 255 then Some ("C17", "default full() is not the universe")
    else if f "union" <> (a lor b) then Some ("C17", "default union is not the set union")
    else if (f "dj" = 1) <> (a land b = 0) then Some ("C17", "default is_disjoint is not emptiness of the intersection")
    else if (f "ss" = 1) <> (a land (lnot b) land 255 = 0) then Some ("C17", "default subset_of is not inclusion")
    else None
  | [Sx.A "bt2"; Sx.A sa; a; Sx.A sb; b] ->
    let ta = bit_term (Sx.L [Sx.A sa; a]) and tb = bit_term (Sx.L [Sx.A sb; b]) in
    let choices = None :: List.init 8 (fun v -> Some v) in
    check_terms "C11" ta tb choices bit_term obs
  | _ -> None
