(* Solver correspondence: replays the recorded provider trace through the extracted model
   (Model/Solver.v) and evaluates the property oracles of C01..C07, C12..C14 on the implementation's
   observations. *)
open Model
open Conv

type str = Stdlib.String.t
let sp = Printf.sprintf

let rec nat_of_int i = if i <= 0 then O else S (nat_of_int (i - 1))
let rec int_of_nat = function O -> 0 | S n -> 1 + int_of_nat n
let fuel = nat_of_int 30000

(* ---------------------------------------------------------------- parsing *)
type deps = (int * RZ.range) list option
type registry = (int * (int * deps) list) list

let set_of (x : Sx.t) : RZ.range = D_ranges.build 0 (D_ranges.parse_segs x)

let parse_reg (x : Sx.t) : registry =
  match Sx.list x with
  | Sx.A "reg" :: pk ->
    List.map (fun p -> match Sx.list p with
      | pid :: vs -> (Sx.int pid, List.map (fun v -> match Sx.list v with
          | [vn; Sx.A "u"] -> (Sx.int vn, None)
          | [vn; ds] -> (Sx.int vn, Some (List.map (fun d -> match Sx.list d with
              | [q; s] -> (Sx.int q, set_of s) | _ -> failwith "dep") (Sx.list ds)))
          | _ -> failwith "ver") vs)
      | _ -> failwith "pkg") pk
  | _ -> failwith "reg"

type ev =
  | Cancel of bool
  | Prio of int * RZ.range * int
  | Choose of int * RZ.range * int option option   (* Some (Some v) | Some None | None = err *)
  | Deps of int * int * (int * RZ.range) list option option  (* Some (Some ds) avail | Some None unavail | None err *)

let parse_ev (e : Sx.t) : ev =
  match Sx.list e with
  | [Sx.A "c"; ok] -> Cancel (Sx.int ok = 1)
  | [Sx.A "pr"; p; s; pr] -> Prio (Sx.int p, set_of s, Sx.int pr)
  | [Sx.A "ch"; p; s; a] ->
    Choose (Sx.int p, set_of s, (match a with
      | Sx.A "none" -> Some None | Sx.A _ -> None
      | Sx.L [_; v] -> Some (Some (Sx.int v)) | _ -> failwith "choose"))
  | [Sx.A "d"; p; v; a] ->
    Deps (Sx.int p, Sx.int v, (match a with
      | Sx.A _ -> None
      | Sx.L [Sx.A "unavail"; _] -> Some None
      | Sx.L [Sx.A "avail"; ds] -> Some (Some (List.map (fun d -> match Sx.list d with
          | [q; s] -> (Sx.int q, set_of s) | _ -> failwith "dep") (Sx.list ds)))
      | _ -> failwith "deps"))
  | _ -> failwith "event"

let model_ev (e : ev) : (RZ.range, z) event =
  match e with
  | Cancel ok -> EvCancel ok
  | Prio (p, s, pr) -> EvPrioritize (n_of_int p, s, z_of_int pr)
  | Choose (p, s, a) -> EvChoose (n_of_int p, s, (match a with Some (Some v) -> CSome (z_of_int v) | Some None -> CNone | None -> CErr))
  | Deps (p, v, a) -> EvDeps (n_of_int p, z_of_int v, (match a with
      | Some (Some ds) -> DAvail (List.map (fun (q, s) -> (n_of_int q, s)) ds)
      | Some None -> DUnavail N0 | None -> DErr))

(* ---------------------------------------------------------------- printing (same syntax as harness/src/solver.rs) *)
let term_sx (t : RZ.range term) : str = match t with Pos r -> "(p " ^ D_ranges.segs_sx r ^ ")" | Neg r -> "(n " ^ D_ranges.segs_sx r ^ ")"
let terms_sx (ts : (n * RZ.range term) list) : str =
  let l = List.sort compare (List.map (fun (p, t) -> (int_of_n p, term_sx t)) ts) in
  "(" ^ String.concat " " (List.map (fun (p, t) -> sp "(%d %s)" p t) l) ^ ")"
let rec tree_sx (t : (RZ.range, z) tree) : str =
  match t with
  | TExternal (XNotRoot (p, v)) -> sp "(ext notroot %d %d)" (int_of_n p) (int_of_z v)
  | TExternal (XNoVersions (p, s)) -> sp "(ext nov %d %s)" (int_of_n p) (D_ranges.segs_sx s)
  | TExternal (XFromDep (p, s, q, t)) -> sp "(ext dep %d %s %d %s)" (int_of_n p) (D_ranges.segs_sx s) (int_of_n q) (D_ranges.segs_sx t)
  | TExternal (XCustom (p, s, _)) -> sp "(ext custom %d %s)" (int_of_n p) (D_ranges.segs_sx s)
  | TDerived (ts, sh, c1, c2) ->
    sp "(der %s %s %s %s)" (match sh with Some i -> string_of_int (int_of_nat i) | None -> "none") (terms_sx ts) (tree_sx c1) (tree_sx c2)

let outcome_sx (o : (RZ.range, z) outcome) : str =
  match o with
  | OSolution sol ->
    let l = List.sort compare (List.map (fun (p, v) -> (int_of_n p, int_of_z v)) sol) in
    "(ok (" ^ String.concat " " (List.map (fun (p, v) -> sp "(%d %d)" p v) l) ^ "))"
  | ONoSolution t -> "(nosol " ^ tree_sx t ^ ")"
  | OErrCancel -> "(errcancel)"
  | OErrChoose -> "(errchoose)"
  | OErrDeps (p, v) -> sp "(errdeps %d %d)" (int_of_n p) (int_of_z v)
  | OFailure FNoTerm -> "(failure 0)"
  | OFailure FIncompatibleVersion -> "(failure 1)"
  | OPanic _ -> "(panic)"
  | OOutOfFuel -> "(outoffuel)"
  | OMismatch (n, why) -> sp "(model-trace-mismatch %d %d)" (int_of_nat n) (int_of_n why)
  | OPickNotMax (n, p) -> sp "(pick-not-max %d %d)" (int_of_nat n) (int_of_n p)

type case = { reg : registry; rootp : int; rootv : int; trace : ev list; extra : Sx.t list }

let parse_case (c : Sx.t) : case =
  match Sx.list c with
  | Sx.A "solve" :: _names :: reg :: Sx.L [Sx.A "root"; rp; rv] :: Sx.L (Sx.A "trace" :: evs) :: extra ->
    { reg = parse_reg reg; rootp = Sx.int rp; rootv = Sx.int rv; trace = List.map parse_ev evs; extra }
  | _ -> failwith "solver: unknown case"

(* The model is run with the exact priority queue (resolve_h, Model/Heap.v).  When the package the
   implementation picked is not the one the modelled heap pops (outcome OMismatch (_, 6)) the run is
   repeated with the queue as a map (resolve: any package of maximal priority is accepted) so that the
   other fields stay comparable; the disagreement is reported in the (heap ...) field (C07, C14). *)
(* The GENERATING model (Proofs/SolverGen.v, resolve_g): when the harness's strategy is a pure function of (package, set)
   - newest / oldest version x static / count / count-then priorities, recorded in the case as (strat ...) - the typed
   provider is rebuilt from the registry and that strategy (the iteration order of a dependency map is taken from the
   recorded answer) and resolve_g, given nothing but the provider, must produce the whole recorded call trace and the
   same outcome.  Field (gen ok) / (gen differs first-difference generated-length recorded-length). *)
let gen_field (c : case) (tr : (RZ.range, z) event list) (o_h : (RZ.range, z) outcome) : str =
  let strat = List.find_map (function Sx.L [Sx.A "strat"; Sx.A ch; pr] -> Some (ch, pr) | _ -> None) c.extra in
  match strat with
  | None -> "(gen ok)"
  | Some _ when List.mem (EvCancel false) tr -> "(gen ok)"
  | Some (ch, pr) ->
    let versions p = match List.assoc_opt p c.reg with Some vs -> List.sort compare (List.map fst vs) | None -> [] in
    let inside p (s : RZ.range) =
      List.filter (fun v -> List.exists (fun sg -> D_ranges.seg_has sg v) s) (versions (int_of_n p)) in
    let prio p s = match pr with
      | Sx.L (Sx.A "static" :: vs) -> (match List.nth_opt vs (int_of_n p) with Some x -> Sx.int x | None -> 0)
      | Sx.L [Sx.A "count"] -> - (List.length (inside p s))
      | Sx.L [Sx.A "countthen"; b] ->
        let n = List.length (inside p s) in (if Sx.int b = 1 then n else - n) * 64 + int_of_n p
      | _ -> failwith "strat" in
    let pg = {
      p_cancel = (fun _ -> true);
      p_prio = (fun _ p s -> z_of_int (prio p s));
      p_choose = (fun _ p s -> match inside p s with
        | [] -> CNone
        | l -> CSome (z_of_int (if ch = "newest" then List.nth l (List.length l - 1) else List.hd l)));
      p_deps = (fun _ p v ->
        match List.find_map (function EvDeps (p', v', a) when p' = p && v' = v -> Some a | _ -> None) tr with
        | Some a -> a
        | None -> (match List.assoc_opt (int_of_n p) c.reg with
            | Some vs -> (match List.assoc_opt (int_of_z v) vs with
                | Some (Some ds) -> DAvail (List.map (fun (q, s) -> (n_of_int q, s)) ds)
                | _ -> DUnavail N0)
            | None -> DUnavail N0)) } in
    let ((((o, _), _), _), gtr) = resolve_g RZ.range_vs Z.eqb pg fuel (n_of_int c.rootp) (z_of_int c.rootv) in
    if gtr = tr && outcome_sx o = outcome_sx o_h then "(gen ok)"
    else begin
      let rec first_diff i a b = match a, b with
        | x :: a', y :: b' -> if x = y then first_diff (i + 1) a' b' else i
        | _, _ -> i in
      sp "(gen differs %d %d %d)" (first_diff 0 gtr tr) (List.length gtr) (List.length tr)
    end

let run_model (c : case) =
  let tr = List.map model_ev c.trace in
  let r = resolve_h RZ.range_vs Z.eqb fuel (n_of_int c.rootp) (z_of_int c.rootv) tr in
  match r with
  | (((OMismatch (n, w), _), _), _) when int_of_n w = 6 ->
    let r' = resolve RZ.range_vs Z.eqb fuel (n_of_int c.rootp) (z_of_int c.rootv) tr in
    let (((o, _), _), _) = r' in
    (r', sp "(heap pick-differs %d) %s" (int_of_nat n) (gen_field c tr o))
  | (((o, _), _), _) -> (r, "(heap ok) " ^ gen_field c tr o)

(* memo of the last case so that eval and oracle share one model run *)
let last : (Sx.t * ((RZ.range, z) outcome * (RZ.range, z) state * (((n * RZ.range) list * (n * (z * RZ.range)) list) * nat) list)) option ref = ref None
let last_heap : str ref = ref "(heap ok)"
(* measured for the evidence: decision points, and decision points at which two or more queued packages share
   the maximal priority (there the heap model, not the priority, determines the pick) *)
let stat_picks = ref 0
let stat_tie_picks = ref 0
let count_ties log =
  List.iter (fun ((_, q), _) ->
    match q with
    | [] -> ()
    | _ ->
      incr stat_picks;
      let mx = List.fold_left (fun m (_, (z, _)) -> max m (int_of_z z)) min_int q in
      if List.length (List.filter (fun (_, (z, _)) -> int_of_z z = mx) q) >= 2 then incr stat_tie_picks) log
let model_of (cs : Sx.t) (c : case) =
  match !last with
  | Some (k, r) when k == cs -> r
  | _ -> let ((((o, st), log), _consumed), hp) = run_model c in let r = (o, st, log) in last := Some (cs, r); last_heap := hp; count_ties log; r

let store_sx (st : (RZ.range, z) state) : str =
  let entry (i : (RZ.range, z) incompat) =
    let (kind, causes) = match i.ikind with
      | KNotRoot _ -> ("notroot", "none") | KNoVersions _ -> ("nov", "none") | KFromDep _ -> ("dep", "none")
      | KDerived (a, b) -> ("der", sp "(%d %d)" (int_of_nat a) (int_of_nat b)) | KCustom _ -> ("custom", "none") in
    sp "(%s %s %s)" kind causes (terms_sx i.terms) in
  "(store " ^ String.concat " " (List.map entry st.store) ^ ")"

let eval (cs : Sx.t) : str =
  let c = parse_case cs in
  let (o, st, _) = model_of cs c in
  sp "(res %s) %s (creason 1) %s" (outcome_sx o) (store_sx st) !last_heap

(* ---------------------------------------------------------------- oracles *)
let has (s : RZ.range) (v : int) = List.exists (fun sg -> D_ranges.seg_has sg v) s
let versions reg p = match List.assoc_opt p reg with Some vs -> List.map fst vs | None -> []
let deps_of reg p v : deps option = match List.assoc_opt p reg with Some vs -> List.assoc_opt v vs | None -> None

let parse_solution (obs : Sx.t) : (int * int) list =
  match obs with
  | Sx.L [Sx.A "ok"; Sx.L l] -> List.map (fun e -> match Sx.list e with [p; v] -> (Sx.int p, Sx.int v) | _ -> failwith "sol") l
  | _ -> failwith "solution"

(* C01 *)
let check_solution (c : case) (sol : (int * int) list) : str option =
  if List.assoc_opt c.rootp sol <> Some c.rootv then Some "root is not selected at the requested version" else
  let bad = List.find_map (fun (p, v) ->
    match deps_of c.reg p v with
    | None -> Some (sp "selected %d@%d is not a version the provider offers" p v)
    | Some None -> Some (sp "selected %d@%d has unavailable dependencies" p v)
    | Some (Some ds) ->
      if not (List.exists (function Choose (p', _, Some (Some v')) -> p' = p && v' = v | _ -> false) c.trace)
      then Some (sp "selected %d@%d was never returned by choose_version" p v) else
      List.find_map (fun (q, s) ->
        match List.assoc_opt q sol with
        | None -> Some (sp "%d@%d depends on %d but it is not selected" p v q)
        | Some w -> if has s w then None else Some (sp "%d@%d depends on %d in a set that does not contain the selected %d" p v q w)) ds) sol in
  bad

(* C04 *)
let check_reachable (c : case) (sol : (int * int) list) : str option =
  let rec go seen = function
    | [] -> seen
    | p :: rest ->
      if List.mem p seen then go seen rest else
      let next = match List.assoc_opt p sol with
        | Some v -> (match deps_of c.reg p v with Some (Some ds) -> List.map fst ds | _ -> [])
        | None -> [] in
      go (p :: seen) (next @ rest) in
  let reach = go [] [c.rootp] in
  match List.find_opt (fun (p, _) -> not (List.mem p reach)) sol with
  | Some (p, v) -> Some (sp "package %d@%d is in the solution but not reachable from the root" p v)
  | None -> None

(* C02: complete search for a solution containing root@rootv *)
exception Budget
let exists_solution (c : case) : bool option =
  let steps = ref 0 in
  let rec solve (asg : (int * int) list) (pending : (int * RZ.range) list) : bool =
    incr steps; if !steps > 300000 then raise Budget;
    match pending with
    | [] -> true
    | (q, s) :: rest ->
      (match List.assoc_opt q asg with
       | Some w -> has s w && solve asg rest
       | None ->
         List.exists (fun w ->
           has s w && (match deps_of c.reg q w with
             | Some (Some ds) -> solve ((q, w) :: asg) (ds @ rest)
             | _ -> false)) (versions c.reg q)) in
  try Some (solve [] [(c.rootp, [(Incl (z_of_int c.rootv), Incl (z_of_int c.rootv))])]) with Budget -> None

(* all solutions (complete enumeration), for C06 *)
let all_solutions (c : case) : (int * int) list list option =
  let pk = List.map fst c.reg in
  let size = List.fold_left (fun a p -> a * (1 + List.length (versions c.reg p))) 1 pk in
  if size > 20000 then None else
  let rec asgs = function
    | [] -> [[]]
    | p :: r -> let tl = asgs r in
      List.concat_map (fun a -> a :: List.map (fun v -> (p, v) :: a) (versions c.reg p)) tl in
  let is_sol a =
    List.assoc_opt c.rootp a = Some c.rootv
    && List.for_all (fun (p, v) -> match deps_of c.reg p v with
        | Some (Some ds) -> List.for_all (fun (q, s) -> match List.assoc_opt q a with Some w -> has s w | None -> false) ds
        | _ -> false) a in
  Some (List.filter is_sol (asgs pk))

(* terms as (pkg, positive?, set) on doubled coordinates: 2v = the version v, odd = between versions *)
type oterm = int * bool * RZ.range
let seg_has2 (s, e) x =
  (match s with Incl a -> 2 * int_of_z a <= x | Excl a -> 2 * int_of_z a < x | Unb -> true)
  && (match e with Incl b -> x <= 2 * int_of_z b | Excl b -> x < 2 * int_of_z b | Unb -> true)
let term_true ((_, pos, s) : oterm) (ch : int option) =
  match ch with
  | Some x -> let m = List.exists (fun sg -> seg_has2 sg x) s in if pos then m else not m
  | None -> not pos
let parse_term (x : Sx.t) : bool * RZ.range =
  match Sx.list x with [Sx.A sign; segs] -> (sign = "p", D_ranges.parse_segs segs) | _ -> failwith "term"
let parse_terms (x : Sx.t) : oterm list =
  List.map (fun e -> match Sx.list e with [p; t] -> let (s, r) = parse_term t in (Sx.int p, s, r) | _ -> failwith "terms") (Sx.list x)

let empty_range : RZ.range = []
let full_range : RZ.range = [(Unb, Unb)]
(* the terms an external leaf stands for (independent re-statement of the constructors) *)
let leaf_terms (l : Sx.t list) : oterm list =
  match l with
  | [Sx.A "notroot"; p; v] -> [(Sx.int p, false, [(Incl (z_of_int (Sx.int v)), Incl (z_of_int (Sx.int v)))])]
  | [Sx.A "nov"; p; s] -> [(Sx.int p, true, D_ranges.parse_segs s)]
  | [Sx.A "custom"; p; s] -> [(Sx.int p, true, D_ranges.parse_segs s)]
  | [Sx.A "dep"; p; vs; q; s] ->
    let p = Sx.int p and q = Sx.int q and vs = D_ranges.parse_segs vs and s = D_ranges.parse_segs s in
    if s = empty_range then [(p, true, vs)]
    else if p = q then [(p, true, RZ.intersection vs (RZ.complement s))]
    else [(p, true, vs); (q, false, s)]
  | _ -> failwith "leaf"

let rec node_terms (t : Sx.t) : oterm list =
  match Sx.list t with
  | Sx.A "ext" :: l -> leaf_terms l
  | [Sx.A "der"; _; ts; _; _] -> parse_terms ts
  | _ -> failwith "node"

let bounds_of (ts : oterm list) : int list =
  List.concat_map (fun (_, _, s) -> List.concat_map (fun (a, b) ->
    (match a with Incl x | Excl x -> [int_of_z x] | Unb -> []) @ (match b with Incl x | Excl x -> [int_of_z x] | Unb -> [])) s) ts

(* does every assignment making all of [n] true make all of c1 or all of c2 true? *)
let entailed (n : oterm list) (c1 : oterm list) (c2 : oterm list) : bool =
  let all = n @ c1 @ c2 in
  let pk = List.sort_uniq compare (List.map (fun (p, _, _) -> p) all) in
  let bs = List.sort_uniq compare (bounds_of all) in
  let pts = None :: List.map (fun x -> Some x)
      (match bs with [] -> [0] | _ -> List.sort_uniq compare (List.concat_map (fun b -> [2 * b - 1; 2 * b; 2 * b + 1]) bs)) in
  let sat a ts = List.for_all (fun ((p, _, _) as t) -> term_true t (List.assoc p a)) ts in
  let rec go a = function
    | [] -> (not (sat a n)) || sat a c1 || sat a c2
    | p :: r -> List.for_all (fun ch -> go ((p, ch) :: a) r) pts in
  if List.length pk > 6 then true (* too large to enumerate: left to the model comparison *) else go [] pk

let check_tree (c : case) (t : Sx.t) : str option =
  let problems = ref [] in
  let add s = problems := s :: !problems in
  let occurrences : (int, str) Hashtbl.t = Hashtbl.create 8 in
  let counts : (int, int) Hashtbl.t = Hashtbl.create 8 in
  let rec walk (t : Sx.t) =
    match Sx.list t with
    | Sx.A "ext" :: l ->
      (match l with
       | [Sx.A "notroot"; p; v] -> if Sx.int p <> c.rootp || Sx.int v <> c.rootv then add "NotRoot leaf is not the requested root"
       | [Sx.A "nov"; p; s] ->
         let p = Sx.int p and s = D_ranges.parse_segs s in
         if List.exists (fun v -> has s v) (versions c.reg p) then add (sp "NoVersions leaf for %d but the provider has a version in the set" p);
         if not (List.exists (function Choose (p', s', Some None) -> p' = p && s' = s | _ -> false) c.trace)
         then add (sp "NoVersions leaf for %d with a set the provider was never asked about" p)
       | [Sx.A "custom"; p; s] ->
         let p = Sx.int p and s = D_ranges.parse_segs s in
         if not (List.exists (fun v -> has s v && deps_of c.reg p v = Some None) (versions c.reg p)
                 && List.for_all (fun v -> (not (has s v)) || deps_of c.reg p v = Some None) (versions c.reg p))
         then add (sp "Custom (unavailable) leaf for %d does not match the provider" p)
       | [Sx.A "dep"; p; vs; q; s] ->
         let p = Sx.int p and q = Sx.int q and vs = D_ranges.parse_segs vs and s = D_ranges.parse_segs s in
         let members = List.filter (has vs) (versions c.reg p) in
         if members = [] then add (sp "dependency leaf of %d names no existing version" p);
         List.iter (fun v -> match deps_of c.reg p v with
           | Some (Some ds) -> if not (List.exists (fun (q', s') -> q' = q && s' = s) ds)
             then add (sp "dependency leaf: %d@%d does not declare %d with exactly that set" p v q)
           | _ -> add (sp "dependency leaf: %d@%d has no available dependencies" p v)) members
       | _ -> add "unknown leaf")
    | [Sx.A "der"; sh; ts; c1; c2] ->
      (match sh with
       | Sx.A "none" -> ()
       | Sx.A k -> let k = int_of_string k in
         let txt = Sx.to_string t in
         (match Hashtbl.find_opt occurrences k with
          | Some other -> if other <> txt then add (sp "shared id %d labels two different subtrees" k)
          | None -> Hashtbl.add occurrences k txt);
         Hashtbl.replace counts k (1 + (try Hashtbl.find counts k with Not_found -> 0))
       | _ -> ());
      if not (entailed (parse_terms ts) (node_terms c1) (node_terms c2)) then add "a derived node is not entailed by its two causes";
      walk c1; walk c2
    | _ -> add "malformed tree" in
  walk t;
  Hashtbl.iter (fun k n -> if n < 2 then add (sp "shared id %d occurs only once in the tree" k)) counts;
  (match node_terms t with
   | [] -> ()
   | [(p, _, _) as tm] -> if p <> c.rootp || not (term_true tm (Some (2 * c.rootv))) then add "the top node does not forbid the root at the requested version"
   | _ -> add "the top node has more than one term");
  match !problems with [] -> None | p :: _ -> Some p

(* C12 *)
let check_protocol (c : case) : str option =
  let tr = Array.of_list c.trace in
  let n = Array.length tr in
  let problem = ref None in
  let fail s = if !problem = None then problem := Some s in
  if n > 0 && (match tr.(0) with Cancel _ -> false | _ -> true) then fail "the first call is not should_cancel";
  let seen = Hashtbl.create 16 in
  let last_prio : (int, RZ.range) Hashtbl.t = Hashtbl.create 16 in
  let first_choose = ref true in
  let cancel_since_choose = ref true in
  Array.iteri (fun i e ->
    match e with
    | Cancel _ -> cancel_since_choose := true
    | Prio (p, s, _) -> Hashtbl.replace last_prio p s
    | Choose (p, s, _) ->
      if not !cancel_since_choose then fail (sp "no should_cancel between two choose_version calls (event %d)" i);
      cancel_since_choose := false;
      if s = empty_range then fail (sp "choose_version called with the empty set (event %d)" i);
      (match Hashtbl.find_opt last_prio p with
       | Some s' -> if s' <> s then fail (sp "choose_version(%d) set differs from the set last passed to prioritize (event %d)" p i)
       | None -> fail (sp "choose_version(%d) without a preceding prioritize (event %d)" p i));
      if !first_choose then begin
        first_choose := false;
        if p <> c.rootp || s <> [(Incl (z_of_int c.rootv), Incl (z_of_int c.rootv))] then fail "the first version query is not the root with the singleton set"
      end
    | Deps (p, v, _) ->
      if Hashtbl.mem seen (p, v) then fail (sp "get_dependencies(%d, %d) called twice" p v);
      Hashtbl.replace seen (p, v) ();
      (match (if i > 0 then Some tr.(i - 1) else None) with
       | Some (Choose (p', _, Some (Some v'))) when p' = p && v' = v -> ()
       | _ -> fail (sp "get_dependencies(%d, %d) not immediately preceded by choose_version returning that version" p v))) tr;
  !problem

(* C14 on the implementation's trace alone: the package asked about was last prioritized for exactly the set it is
   asked about (its most recent priority was reported for its current set of allowed versions) *)
let check_prio_trace (c : case) : str option =
  let last_prio : (int, RZ.range) Hashtbl.t = Hashtbl.create 16 in
  let problem = ref None in
  List.iteri (fun i e ->
    match e with
    | Prio (p, s, _) -> Hashtbl.replace last_prio p s
    | Choose (p, s, _) ->
      (match Hashtbl.find_opt last_prio p with
       | Some s' when s' = s -> ()
       | Some _ -> if !problem = None then
           problem := Some (sp "package %d is decided among a set for which no priority was reported: its last priority was reported for a different set (event %d)" p i)
       | None -> if !problem = None then problem := Some (sp "package %d is decided without any reported priority (event %d)" p i))
    | _ -> ()) c.trace;
  !problem

(* C13 *)
let check_fault (c : case) (rust : str) : str option =
  let find name = List.find_map (fun x -> match x with Sx.L (Sx.A n :: r) when n = name -> Some r | _ -> None) c.extra in
  match find "fault", find "base" with
  | Some [k; oos], Some base ->
    let k = Sx.int k and oos = Sx.int oos = 1 in
    let base = Array.of_list (List.map parse_ev base) in
    let tr = Array.of_list c.trace in
    if Array.length tr <= k then Some "the faulty run made fewer calls than the fault position" else
    let prefix_ok = (let ok = ref true in for i = 0 to k - 1 do if tr.(i) <> base.(i) then ok := false done; !ok) in
    if not prefix_ok then Some "the call trace before the fault differs from the fault-free run" else
    (match tr.(k) with
     | Cancel false ->
       if Array.length tr <> k + 1 then Some "calls were made after should_cancel failed"
       else if rust <> "(errcancel)" then Some ("should_cancel error not reported as ErrorInShouldCancel: " ^ rust) else None
     | Choose (_, _, None) ->
       if Array.length tr <> k + 1 then Some "calls were made after choose_version failed"
       else if rust <> "(errchoose)" then Some ("choose_version error not reported as ErrorChoosingPackageVersion: " ^ rust) else None
     | Deps (p, v, None) ->
       if Array.length tr <> k + 1 then Some "calls were made after get_dependencies failed"
       else if rust <> sp "(errdeps %d %d)" p v then Some ("get_dependencies error not reported with its package and version: " ^ rust) else None
     | Choose (_, s, Some (Some v)) when oos && not (has s v) ->
       if Array.length tr <> k + 1 then Some "calls were made after choose_version answered outside the set"
       else if rust <> "(failure 1)" then Some ("out-of-set version not reported as Failure: " ^ rust) else None
     | _ -> None (* no fault could be injected at this position (e.g. the offered set is full) *))
  | _ -> None

let is_fault_case (c : case) = List.exists (function Sx.L (Sx.A "fault" :: _) -> true | _ -> false) c.extra

(* C14 on the model's decision log *)
let check_picks (c : case) (log : (((n * RZ.range) list * (n * (z * RZ.range)) list) * nat) list) : str option =
  let tr = Array.of_list c.trace in
  List.find_map (fun ((cands, queue), n2) ->
    let n2 = int_of_nat n2 in
    let missing = List.find_opt (fun (q, _) -> not (List.mem_assoc q queue)) cands in
    match missing with
    | Some (q, _) -> Some (sp "package %d has a positive requirement and no selected version but no current priority at decision %d" (int_of_n q) n2)
    | None ->
      (* every candidate's latest prioritize call was for its current set *)
      let stale = List.find_opt (fun (q, s) ->
        let last = ref None in
        for i = 0 to min n2 (Array.length tr) - 1 do
          (match tr.(i) with Prio (p, s', _) when p = int_of_n q -> last := Some s' | _ -> ()) done;
        !last <> Some s) cands in
      (match stale with
       | Some (q, _) -> Some (sp "priority of package %d was reported for an outdated set at decision %d" (int_of_n q) n2)
       | None ->
         if n2 < Array.length tr then
           (match tr.(n2) with
            | Choose (p, _, _) ->
              let mx = List.fold_left (fun m (_, (z, _)) -> max m (int_of_z z)) min_int queue in
              (match List.assoc_opt (n_of_int p) queue with
               | Some (z, _) when int_of_z z = mx -> None
               | _ -> Some (sp "choose_version asked about package %d whose priority is not maximal (decision %d)" p n2))
            | _ -> None)
         else None)) log

(* C03, shared-id clause, checked on the implementation's own data: the tree against the cause DAG of the
   implementation's store (hook snapshot).  A derived node must carry the arena id of its incompatibility exactly
   when that incompatibility has in-degree >= 2 in the DAG reachable from the top (the top counts one edge from
   outside; a node whose two causes are the same id counts twice). *)
let check_sharing (t : Sx.t) (rstore : Sx.t list) : str option =
  let st = Array.of_list rstore in
  let n = Array.length st in
  let causes i = match st.(i) with
    | Sx.L [_; Sx.L [a; b]; _] -> Some (Sx.int a, Sx.int b)
    | _ -> None in
  let terms_txt i = match st.(i) with Sx.L [_; _; ts] -> Sx.to_string ts | _ -> "?" in
  let rec matches i (t : Sx.t) =
    i >= 0 && i < n &&
    (match causes i, Sx.list t with
     | Some (a, b), [Sx.A "der"; _; ts; c1; c2] -> Sx.to_string ts = terms_txt i && matches a c1 && matches b c2
     | None, Sx.A "ext" :: _ -> true
     | _ -> false) in
  match Sx.list t with
  | Sx.A "ext" :: _ -> None
  | _ ->
    let tops = List.filter (fun i -> matches i t) (List.init n (fun i -> n - 1 - i)) in
    if tops = [] then Some "the tree is not the unfolding of any entry of the implementation's incompatibility store"
    else begin
      let verdict top =
        let indeg = Array.make n 0 in
        let seen = Array.make n false in
        indeg.(top) <- 1;
        let rec visit i = if not seen.(i) then begin
            seen.(i) <- true;
            match causes i with
            | Some (a, b) -> indeg.(a) <- indeg.(a) + 1; indeg.(b) <- indeg.(b) + 1; visit a; visit b
            | None -> () end in
        visit top;
        let problem = ref None in
        let rec walk i (t : Sx.t) =
          match causes i, Sx.list t with
          | Some (a, b), [Sx.A "der"; sh; _; c1; c2] ->
            let expected = if indeg.(i) >= 2 then string_of_int i else "none" in
            let got = (match sh with Sx.A k -> k | _ -> "?") in
            if got <> expected && !problem = None then
              problem := Some (sp "the derived node of incompatibility %d has %d incoming edge(s) in the cause DAG but carries shared id %s" i indeg.(i) got);
            walk a c1; walk b c2
          | _ -> () in
        walk top t; !problem in
      let vs = List.map verdict tops in
      if List.exists (fun v -> v = None) vs then None else List.hd vs
    end

(* every property whose oracle fails on this case (a failure of one property must not hide another) *)
let oracles (cs : Sx.t) (rust_full : str) : (str * str) list =
  let c = parse_case cs in
  let (o, _st, log) = model_of cs c in
  let groups = (try Sx.list (Sx.parse ("(" ^ rust_full ^ ")")) with _ -> []) in
  let robs = List.find_map (function Sx.L [Sx.A "res"; r] -> Some r | _ -> None) groups in
  let rust = (match robs with Some r -> Sx.to_string r | None -> rust_full) in
  let rstore = List.find_map (function Sx.L (Sx.A "store" :: es) -> Some es | _ -> None) groups in
  let fault = is_fault_case c in
  let all = List.filter_map (fun f -> f ()) in
  all [
    (fun () -> if List.exists (function Sx.L [Sx.A "creason"; Sx.A "0"] -> true | _ -> false) groups
      then Some ("C03", "a Custom (unavailable) leaf carries a reason the provider did not give for every version in its set") else None);
    (fun () -> if fault then (match check_fault c rust with Some w -> Some ("C13", w) | None -> None) else None);
    (fun () -> if fault then None else
        match robs with
        | Some (Sx.L (Sx.A "ok" :: _) as s) ->
          let sol = parse_solution s in
          (match check_solution c sol with Some w -> Some ("C01", w) | None -> None)
        | Some (Sx.L [Sx.A "nosol"; t]) ->
          (match exists_solution c with
           | Some true -> Some ("C02", "NoSolution reported but a solution exists")
           | _ -> None)
        | _ -> Some ("C05", "a fault-free run with a well-behaved provider ended with " ^ rust));
    (fun () -> if fault then None else
        match robs with
        | Some (Sx.L (Sx.A "ok" :: _) as s) ->
          (match check_reachable c (parse_solution s) with Some w -> Some ("C04", w) | None -> None)
        | Some (Sx.L [Sx.A "nosol"; t]) ->
          (match check_tree c t with
           | Some w -> Some ("C03", w)
           | None -> (match rstore with
                      | Some entries -> (match check_sharing t entries with Some w -> Some ("C03", w) | None -> None)
                      | None -> None))
        | _ -> None);
    (fun () -> if fault then None else
        if List.exists (function Sx.L [Sx.A "det"; Sx.A "0"] -> true | _ -> false) c.extra
        then Some ("C07", "two runs with identical provider answers differ in trace or result") else None);
    (fun () -> match check_protocol c with Some w -> Some ("C12", w) | None -> None);
    (fun () -> if fault then None else match check_prio_trace c with Some w -> Some ("C14", w) | None -> None);
    (fun () -> if fault then None else
        match o with
        | OPickNotMax (_, p) -> Some ("C14", sp "choose_version asked about package %d whose reported priority is not maximal" (int_of_n p))
        | OMismatch _ | OPanic _ | OOutOfFuel -> None
        | _ -> (match check_picks c log with Some w -> Some ("C14", w) | None -> None));
    (fun () -> if fault then None else
        (* C06: every incompatibility of the implementation's store (hook snapshot) is valid w.r.t. all
           solutions of the registry *)
        match rstore with
        | None -> None
        | Some entries ->
          (match all_solutions c with
           | None -> None
           | Some sols ->
             let bad = List.find_opt (fun e ->
               match e with
               | Sx.L [_kind; _causes; ts] ->
                 let ts = parse_terms ts in
                 List.exists (fun a -> List.for_all (fun ((p, _, _) as t) ->
                   term_true t (match List.assoc_opt p a with Some v -> Some (2 * v) | None -> None)) ts) sols
               | _ -> false) entries in
             (match bad with
              | Some e -> Some ("C06", "a recorded incompatibility is violated by a valid solution: " ^ Sx.to_string e)
              | None -> None)));
  ]
