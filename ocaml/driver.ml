(* Reads "CASE\tRUSTOBS" lines, runs the extracted model on CASE, reports
     MISMATCH\tCASE\tRUST\tMODEL      model and implementation disagree
     PROPFAIL\tPROP\tCASE\tRUST\tWHY   a property oracle fails on the implementation's observation
   and a final "TOTAL n" line. *)
let () =
  let domain = Sys.argv.(1) in
  let one f c r = match f c r with None -> [] | Some x -> [x] in
  let eval, oracle = match domain with
    | "semver" -> D_semver.eval, one D_semver.oracle
    | "ranges" | "rangeord" | "rangeq" -> D_ranges.eval, D_ranges.oracles
    | "terms" | "bitset" -> D_terms.eval, one D_terms.oracle
    | "offline" -> D_offline.eval, one D_offline.oracle
    | "heap" -> D_heap.eval, one D_heap.oracle
    | "serde" -> D_serde.eval, one D_serde.oracle
    | "solver" | "faults" -> D_solver.eval, D_solver.oracles
    | "solverb" -> D_solverb.eval, D_solverb.oracles
    | "report" | "collapse" -> D_report.eval, one D_report.oracle
    | _ -> failwith "unknown domain" in
  let n = ref 0 in
  (try
    while true do
      let line = input_line stdin in
      match String.split_on_char '\t' line with
      | [] | [_] -> ()
      | case :: rust :: _ ->
        incr n;
        let c = Sx.parse case in
        let model = (try eval c with e -> "MODEL-EXCEPTION " ^ Printexc.to_string e) in
        if model <> rust then Printf.printf "MISMATCH\t%s\t%s\t%s\n" case rust model;
        List.iter (fun (prop, why) -> Printf.printf "PROPFAIL\t%s\t%s\t%s\t%s\n" prop case rust why)
          (if rust = "(harness-panic 1)" && domain <> "serde"
           then [("?", "the implementation panicked, or violated an expectation of the harness, on this case")]
           else (try oracle c rust with e -> [("?", "ORACLE-EXCEPTION " ^ Printexc.to_string e)]))
    done
  with End_of_file -> ());
  if domain = "solver" || domain = "faults" then begin
    Printf.printf "STAT decision_points %d\n" !D_solver.stat_picks;
    Printf.printf "STAT decision_points_with_tied_maximum %d\n" !D_solver.stat_tie_picks
  end;
  Printf.printf "TOTAL %d\n" !n
