(* C19: the serde feature.  Model side (Model/Json.v) of the correspondence + property oracles on the
   Rust observations.  JSON trees travel as s-expressions (see harness/src/serde_dom.rs):
     null | true | false | (n 5) | (s 85 110 ...) | (a x ...) | (o ((107 ...) x) ...)   keys sorted bytewise *)
open Model
open Conv
type str = Stdlib.String.t

(* ---------------- JSON <-> s-expression ---------------- *)

let rec json_of_sx (x : Sx.t) : json =
  match x with
  | Sx.A "null" -> JNull
  | Sx.A "true" -> JBool true
  | Sx.A "false" -> JBool false
  | Sx.L (Sx.A "n" :: [v]) -> JNum (z_of_int (Sx.int v))
  | Sx.L (Sx.A "s" :: bs) -> JStr (List.map (fun b -> n_of_int (Sx.int b)) bs)
  | Sx.L (Sx.A "a" :: l) -> JArr (List.map json_of_sx l)
  | Sx.L (Sx.A "o" :: l) ->
    JObj (List.map (fun e -> match e with Sx.L [k; v] -> (text_of_sx k, json_of_sx v) | _ -> failwith "json entry") l)
  | _ -> failwith "json"

let bytes_sx (t : n list) : str = "(" ^ String.concat " " (List.map (fun c -> string_of_int (int_of_n c)) t) ^ ")"

let rec sx_of_json (j : json) : str =
  match j with
  | JNull -> "null"
  | JBool b -> if b then "true" else "false"
  | JNum z -> Printf.sprintf "(n %d)" (int_of_z z)
  | JStr s -> "(s" ^ String.concat "" (List.map (fun c -> " " ^ string_of_int (int_of_n c)) s) ^ ")"
  | JArr l -> "(a" ^ String.concat "" (List.map (fun x -> " " ^ sx_of_json x) l) ^ ")"
  | JObj l ->
    let e = List.sort (fun (a, _) (b, _) -> compare a b) (List.map (fun (k, v) -> (string_of_text k, (k, v))) l) in
    "(o" ^ String.concat "" (List.map (fun (_, (k, v)) -> Printf.sprintf " (%s %s)" (bytes_sx k) (sx_of_json v)) e) ^ ")"

(* RON abstract syntax -> the data-model tree: tuples and lists are sequences, Some(x) is x, None is null
   (only used where an Option is expected, see the generator) *)
let rec json_of_ron (x : Sx.t) : json =
  match x with
  | Sx.A "none" -> JNull
  | Sx.L [Sx.A "some"; v] -> json_of_ron v
  | Sx.L (Sx.A "n" :: [v]) -> JNum (z_of_int (Sx.int v))
  | Sx.L (Sx.A "s" :: bs) -> JStr (List.map (fun b -> n_of_int (Sx.int b)) bs)
  | Sx.L (Sx.A ("t" | "l") :: l) -> JArr (List.map json_of_ron l)
  | _ -> failwith "ron"

(* ---------------- observations ---------------- *)

let ascending (segs : RZ.range) : bool =
  let n = List.length segs in
  let last = ref None and ok = ref true in
  List.iteri (fun i (s, e) ->
    (match s, e with
     | Incl a, Incl b -> if int_of_z a > int_of_z b then ok := false
     | (Incl a | Excl a), (Incl b | Excl b) -> if int_of_z a >= int_of_z b then ok := false
     | _ -> ());
    List.iteri (fun j b ->
      match b with
      | Unb -> if not ((i = 0 && j = 0) || (i = n - 1 && j = 1)) then ok := false
      | Incl v | Excl v ->
        let v = int_of_z v in
        (match !last with Some l when v < l -> ok := false | _ -> ());
        last := Some v) [s; e]) segs;
  !ok

let range_obs (r : RZ.range option) : str =
  match r with
  | None -> "err"
  | Some segs ->
    let mem = if ascending segs then
        "b" ^ String.concat "" (List.init 8 (fun v -> if RZ.contains segs (z_of_int v) then "1" else "0"))
      else "-" in
    Printf.sprintf "(ok %s %s)" (D_ranges.segs_sx segs) mem

let sv_t (v : semver) = Printf.sprintf "%d %d %d" (int_of_n v.major) (int_of_n v.minor) (int_of_n v.patch)
let sv_bound_sx = function
  | Incl v -> Printf.sprintf "(i %s)" (sv_t v)
  | Excl v -> Printf.sprintf "(e %s)" (sv_t v)
  | Unb -> "u"
let sv_segs_sx r = "(" ^ String.concat " " (List.map (fun (s, e) -> Printf.sprintf "(%s %s)" (sv_bound_sx s) (sv_bound_sx e)) r) ^ ")"
let sv_parse_bound (x : Sx.t) : semver bound =
  match x with
  | Sx.A "u" -> Unb
  | Sx.L [Sx.A t; a; b; c] ->
    let v = { major = n_of_int (Sx.int a); minor = n_of_int (Sx.int b); patch = n_of_int (Sx.int c) } in
    if t = "i" then Incl v else Excl v
  | _ -> failwith "sv bound"
let sv_parse_segs (x : Sx.t) =
  List.map (fun p -> match Sx.list p with [a; b] -> (sv_parse_bound a, sv_parse_bound b) | _ -> failwith "seg") (Sx.list x)
let sv_range_obs = function None -> "err" | Some r -> Printf.sprintf "(ok %s)" (sv_segs_sx r)
let sv_obs = function None -> "err" | Some v -> Printf.sprintf "(ok %s)" (sv_t v)

let rec int_of_nat = function O -> 0 | S n -> 1 + int_of_nat n

let render_prov (prov : RZ.range provider) : str =
  let contains = RZ.contains in
  D_offline.render
    (List.sort compare (List.map int_of_n (packages prov)))
    (fun p -> match versions prov (n_of_int p) with None -> None | Some vs -> Some (List.map int_of_z vs))
    (fun p v -> match get_dependencies prov (n_of_int p) (z_of_int v) with
       | Unavailable -> None | Available m -> Some (List.map (fun (q, r) -> (int_of_n q, r)) m))
    (fun p s -> match choose_version contains prov (n_of_int p) s with None -> None | Some v -> Some (int_of_z v))
    (fun p s -> int_of_nat (prioritize_count contains prov (n_of_int p) s))
    (match priority_compare (prioritize_count contains prov N0 RZ.full) (prioritize_count contains prov (n_of_int 1) RZ.full) with
     | Lt -> "lt" | Eq -> "eq" | Gt -> "gt")

let model_prov (ops : Sx.t) : RZ.range provider =
  run (List.map (fun (p, v, d) -> ((p, v), d)) (D_offline.parse_ops ops))

let b01 b = if b then "1" else "0"

let eval (c : Sx.t) : str =
  match Sx.list c with
  | [Sx.A "rt-range"; tree; segs] ->
    let built = D_ranges.build (Sx.int tree) (D_ranges.parse_segs segs) in
    let enc = encode_range_u32 built in
    let dec = decode_range_u32 enc in
    Printf.sprintf "(built %s) (enc %s) (dec %s) (str %s) (eq %s)" (D_ranges.segs_sx built) (sx_of_json enc)
      (range_obs dec) (range_obs dec) (b01 (dec = Some built))
  | [Sx.A "dec-range"; j] ->
    let r = range_obs (decode_range_u32 (json_of_sx j)) in
    Printf.sprintf "(val %s) (str %s)" r r
  | [Sx.A "dec-ron"; _style; ast] ->
    Printf.sprintf "(val %s)" (range_obs (decode_range_u32 (json_of_ron ast)))
  | [Sx.A "dec-ron-sv"; _style; ast] ->
    Printf.sprintf "(val %s)" (sv_range_obs (decode_range_sv (json_of_ron ast)))
  | [Sx.A "sv-json"; a; b; c'] ->
    let v = { major = n_of_int (Sx.int a); minor = n_of_int (Sx.int b); patch = n_of_int (Sx.int c') } in
    let enc = enc_sv v in
    let dec = dec_sv enc in
    Printf.sprintf "(enc %s) (dec %s) (str %s) (eq %s)" (sx_of_json enc) (sv_obs dec) (sv_obs dec) (b01 (dec = Some v))
  | [Sx.A "dec-sv"; j] -> Printf.sprintf "(val %s)" (sv_obs (dec_sv (json_of_sx j)))
  | [Sx.A "rt-range-sv"; segs] ->
    (* the case lists the canonical segments; building them through from_range_bounds/union on the Rust side
       must give exactly these (Range operations over SemanticVersion are C10's subject, not modelled here) *)
    let built = sv_parse_segs segs in
    let enc = encode_range_sv built in
    let dec = decode_range_sv enc in
    Printf.sprintf "(built %s) (enc %s) (dec %s) (str %s) (eq %s)" (sv_segs_sx built) (sx_of_json enc)
      (sv_range_obs dec) (sv_range_obs dec) (b01 (dec = Some built))
  | [Sx.A "dec-range-sv"; j] -> Printf.sprintf "(val %s)" (sv_range_obs (decode_range_sv (json_of_sx j)))
  | [Sx.A "prov"; ops] ->
    let prov = model_prov ops in
    let enc = encode_provider_u32 prov in
    let q0 = render_prov prov in
    (match decode_provider_u32 enc with
     | None -> Printf.sprintf "(enc %s) (q err) (same 0) (str-same 0)" (sx_of_json enc)
     | Some back ->
       let q1 = render_prov back in
       let same = q1 = q0 && sx_of_json (encode_provider_u32 back) = sx_of_json enc in
       Printf.sprintf "(enc %s) (q (%s)) (same %s) (str-same %s)" (sx_of_json enc) q1 (b01 same) (b01 same))
  | [Sx.A "prov-resolve"; _] -> "(outcome-same 1)"
  | [Sx.A "prov-resolve-identical"; _] -> "(outcome-same 1) (identical all)"
  | [Sx.A "dec-prov"; j] ->
    let r = (match decode_provider_u32 (json_of_sx j) with
        | None -> "err"
        | Some p -> Printf.sprintf "(ok %s)" (sx_of_json (encode_provider_u32 p))) in
    Printf.sprintf "(val %s) (str %s)" r r
  | [Sx.A "fixture"; _] -> "(ron-ok 1) (json-rt-same 1) (legacy-shape 1) (outcome-same 1)"
  | [Sx.A "fixture-identical"; _] -> "(ron-ok 1) (identical all)"
  | _ -> failwith "serde: unknown case"

(* ---------------- oracles (no model code: hand-written references) ---------------- *)

let fail why = Some ("C19", why)
let field = D_ranges.field

let ref_str (s : str) : str =
  "(s" ^ String.concat "" (List.init (String.length s) (fun i -> " " ^ string_of_int (Char.code s.[i]))) ^ ")"
let ref_key (s : str) : str =
  "(" ^ String.concat " " (List.init (String.length s) (fun i -> string_of_int (Char.code s.[i]))) ^ ")"
let ref_bound = function
  | Unb -> ref_str "Unbounded"
  | Incl v -> Printf.sprintf "(o (%s (n %d)))" (ref_key "Included") (int_of_z v)
  | Excl v -> Printf.sprintf "(o (%s (n %d)))" (ref_key "Excluded") (int_of_z v)
let ref_range (segs : RZ.range) : str =
  "(a" ^ String.concat "" (List.map (fun (s, e) -> Printf.sprintf " (a %s %s)" (ref_bound s) (ref_bound e)) segs) ^ ")"
let ref_mem (segs : RZ.range) : str =
  "b" ^ String.concat "" (List.init 8 (fun v -> if List.exists (fun sg -> D_ranges.seg_has sg v) segs then "1" else "0"))

let u32 v = v >= 0 && v <= 4294967295

(* a legacy element [a, b] / [a, null] (u32 numbers) and the segment it must become *)
let legacy_json (x : Sx.t) : (z bound * z bound) option =
  match x with
  | Sx.L [Sx.A "a"; Sx.L [Sx.A "n"; a]; Sx.A "null"] when u32 (Sx.int a) -> Some (Incl (z_of_int (Sx.int a)), Unb)
  | Sx.L [Sx.A "a"; Sx.L [Sx.A "n"; a]; Sx.L [Sx.A "n"; b]] when u32 (Sx.int a) && u32 (Sx.int b) ->
    Some (Incl (z_of_int (Sx.int a)), Excl (z_of_int (Sx.int b)))
  | _ -> None
let legacy_ron (x : Sx.t) : (z bound * z bound) option =
  match x with
  | Sx.L [Sx.A "t"; Sx.L [Sx.A "n"; a]; Sx.A "none"] when u32 (Sx.int a) -> Some (Incl (z_of_int (Sx.int a)), Unb)
  | Sx.L [Sx.A "t"; Sx.L [Sx.A "n"; a]; Sx.L [Sx.A "some"; Sx.L [Sx.A "n"; b]]] when u32 (Sx.int a) && u32 (Sx.int b) ->
    Some (Incl (z_of_int (Sx.int a)), Excl (z_of_int (Sx.int b)))
  | _ -> None
let all_some (l : 'a option list) : 'a list option =
  if List.for_all (fun x -> x <> None) l then Some (List.filter_map (fun x -> x) l) else None

let check_decoded (what : str) (obs : Sx.t list) (fields : str list) (want : RZ.range) : (str * str) option =
  let bad = List.filter (fun f ->
    match field obs f with
    | Sx.L [Sx.A "ok"; segs; mem] ->
      D_ranges.parse_segs segs <> want
      || (match mem with Sx.A "-" -> false | Sx.A m -> m <> ref_mem want | _ -> true)
    | _ -> true) fields in
  if bad = [] then None
  else fail (Printf.sprintf "%s: expected %s containing exactly %s of 0..7 (field %s)" what
               (D_ranges.segs_sx want) (ref_mem want) (List.hd bad))

(* reference provider: last write wins, later duplicate dependency entries win; rendered as the sorted JSON tree *)
let ref_provider_json (ops : (int * int * (int * RZ.range) list) list) : str =
  let pkgs = List.sort_uniq compare (List.map (fun (p, _, _) -> p) ops) in
  let vers p = List.sort_uniq compare (List.filter_map (fun (p', v, _) -> if p = p' then Some v else None) ops) in
  let last p v = List.fold_left (fun acc (p', v', d) -> if p = p' && v = v' then d else acc) [] ops in
  let dedup d = List.fold_left (fun m (q, r) -> (q, r) :: List.filter (fun (q', _) -> q' <> q) m) [] d in
  let obj entries =
    let e = List.sort compare entries in
    "(o" ^ String.concat "" (List.map (fun (k, v) -> Printf.sprintf " (%s %s)" (ref_key k) v) e) ^ ")" in
  obj (List.map (fun p ->
    (string_of_int p, obj (List.map (fun v ->
       (string_of_int v, obj (List.map (fun (q, r) -> (string_of_int q, ref_range r)) (dedup (last p v))))) (vers p)))) pkgs)

let oracle (c : Sx.t) (rust : str) : (str * str) option =
  if rust = "(harness-panic 1)" then Some ("C19", "serializing or deserializing panicked / failed where the round trip must succeed") else
  let obs = Sx.list (Sx.parse ("(" ^ rust ^ ")")) in
  let is1 f = (try Sx.int (field obs f) = 1 with _ -> false) in
  match Sx.list c with
  | [Sx.A "rt-range"; _tree; segs] ->
    let built = D_ranges.parse_segs (field obs "built") in
    if built <> D_ranges.parse_segs segs then None   (* not canonical: C10's oracle, not this property *)
    else if Sx.to_string (field obs "enc") <> ref_range built then fail "Range is not serialized as the array of [start, end] bound pairs"
    else if not (is1 "eq") then fail "Range -> JSON -> Range is not the identity (==)"
    else check_decoded "JSON round trip of a Range" obs ["dec"; "str"] built
  | [Sx.A "dec-range"; Sx.L (Sx.A "a" :: elems)] ->
    (match all_some (List.map legacy_json elems) with
     | Some want -> check_decoded "legacy (start, Some(end)) / (start, None) encoding in JSON" obs ["val"; "str"] want
     | None -> None)
  | [Sx.A "dec-ron"; _; Sx.L (Sx.A "l" :: elems)] ->
    (match all_some (List.map legacy_ron elems) with
     | Some want -> check_decoded "legacy (start, Some(end)) / (start, None) encoding in RON" obs ["val"] want
     | None -> None)
  | [Sx.A "sv-json"; a; b; c'] ->
    let (a, b, c') = (Sx.int a, Sx.int b, Sx.int c') in
    let want = Printf.sprintf "(ok %d %d %d)" a b c' in
    if Sx.to_string (field obs "enc") <> ref_str (Printf.sprintf "%d.%d.%d" a b c') then fail "SemanticVersion is not serialized as the string major.minor.patch"
    else if Sx.to_string (field obs "dec") <> want || Sx.to_string (field obs "str") <> want || not (is1 "eq")
    then fail "SemanticVersion -> JSON -> SemanticVersion is not the identity"
    else None
  | [Sx.A "rt-range-sv"; segs] ->
    let want = Printf.sprintf "(ok %s)" (Sx.to_string segs) in
    if Sx.to_string (field obs "built") <> Sx.to_string segs then None
    else if Sx.to_string (field obs "dec") <> want || Sx.to_string (field obs "str") <> want || not (is1 "eq")
    then fail "Range<SemanticVersion> -> JSON -> Range is not the identity"
    else None
  | [Sx.A ("dec-range-sv" | "dec-ron-sv"); _] | [Sx.A "dec-ron-sv"; _; _] ->
    (* the legacy shapes over version strings: the specification model is the reading of the property *)
    let j = (match Sx.list c with
        | [Sx.A "dec-range-sv"; j] -> json_of_sx j
        | [_; _; ast] -> json_of_ron ast
        | _ -> JNull) in
    let legacy_shaped = (match j with
        | JArr l -> l <> [] && List.for_all (function JArr [JStr _; (JStr _ | JNull)] -> true | _ -> false) l
        | _ -> false) in
    (match decode_range_sv j with
     | Some r when legacy_shaped ->
       if Sx.to_string (field obs "val") = Printf.sprintf "(ok %s)" (sv_segs_sx r) then None
       else fail "legacy encoding over version strings does not decode to start <= v < end / start <= v"
     | _ -> None)
  | [Sx.A "prov"; ops] ->
    let o = List.map (fun (p, v, d) -> (int_of_n p, int_of_z v, List.map (fun (q, r) -> (int_of_n q, r)) d)) (D_offline.parse_ops ops) in
    if Sx.to_string (field obs "enc") <> ref_provider_json o then fail "provider is not serialized as {package: {version: {package: range}}} of what was added"
    else if not (is1 "same") then fail "provider -> JSON value -> provider changes packages, versions, dependencies or query results"
    else if not (is1 "str-same") then fail "provider -> JSON text -> provider changes packages, versions, dependencies or query results"
    else (match field obs "q" with
        | Sx.L q ->
          let q = String.concat " " (List.map Sx.to_string q) in
          (match D_offline.oracle (Sx.L [Sx.A "off"; ops]) q with
           | None -> None
           | Some (_, why) -> fail ("queries on the deserialized provider: " ^ why))
        | _ -> fail "provider could not be deserialized from its own JSON")
  | [Sx.A "prov-resolve"; _] ->
    if is1 "outcome-same" then None
    else fail "resolve on the deserialized provider: different kind of outcome, or a solution that is not a solution of the original registry"
  | [Sx.A "prov-resolve-identical"; _] ->
    if not (is1 "outcome-same") then fail "resolve on the deserialized provider: different kind of outcome, or a solution that is not a solution of the original registry"
    else (match field obs "identical" with
        | Sx.A "all" -> None
        | Sx.L (Sx.A kind :: _) ->
          fail ("STRICT reading: resolve on the deserialized provider returns a different " ^ kind ^
                " (valid, but not the same result: the hash-map iteration order of DependencyConstraints is not preserved by the round trip)")
        | _ -> fail "malformed observation")
  | [Sx.A "fixture"; _] ->
    if not (is1 "ron-ok") then fail "the repository's legacy RON fixture does not deserialize"
    else if not (is1 "legacy-shape") then fail "a legacy interval of the fixture did not become Included(start)..Excluded(end) / Included(start)..Unbounded"
    else if not (is1 "json-rt-same") then fail "fixture registry -> JSON -> registry is not the identity"
    else if not (is1 "outcome-same") then fail "fixture: resolve after the round trip gives a different kind of outcome or an invalid solution"
    else None
  | [Sx.A "fixture-identical"; _] ->
    (match field obs "identical" with
     | Sx.A "all" -> None
     | _ -> fail ("STRICT reading: on the repository's fixture, resolve after the JSON round trip differs for some roots (identical/total/first: "
                  ^ Sx.to_string (field obs "identical") ^ "); hash-map iteration order is not preserved by the round trip"))
  | _ -> None
