(* C10 / C15 / C16: model side of the range correspondence + property oracles on the Rust observations *)
open Model
open Conv

type str = Stdlib.String.t

let parse_bound (s : Sx.t) : z bound =
  match s with
  | Sx.A "u" -> Unb
  | Sx.L [Sx.A "i"; v] -> Incl (z_of_int (Sx.int v))
  | Sx.L [Sx.A "e"; v] -> Excl (z_of_int (Sx.int v))
  | _ -> failwith "bound"
let parse_segs (s : Sx.t) : RZ.range =
  List.map (fun p -> match Sx.list p with [a; b] -> (parse_bound a, parse_bound b) | _ -> failwith "seg") (Sx.list s)
let bound_sx = function
  | Incl v -> Printf.sprintf "(i %d)" (int_of_z v)
  | Excl v -> Printf.sprintf "(e %d)" (int_of_z v)
  | Unb -> "u"
let segs_sx (r : RZ.range) : str =
  "(" ^ String.concat " " (List.map (fun (s, e) -> Printf.sprintf "(%s %s)" (bound_sx s) (bound_sx e)) r) ^ ")"

(* the same three construction trees as harness/src/ranges.rs::build, through model operations *)
let build (tree : int) (segs : RZ.range) : RZ.range =
  let one (s, e) =
    match tree mod 3 with
    | 0 -> RZ.from_range_bounds s e
    | 1 ->
      let lo = (match s with Incl v -> RZ.higher_than v | Excl v -> RZ.strictly_higher_than v | Unb -> RZ.full) in
      let hi = (match e with Incl v -> RZ.lower_than v | Excl v -> RZ.strictly_lower_than v | Unb -> RZ.full) in
      RZ.intersection lo hi
    | _ ->
      let below = (match s with Incl v -> RZ.strictly_lower_than v | Excl v -> RZ.lower_than v | Unb -> RZ.empty) in
      let above = (match e with Incl v -> RZ.strictly_higher_than v | Excl v -> RZ.higher_than v | Unb -> RZ.empty) in
      RZ.complement (RZ.union below above)
  in
  let acc =
    if tree mod 3 = 2 then List.fold_right (fun s acc -> RZ.union (one s) acc) segs RZ.empty
    else List.fold_left (fun acc s -> RZ.union acc (one s)) RZ.empty segs in
  (* the finishing operation of harness/src/ranges.rs::build *)
  match (tree / 3) mod 4 with
  | 1 -> RZ.union acc acc
  | 2 -> RZ.complement (RZ.complement acc)
  | 3 -> RZ.intersection acc acc
  | _ -> acc

let probes k = List.init (2 * k + 1) (fun i -> 5 * (i + 1))
let mask (r : RZ.range) k : int =
  List.fold_left (fun m (i, p) -> if RZ.contains r (z_of_int p) then m lor (1 lsl i) else m) 0
    (List.mapi (fun i p -> (i, p)) (probes k))
let cmp_s = function Lt -> "lt" | Eq -> "eq" | Gt -> "gt"
let b01 b = if b then "1" else "0"
let opt_ver = function Some v -> Printf.sprintf "(some %d)" (int_of_z v) | None -> "none"
let ints (x : Sx.t) = List.map Sx.int (Sx.list x)

let eval (c : Sx.t) : str =
  match Sx.list c with
  | [Sx.A "r1"; k; tree; segs] ->
    let k = Sx.int k in
    let a = build (Sx.int tree) (parse_segs segs) in
    let cm = RZ.complement a in
    let cc = RZ.complement cm in
    let br = (match RZ.bounding_range a with None -> "none" | Some (s, e) -> Printf.sprintf "(some %s %s)" (bound_sx s) (bound_sx e)) in
    Printf.sprintf "(built %s) (compl %s) (cc %s) (empty %s) (single %s) (bounding %s) (ma %d) (mc %d) (disp %s)"
      (segs_sx a) (segs_sx cm) (segs_sx cc) (b01 (RZ.is_empty a)) (opt_ver (RZ.as_singleton a)) br
      (mask a k) (mask cm k) (Sx.to_string (sx_of_text (rz_display a)))
  | [Sx.A "r2"; k; ta; sa; tb; sb] ->
    let k = Sx.int k in
    let a = build (Sx.int ta) (parse_segs sa) and b = build (Sx.int tb) (parse_segs sb) in
    let u = RZ.union a b and i = RZ.intersection a b in
    let eq = RZ.range_eqb a b in
    Printf.sprintf "(u %s) (i %s) (dj %s) (ss %s) (eq %s) (cmp %s) (pcmp %s) (rcmp %s) (ma %d) (mb %d) (mu %d) (mi %d) (ieqa %s) (iempty %s) (heq %s)"
      (segs_sx u) (segs_sx i) (b01 (RZ.is_disjoint a b)) (b01 (RZ.subset_of a b)) (b01 eq)
      (cmp_s (RZ.range_cmp a b))
      (match RZ.range_partial_cmp a b with Some c -> cmp_s c | None -> "none")
      (cmp_s (RZ.range_cmp b a))
      (mask a k) (mask b k) (mask u k) (mask i k)
      (b01 (RZ.range_eqb i a)) (b01 (RZ.range_eqb i RZ.empty))
      (b01 eq)   (* hash: the model only says that equal ranges hash equally; unequal ranges are assumed not to collide *)
  | [Sx.A "r3"; sa; sb; sc] ->
    let a = build 0 (parse_segs sa) and b = build 1 (parse_segs sb) and c' = build 2 (parse_segs sc) in
    Printf.sprintf "(%s %s %s)" (cmp_s (RZ.range_cmp a b)) (cmp_s (RZ.range_cmp b c')) (cmp_s (RZ.range_cmp a c'))
  | [Sx.A "rv"; _k; tree; segs; vs] ->
    let a = build (Sx.int tree) (parse_segs segs) in
    let vs = List.map z_of_int (ints vs) in
    let each = "b" ^ String.concat "" (List.map (fun v -> b01 (RZ.contains a v)) vs) in
    let many = "b" ^ String.concat "" (List.map b01 (RZ.contains_many a vs)) in
    let s = RZ.simplify a vs in
    let s_each = "b" ^ String.concat "" (List.map (fun v -> b01 (RZ.contains s v)) vs) in
    Printf.sprintf "(each %s) (many %s) (simp %s) (simp-each %s)" each many (segs_sx s) s_each
  | [Sx.A "rb"; s; e; vs] ->
    let s = parse_bound s and e = parse_bound e in
    let r = RZ.from_range_bounds s e in
    let vs = List.map z_of_int (ints vs) in
    let mine = "b" ^ String.concat "" (List.map (fun v -> b01 (RZ.contains r v)) vs) in
    (* std::ops::RangeBounds::contains: start <(=) v and v <(=) end *)
    let stdc v =
      let v = int_of_z v in
      (match s with Incl x -> int_of_z x <= v | Excl x -> int_of_z x < v | Unb -> true)
      && (match e with Incl x -> v <= int_of_z x | Excl x -> v < int_of_z x | Unb -> true) in
    Printf.sprintf "(r %s) (contains %s) (std %s)" (segs_sx r) mine ("b" ^ String.concat "" (List.map (fun v -> b01 (stdc v)) vs))
  | _ -> failwith "ranges: unknown case"

(* ---------------- oracles: laws evaluated on the implementation's own observations ---------------- *)

let field (obs : Sx.t list) (name : str) : Sx.t =
  let rec go = function
    | Sx.L [Sx.A n; v] :: _ when n = name -> v
    | Sx.L (Sx.A n :: rest) :: _ when n = name -> Sx.L rest
    | _ :: r -> go r
    | [] -> failwith ("missing field " ^ name) in
  go obs
let fint obs n = Sx.int (field obs n)
let fbool obs n = Sx.int (field obs n) = 1

(* independent reading of a segment list on integer versions (no model code) *)
let seg_has (s, e) v =
  (match s with Incl x -> int_of_z x <= v | Excl x -> int_of_z x < v | Unb -> true)
  && (match e with Incl x -> v <= int_of_z x | Excl x -> v < int_of_z x | Unb -> true)
let segs_mask segs k =
  List.fold_left (fun m (i, p) -> if List.exists (fun sg -> seg_has sg p) segs then m lor (1 lsl i) else m) 0
    (List.mapi (fun i p -> (i, p)) (probes k))

(* reference parser for the Display grammar: '∅' | seg (' | ' seg)* ;
   seg ::= '*' | v | '<'v | '<='v | '>'v | '>='v | lo ', ' hi *)
let split_on (sep : str) (s : str) : str list =
  let n = String.length sep in
  let rec go acc start i =
    if i + n > String.length s then List.rev (String.sub s start (String.length s - start) :: acc)
    else if String.sub s i n = sep then go (String.sub s start (i - start) :: acc) (i + n) (i + n)
    else go acc start (i + 1) in
  go [] 0 0
let atom_pred (a : str) : (int -> bool) =
  let num from = int_of_string (String.sub a from (String.length a - from)) in
  if a = "*" then (fun _ -> true)
  else if String.length a >= 2 && String.sub a 0 2 = "<=" then (let n = num 2 in fun v -> v <= n)
  else if String.length a >= 2 && String.sub a 0 2 = ">=" then (let n = num 2 in fun v -> v >= n)
  else if a.[0] = '<' then (let n = num 1 in fun v -> v < n)
  else if a.[0] = '>' then (let n = num 1 in fun v -> v > n)
  else (let n = num 0 in fun v -> v = n)
let display_pred (s : str) : (int -> bool) =
  if s = "\xe2\x88\x85" then (fun _ -> false)
  else
    let segs = List.map (fun sg -> List.map atom_pred (split_on ", " sg)) (split_on " | " s) in
    fun v -> List.exists (fun conj -> List.for_all (fun p -> p v) conj) segs

let fail p why = Some (p, why)
(* [only]: evaluate the checks of one property only, so that a failure of one property does not hide another *)
let only : str option ref = ref None
let on p = (match !only with None -> true | Some q -> q = p)

let oracle1 (c : Sx.t) (rust : str) : (str * str) option =
  if rust = "panic" then (if on "C10" then fail "C10" "panic (check_invariants or unreachable) on a range built from the public constructors" else None) else
  let obs = Sx.list (Sx.parse ("(" ^ rust ^ ")")) in
  match Sx.list c with
  | [Sx.A "r1"; k; _tree; segs] ->
    let k = Sx.int k in
    let full = (1 lsl (2 * k + 1)) - 1 in
    let want = segs_mask (parse_segs segs) k in
    let ma = fint obs "ma" and mc = fint obs "mc" in
    let built = parse_segs (field obs "built") in
    if on "C10" && (ma <> want) then fail "C10" "range built from public constructors does not contain the intended points"
    else if on "C10" && (mc <> (full land (lnot ma))) then fail "C10" "complement is not the pointwise complement"
    else if on "C10" && (Sx.to_string (field obs "cc") <> Sx.to_string (field obs "built")) then fail "C10" "double complement is not the identity (canonical form lost)"
    else if on "C10" && (Sx.to_string (field obs "built") <> Sx.to_string segs) then fail "C10" "same set, different representation: result is not in canonical form"
    else if on "C15" && (fbool obs "empty" <> (ma = 0)) then fail "C15" "is_empty disagrees with membership"
    else if on "C15" && (match field obs "single" with
             | Sx.L [Sx.A "some"; v] -> built <> [(Incl (z_of_int (Sx.int v)), Incl (z_of_int (Sx.int v)))]
             | _ -> (match built with [(Incl a, Incl b)] -> a = b | _ -> false))
    then fail "C15" "as_singleton is not Some(v) exactly for {v}"
    else if on "C15" && (match field obs "bounding" with
             | Sx.A "none" -> built <> []
             | Sx.L [Sx.A "some"; s; e] ->
               built = [] || not (List.for_all (fun p -> not (List.exists (fun sg -> seg_has sg p) built)
                                                      || seg_has (parse_bound s, parse_bound e) p) (probes k))
             | _ -> true)
    then fail "C15" "bounding_range is None for a non-empty range or misses a contained version"
    else if not (on "C15") then None
    else begin
      let disp = string_of_text (text_of_sx (field obs "disp")) in
      match (try Some (display_pred disp) with _ -> None) with
      | None -> fail "C15" "Display text is not in the documented grammar"
      | Some pred ->
        if List.for_all (fun p -> pred p = List.exists (fun sg -> seg_has sg p) built) (probes k) then None
        else fail "C15" "Display text does not denote the range's set"
    end
  | [Sx.A "r2"; _k; _ta; _sa; _tb; _sb] ->
    let ma = fint obs "ma" and mb = fint obs "mb" and mu = fint obs "mu" and mi = fint obs "mi" in
    let dj = fbool obs "dj" and ss = fbool obs "ss" and eq = fbool obs "eq" in
    let cmp = Sx.atom (field obs "cmp") and pcmp = Sx.atom (field obs "pcmp") in
    if on "C10" && (mu <> (ma lor mb)) then fail "C10" "union is not the pointwise union"
    else if on "C10" && (mi <> (ma land mb)) then fail "C10" "intersection is not the pointwise intersection"
    else if on "C10" && (dj <> (ma land mb = 0)) then fail "C10" "is_disjoint disagrees with the pointwise definition"
    else if on "C10" && (ss <> (ma land (lnot mb) = 0)) then fail "C10" "subset_of disagrees with the pointwise definition"
    else if on "C10" && (eq <> (ma = mb)) then fail "C10" "== is not equality of the sets of points"
    else if on "C10" && (fbool obs "ieqa" <> ss) then fail "C10" "a∩b == a is not equivalent to subset_of"
    else if on "C10" && (fbool obs "iempty" <> dj) then fail "C10" "a∩b == ∅ is not equivalent to is_disjoint"
    else if on "C16" && ((cmp = "eq") <> eq) then fail "C16" "cmp is Equal but == is false (or conversely)"
    else if on "C16" && (pcmp <> cmp) then fail "C16" "partial_cmp disagrees with cmp"
    else if on "C16" && (eq && not (fbool obs "heq")) then fail "C16" "equal ranges hash differently"
    else None
  | [Sx.A "r3"; _; _; _] ->
    (match obs with
     | [Sx.L [Sx.A ab; Sx.A bc; Sx.A ac]] ->
       let le x = (x = "lt" || x = "eq") in
       if on "C16" && (ab = "lt" && bc = "lt" && ac <> "lt") then fail "C16" "ordering is not transitive"
       else if on "C16" && (le ab && le bc && not (le ac)) then fail "C16" "ordering is not transitive (<=)"
       else if on "C16" && (ab = "eq" && bc <> ac) then fail "C16" "ordering is not consistent with equality"
       else None
     | _ -> fail "C16" "malformed observation")
  | [Sx.A "rv"; _k; _tree; segs; vs] ->
    let each = Sx.atom (field obs "each") and many = Sx.atom (field obs "many") in
    let simp = parse_segs (field obs "simp") and se = Sx.atom (field obs "simp-each") in
    let a = parse_segs segs in
    let vsl = ints vs in
    let want = "b" ^ String.concat "" (List.map (fun v -> b01 (List.exists (fun sg -> seg_has sg v) a)) vsl) in
    if on "C15" && (each <> want) then fail "C15" "contains disagrees with the segments"
    else if on "C15" && (many <> each) then fail "C15" "contains_many differs from mapping contains"
    else if on "C15" && (se <> each) then fail "C15" "simplify changes membership of a listed version"
    else if on "C15" && (List.length simp > List.length a) then fail "C15" "simplify has more segments than the original"
    else if on "C15" && ((match a with [(Incl x, Incl y)] -> x = y | _ -> false) && simp <> a) then fail "C15" "simplify changed a singleton"
    else if on "C15" && (not (String.contains each '1') && simp <> a) then fail "C15" "simplify changed a range matching none of the versions"
    else None
  | [Sx.A "rb"; s; e; _] ->
    let r = parse_segs (field obs "r") in
    let s = parse_bound s and e = parse_bound e in
    if on "C15" && (Sx.atom (field obs "contains") <> Sx.atom (field obs "std")) then fail "C15" "from_range_bounds does not contain exactly what the std bounds contain"
    else if on "C15" && ((r = []) <> (not (RZ.valid_segment s e))) then fail "C15" "from_range_bounds: empty interval does not give the empty range"
    else None
  | _ -> None

(* every property whose checks fail on this case *)
let oracles (c : Sx.t) (rust : str) : (str * str) list =
  let r = List.filter_map (fun p -> only := Some p; let x = (try oracle1 c rust with e -> only := None; raise e) in only := None; x)
      ["C10"; "C15"; "C16"] in
  List.sort_uniq compare r
let oracle (c : Sx.t) (rust : str) : (str * str) option = match oracles c rust with [] -> None | x :: _ -> Some x
