(* Extraction of the executable model to OCaml.  ExtrOcamlBasic only: no Extract Constant of our own,
   numbers stay the Coq inductives, text is [list N]. *)
From Coq Require Extraction ExtrOcamlBasic.
From PG Require Import Model.Text Model.SemVer Model.Range Model.Instances.

Extraction "model.ml"
  dec_N dec_Z txt
  RZ rz_display
  sv_parse sv_display sv_compare sv_to_tuple sv_of_tuple bump_patch bump_minor bump_major.
