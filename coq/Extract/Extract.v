(* Extraction of the executable model to OCaml.  ExtrOcamlBasic only: no Extract Constant of our own,
   numbers stay the Coq inductives, text is [list N]. *)
From Coq Require Extraction ExtrOcamlBasic.
From PG Require Import Model.Text Model.SemVer Model.Range Model.Instances Model.VS Model.Term Model.Offline Model.Heap Model.Solver Model.Json Model.Report Proofs.SolverGen.

Extraction "model.ml"
  dec_N dec_Z txt
  RZ rz_display
  bitset_vs v8_of_N v8_idx all_v8
  run packages versions get_dependencies choose_version prioritize_count priority_compare
  resolve resolve_h resolve_g heap_step heap_run heap_pop heap_push
  collapse_no_versions merge_no_versions report_steps report_with_fuel
  t_any t_empty t_exact t_negate t_contains t_intersection t_union t_is_disjoint t_subset_of t_relation_with t_eqb t_is_positive
  enc_num dec_u32 enc_sv dec_sv encode_range_u32 decode_range_u32 encode_range_sv decode_range_sv
  encode_provider_u32 decode_provider_u32
  sv_parse sv_display sv_compare sv_to_tuple sv_of_tuple bump_patch bump_minor bump_major.
