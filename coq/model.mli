
type ('a, 'b) sum =
| Inl of 'a
| Inr of 'b

val app : 'a1 list -> 'a1 list -> 'a1 list

type comparison =
| Eq
| Lt
| Gt

type uint =
| Nil
| D0 of uint
| D1 of uint
| D2 of uint
| D3 of uint
| D4 of uint
| D5 of uint
| D6 of uint
| D7 of uint
| D8 of uint
| D9 of uint

val revapp : uint -> uint -> uint

val rev : uint -> uint

module Little :
 sig
  val double : uint -> uint

  val succ_double : uint -> uint
 end

type positive =
| XI of positive
| XO of positive
| XH

type n =
| N0
| Npos of positive

type z =
| Z0
| Zpos of positive
| Zneg of positive

module Pos :
 sig
  type mask =
  | IsNul
  | IsPos of positive
  | IsNeg
 end

module Coq_Pos :
 sig
  val succ : positive -> positive

  val add : positive -> positive -> positive

  val add_carry : positive -> positive -> positive

  val pred_double : positive -> positive

  type mask = Pos.mask =
  | IsNul
  | IsPos of positive
  | IsNeg

  val succ_double_mask : mask -> mask

  val double_mask : mask -> mask

  val double_pred_mask : positive -> mask

  val sub_mask : positive -> positive -> mask

  val sub_mask_carry : positive -> positive -> mask

  val mul : positive -> positive -> positive

  val compare_cont : comparison -> positive -> positive -> comparison

  val compare : positive -> positive -> comparison

  val eqb : positive -> positive -> bool

  val to_little_uint : positive -> uint

  val to_uint : positive -> uint
 end

module N :
 sig
  val add : n -> n -> n

  val sub : n -> n -> n

  val mul : n -> n -> n

  val compare : n -> n -> comparison

  val eqb : n -> n -> bool

  val leb : n -> n -> bool

  val ltb : n -> n -> bool

  val to_uint : n -> uint
 end

type ascii =
| Ascii of bool * bool * bool * bool * bool * bool * bool * bool

val n_of_digits : bool list -> n

val n_of_ascii : ascii -> n

val rev0 : 'a1 list -> 'a1 list

type string =
| EmptyString
| String of ascii * string

type text = n list

val bytes_of_string : string -> text

val txt : string -> text

val uint_bytes : uint -> text

val dec_N : n -> text

val dec_Z : z -> text

val is_digit : n -> bool

type semver = { major : n; minor : n; patch : n }

val u32_max : n

val in_u32 : n -> bool

val sv_display : semver -> text

val split_dot_aux : text -> text -> text list

val split_dot : text -> text list

type int_err =
| IEmpty
| IInvalidDigit
| IPosOverflow

val parse_digits : n -> text -> (n, int_err) sum

val parse_u32 : text -> (n, int_err) sum

type sv_parse_result =
| ParseOk of semver
| NotThreeParts of text
| ParseIntError of text * text * int_err

val sv_parse : text -> sv_parse_result

val sv_compare : semver -> semver -> comparison

val sv_to_tuple : semver -> (n * n) * n

val sv_of_tuple : ((n * n) * n) -> semver

val bump_patch : semver -> semver option

val bump_minor : semver -> semver option

val bump_major : semver -> semver option
