
val negb : bool -> bool

type nat =
| O
| S of nat

val option_map : ('a1 -> 'a2) -> 'a1 option -> 'a2 option

type ('a, 'b) sum =
| Inl of 'a
| Inr of 'b

val fst : ('a1 * 'a2) -> 'a1

val snd : ('a1 * 'a2) -> 'a2

val length : 'a1 list -> nat

val app : 'a1 list -> 'a1 list -> 'a1 list

type comparison =
| Eq
| Lt
| Gt

val compOpp : comparison -> comparison

type uint =
| Nil
| D0 of uint
| D1 of uint
| D2 of uint
| D3 of uint
| D4 of uint
| D5 of uint
| D6 of uint
| D7 of uint
| D8 of uint
| D9 of uint

val revapp : uint -> uint -> uint

val rev : uint -> uint

module Little :
 sig
  val double : uint -> uint

  val succ_double : uint -> uint
 end

val add : nat -> nat -> nat

val mul : nat -> nat -> nat

val sub : nat -> nat -> nat

val eqb : nat -> nat -> bool

type positive =
| XI of positive
| XO of positive
| XH

type n =
| N0
| Npos of positive

type z =
| Z0
| Zpos of positive
| Zneg of positive

module type UsualOrderedTypeFull =
 sig
  type t

  val compare : t -> t -> comparison

  val eq_dec : t -> t -> bool
 end

module Nat :
 sig
  val pred : nat -> nat

  val eqb : nat -> nat -> bool

  val leb : nat -> nat -> bool

  val ltb : nat -> nat -> bool

  val compare : nat -> nat -> comparison

  val max : nat -> nat -> nat

  val min : nat -> nat -> nat

  val div2 : nat -> nat
 end

module Pos :
 sig
  type mask =
  | IsNul
  | IsPos of positive
  | IsNeg
 end

module Coq_Pos :
 sig
  val succ : positive -> positive

  val add : positive -> positive -> positive

  val add_carry : positive -> positive -> positive

  val pred_double : positive -> positive

  val pred_N : positive -> n

  type mask = Pos.mask =
  | IsNul
  | IsPos of positive
  | IsNeg

  val succ_double_mask : mask -> mask

  val double_mask : mask -> mask

  val double_pred_mask : positive -> mask

  val sub_mask : positive -> positive -> mask

  val sub_mask_carry : positive -> positive -> mask

  val mul : positive -> positive -> positive

  val iter : ('a1 -> 'a1) -> 'a1 -> positive -> 'a1

  val compare_cont : comparison -> positive -> positive -> comparison

  val compare : positive -> positive -> comparison

  val eqb : positive -> positive -> bool

  val coq_Nsucc_double : n -> n

  val coq_Ndouble : n -> n

  val coq_land : positive -> positive -> n

  val coq_lxor : positive -> positive -> n

  val shiftl : positive -> n -> positive

  val testbit : positive -> n -> bool

  val to_little_uint : positive -> uint

  val to_uint : positive -> uint

  val eq_dec : positive -> positive -> bool
 end

module N :
 sig
  val add : n -> n -> n

  val sub : n -> n -> n

  val mul : n -> n -> n

  val compare : n -> n -> comparison

  val eqb : n -> n -> bool

  val leb : n -> n -> bool

  val ltb : n -> n -> bool

  val coq_land : n -> n -> n

  val coq_lxor : n -> n -> n

  val shiftl : n -> n -> n

  val testbit : n -> n -> bool

  val to_uint : n -> uint
 end

type ascii =
| Ascii of bool * bool * bool * bool * bool * bool * bool * bool

val n_of_digits : bool list -> n

val n_of_ascii : ascii -> n

val hd_error : 'a1 list -> 'a1 option

val nth : nat -> 'a1 list -> 'a1 -> 'a1

val nth_error : 'a1 list -> nat -> 'a1 option

val last : 'a1 list -> 'a1 -> 'a1

val removelast : 'a1 list -> 'a1 list

val rev0 : 'a1 list -> 'a1 list

val map : ('a1 -> 'a2) -> 'a1 list -> 'a2 list

val flat_map : ('a1 -> 'a2 list) -> 'a1 list -> 'a2 list

val fold_left : ('a1 -> 'a2 -> 'a1) -> 'a2 list -> 'a1 -> 'a1

val fold_right : ('a2 -> 'a1 -> 'a1) -> 'a1 -> 'a2 list -> 'a1

val existsb : ('a1 -> bool) -> 'a1 list -> bool

val forallb : ('a1 -> bool) -> 'a1 list -> bool

val filter : ('a1 -> bool) -> 'a1 list -> 'a1 list

val combine : 'a1 list -> 'a2 list -> ('a1 * 'a2) list

val firstn : nat -> 'a1 list -> 'a1 list

val skipn : nat -> 'a1 list -> 'a1 list

val seq : nat -> nat -> nat list

module Z :
 sig
  val compare : z -> z -> comparison

  val leb : z -> z -> bool

  val ltb : z -> z -> bool

  val gtb : z -> z -> bool

  val eqb : z -> z -> bool

  val max : z -> z -> z

  val of_N : n -> z

  val eq_dec : z -> z -> bool
 end

type string =
| EmptyString
| String of ascii * string

type text = n list

val bytes_of_string : string -> text

val txt : string -> text

val uint_bytes : uint -> text

val dec_N : n -> text

val dec_Z : z -> text

val is_digit : n -> bool

val text_eqb : text -> text -> bool

val join : text -> text list -> text

type semver = { major : n; minor : n; patch : n }

val u32_max : n

val in_u32 : n -> bool

val sv_display : semver -> text

val split_dot_aux : text -> text -> text list

val split_dot : text -> text list

type int_err =
| IEmpty
| IInvalidDigit
| IPosOverflow

val parse_digits : n -> text -> (n, int_err) sum

val parse_u32 : text -> (n, int_err) sum

type sv_parse_result =
| ParseOk of semver
| NotThreeParts of text
| ParseIntError of text * text * int_err

val sv_parse : text -> sv_parse_result

val sv_compare : semver -> semver -> comparison

val sv_to_tuple : semver -> (n * n) * n

val sv_of_tuple : ((n * n) * n) -> semver

val bump_patch : semver -> semver option

val bump_minor : semver -> semver option

val bump_major : semver -> semver option

type ('vS, 'vr) vSReq = { rq_eqb : ('vS -> 'vS -> bool); rq_empty : 'vS;
                          rq_singleton : ('vr -> 'vS);
                          rq_complement : ('vS -> 'vS);
                          rq_intersection : ('vS -> 'vS -> 'vS);
                          rq_contains : ('vS -> 'vr -> bool) }

type ('vS, 'vr) vSOps = { vs_eqb : ('vS -> 'vS -> bool); vs_empty : 'vS;
                          vs_singleton : ('vr -> 'vS);
                          vs_complement : ('vS -> 'vS);
                          vs_intersection : ('vS -> 'vS -> 'vS);
                          vs_contains : ('vS -> 'vr -> bool); vs_full : 
                          'vS; vs_union : ('vS -> 'vS -> 'vS);
                          vs_is_disjoint : ('vS -> 'vS -> bool);
                          vs_subset_of : ('vS -> 'vS -> bool) }

val full_default : ('a1, 'a2) vSReq -> 'a1

val union_default : ('a1, 'a2) vSReq -> 'a1 -> 'a1 -> 'a1

val is_disjoint_default : ('a1, 'a2) vSReq -> 'a1 -> 'a1 -> bool

val subset_of_default : ('a1, 'a2) vSReq -> 'a1 -> 'a1 -> bool

val with_defaults : ('a1, 'a2) vSReq -> ('a1, 'a2) vSOps

type v8 =
| V0
| V1
| V2
| V3
| V4
| V5
| V6
| V7

val v8_idx : v8 -> n

val v8_of_N : n -> v8

val all_v8 : v8 list

val bs_mask : n

val bitset_req : (n, v8) vSReq

val bitset_vs : (n, v8) vSOps

type 't bound =
| Incl of 't
| Excl of 't
| Unb

module RangeM :
 functor (V:UsualOrderedTypeFull) ->
 sig
  type ver = V.t

  type bnd = V.t bound

  type seg = bnd * bnd

  type range = seg list

  val vltb : ver -> ver -> bool

  val vleb : ver -> ver -> bool

  val veqb : ver -> ver -> bool

  val vmax : ver -> ver -> ver

  val empty : range

  val full : range

  val higher_than : ver -> range

  val strictly_higher_than : ver -> range

  val strictly_lower_than : ver -> range

  val lower_than : ver -> range

  val between : ver -> ver -> range

  val singleton : ver -> range

  val is_empty : range -> bool

  val valid_segment : bnd -> bnd -> bool

  val end_before_start_with_gap : bnd -> bnd -> bool

  val left_start_is_smaller : bnd -> bnd -> bool

  val left_end_is_smaller : bnd -> bnd -> bool

  val within_bounds : ver -> seg -> comparison

  val cmp_bounds_start : bnd -> bnd -> comparison

  val cmp_bounds_end : bnd -> bnd -> comparison

  val acc_end : bnd -> bnd -> bnd

  val inter_start : bnd -> bnd -> bnd

  val flip : bnd -> bnd

  val negate_segments : bnd -> range -> range

  val complement : range -> range

  val merge : range -> range -> range

  val coalesce : seg -> range -> range

  val union : range -> range -> range

  val inter_emit : bnd -> bnd -> bnd -> bnd -> range

  val intersection : range -> range -> range

  val is_disjoint : range -> range -> bool

  val advance : bnd -> seg -> range -> (seg * range) option

  val subset_loop : range -> seg -> range -> bool

  val subset_of : range -> range -> bool

  val cursor : ver -> range -> bool * range

  val contains : range -> ver -> bool

  val contains_many : range -> ver list -> bool list

  val as_singleton : range -> ver option

  val bounding_range : range -> (bnd * bnd) option

  val from_range_bounds : bnd -> bnd -> range

  val gaps_ok : range -> bool

  val check_invariants : range -> bool

  val loc_cursor : ver -> nat -> range -> (nat option * nat) * range

  val version_locations : nat -> range -> ver list -> nat option list

  type group = nat option * nat option

  val gal : group option -> nat option list -> group list

  val group_adjacent_locations : nat option list -> group list

  val keep_segments : range -> group list -> range

  val simplify : range -> ver list -> range

  val iter : range -> (bnd * bnd) list

  val range_cmp : range -> range -> comparison

  val range_partial_cmp : range -> range -> comparison option

  val bound_eqb : bnd -> bnd -> bool

  val range_eqb : range -> range -> bool

  type token =
  | TStar
  | TVer of ver
  | TLt of ver
  | TLe of ver
  | TGt of ver
  | TGe of ver

  val token_rect :
    'a1 -> (ver -> 'a1) -> (ver -> 'a1) -> (ver -> 'a1) -> (ver -> 'a1) ->
    (ver -> 'a1) -> token -> 'a1

  val token_rec :
    'a1 -> (ver -> 'a1) -> (ver -> 'a1) -> (ver -> 'a1) -> (ver -> 'a1) ->
    (ver -> 'a1) -> token -> 'a1

  val seg_tokens : seg -> token list

  val display_tokens : range -> token list list

  val display_seg : (ver -> text) -> seg -> text

  val display : (ver -> text) -> range -> text

  val render_token : (ver -> text) -> token -> text

  val render : (ver -> text) -> token list list -> text

  val range_vs : (range, ver) vSOps
 end

module ZV :
 sig
  type t = z

  val eq_dec : z -> z -> bool

  val compare : z -> z -> comparison
 end

module RZ :
 sig
  type ver = z

  type bnd = z bound

  type seg = bnd * bnd

  type range = seg list

  val vltb : ver -> ver -> bool

  val vleb : ver -> ver -> bool

  val veqb : ver -> ver -> bool

  val vmax : ver -> ver -> ver

  val empty : range

  val full : range

  val higher_than : ver -> range

  val strictly_higher_than : ver -> range

  val strictly_lower_than : ver -> range

  val lower_than : ver -> range

  val between : ver -> ver -> range

  val singleton : ver -> range

  val is_empty : range -> bool

  val valid_segment : bnd -> bnd -> bool

  val end_before_start_with_gap : bnd -> bnd -> bool

  val left_start_is_smaller : bnd -> bnd -> bool

  val left_end_is_smaller : bnd -> bnd -> bool

  val within_bounds : ver -> seg -> comparison

  val cmp_bounds_start : bnd -> bnd -> comparison

  val cmp_bounds_end : bnd -> bnd -> comparison

  val acc_end : bnd -> bnd -> bnd

  val inter_start : bnd -> bnd -> bnd

  val flip : bnd -> bnd

  val negate_segments : bnd -> range -> range

  val complement : range -> range

  val merge : range -> range -> range

  val coalesce : seg -> range -> range

  val union : range -> range -> range

  val inter_emit : bnd -> bnd -> bnd -> bnd -> range

  val intersection : range -> range -> range

  val is_disjoint : range -> range -> bool

  val advance : bnd -> seg -> range -> (seg * range) option

  val subset_loop : range -> seg -> range -> bool

  val subset_of : range -> range -> bool

  val cursor : ver -> range -> bool * range

  val contains : range -> ver -> bool

  val contains_many : range -> ver list -> bool list

  val as_singleton : range -> ver option

  val bounding_range : range -> (bnd * bnd) option

  val from_range_bounds : bnd -> bnd -> range

  val gaps_ok : range -> bool

  val check_invariants : range -> bool

  val loc_cursor : ver -> nat -> range -> (nat option * nat) * range

  val version_locations : nat -> range -> ver list -> nat option list

  type group = nat option * nat option

  val gal : group option -> nat option list -> group list

  val group_adjacent_locations : nat option list -> group list

  val keep_segments : range -> group list -> range

  val simplify : range -> ver list -> range

  val iter : range -> (bnd * bnd) list

  val range_cmp : range -> range -> comparison

  val range_partial_cmp : range -> range -> comparison option

  val bound_eqb : bnd -> bnd -> bool

  val range_eqb : range -> range -> bool

  type token =
  | TStar
  | TVer of ver
  | TLt of ver
  | TLe of ver
  | TGt of ver
  | TGe of ver

  val token_rect :
    'a1 -> (ver -> 'a1) -> (ver -> 'a1) -> (ver -> 'a1) -> (ver -> 'a1) ->
    (ver -> 'a1) -> token -> 'a1

  val token_rec :
    'a1 -> (ver -> 'a1) -> (ver -> 'a1) -> (ver -> 'a1) -> (ver -> 'a1) ->
    (ver -> 'a1) -> token -> 'a1

  val seg_tokens : seg -> token list

  val display_tokens : range -> token list list

  val display_seg : (ver -> text) -> seg -> text

  val display : (ver -> text) -> range -> text

  val render_token : (ver -> text) -> token -> text

  val render : (ver -> text) -> token list list -> text

  val range_vs : (range, ver) vSOps
 end

val rz_display : RZ.range -> text

type 'vS term =
| Pos of 'vS
| Neg of 'vS

type relation =
| Satisfied
| Contradicted
| Inconclusive

val t_any : ('a1, 'a2) vSOps -> 'a1 term

val t_empty : ('a1, 'a2) vSOps -> 'a1 term

val t_exact : ('a1, 'a2) vSOps -> 'a2 -> 'a1 term

val t_is_positive : 'a1 term -> bool

val t_negate : 'a1 term -> 'a1 term

val t_contains : ('a1, 'a2) vSOps -> 'a1 term -> 'a2 -> bool

val t_intersection : ('a1, 'a2) vSOps -> 'a1 term -> 'a1 term -> 'a1 term

val t_is_disjoint : ('a1, 'a2) vSOps -> 'a1 term -> 'a1 term -> bool

val t_union : ('a1, 'a2) vSOps -> 'a1 term -> 'a1 term -> 'a1 term

val t_subset_of : ('a1, 'a2) vSOps -> 'a1 term -> 'a1 term -> bool

val t_relation_with : ('a1, 'a2) vSOps -> 'a1 term -> 'a1 term -> relation

val t_eqb : ('a1, 'a2) vSOps -> 'a1 term -> 'a1 term -> bool

type pkg = n

type 'vS depmap = (pkg * 'vS) list

type 'vS provider = (pkg * (z * 'vS depmap) list) list

val empty_provider : 'a1 provider

val dm_insert : pkg -> 'a1 -> 'a1 depmap -> 'a1 depmap

val collect : (pkg * 'a1) list -> 'a1 depmap

val inner_set :
  z -> 'a1 depmap -> (z * 'a1 depmap) list -> (z * 'a1 depmap) list

val inner_get : z -> (z * 'a1 depmap) list -> 'a1 depmap option

val outer_get : pkg -> 'a1 provider -> (z * 'a1 depmap) list option

val outer_set : pkg -> (z * 'a1 depmap) list -> 'a1 provider -> 'a1 provider

val add_dependencies :
  'a1 provider -> pkg -> z -> (pkg * 'a1) list -> 'a1 provider

val packages : 'a1 provider -> pkg list

val versions : 'a1 provider -> pkg -> z list option

val dependencies : 'a1 provider -> pkg -> z -> 'a1 depmap option

val choose_version :
  ('a1 -> z -> bool) -> 'a1 provider -> pkg -> 'a1 -> z option

val prioritize_count : ('a1 -> z -> bool) -> 'a1 provider -> pkg -> 'a1 -> nat

val priority_compare : nat -> nat -> comparison

type 'vS dependencies_result =
| Unavailable
| Available of 'vS depmap

val get_dependencies : 'a1 provider -> pkg -> z -> 'a1 dependencies_result

type 'vS op = (pkg * z) * (pkg * 'vS) list

val run : 'a1 op list -> 'a1 provider

type 'i heap = ('i * z) list

val set_nth : nat -> 'a1 -> 'a1 list -> 'a1 list

val swap_pos : 'a1 heap -> nat -> nat -> 'a1 heap

val find_pos : ('a1 -> 'a1 -> bool) -> 'a1 -> 'a1 heap -> nat option

val bubble_up : nat -> 'a1 heap -> nat -> ('a1 * z) -> 'a1 heap * nat

val heapify : nat -> 'a1 heap -> nat -> 'a1 heap

val heap_push : ('a1 -> 'a1 -> bool) -> 'a1 heap -> 'a1 -> z -> 'a1 heap

val heap_pop : 'a1 heap -> (('a1 * z) * 'a1 heap) option

type 'i hop =
| HPush of 'i * z
| HPop
| HClear

val heap_step :
  ('a1 -> 'a1 -> bool) -> 'a1 heap -> 'a1 hop -> 'a1 heap * ('a1 * z) option

val heap_run :
  ('a1 -> 'a1 -> bool) -> 'a1 heap -> 'a1 hop list -> ('a1 * z) option list

type pkg0 = n

type ('vS, 'vr) kind =
| KNotRoot of pkg0 * 'vr
| KNoVersions of pkg0 * 'vS
| KFromDep of pkg0 * 'vS * pkg0 * 'vS
| KDerived of nat * nat
| KCustom of pkg0 * 'vS * n

type ('vS, 'vr) incompat = { terms : (pkg0 * 'vS term) list;
                             ikind : ('vS, 'vr) kind }

val get : pkg0 -> (pkg0 * 'a1) list -> 'a1 option

val remove : pkg0 -> (pkg0 * 'a1) list -> (pkg0 * 'a1) list

val set : pkg0 -> 'a1 -> (pkg0 * 'a1) list -> (pkg0 * 'a1) list

val not_root : ('a1, 'a2) vSOps -> pkg0 -> 'a2 -> ('a1, 'a2) incompat

val no_versions : pkg0 -> 'a1 term -> ('a1, 'a2) incompat option

val custom_version :
  ('a1, 'a2) vSOps -> pkg0 -> 'a2 -> n -> ('a1, 'a2) incompat

val from_dependency :
  ('a1, 'a2) vSOps -> pkg0 -> 'a1 -> (pkg0 * 'a1) -> ('a1, 'a2) incompat

val as_dependency : ('a1, 'a2) incompat -> (pkg0 * pkg0) option

val opt_term_eqb :
  ('a1, 'a2) vSOps -> 'a1 term option -> 'a1 term option -> bool

type panic_site =
| PIndexMissing
| PGetUnwrap
| PSatisfierUnreachable
| PSatisfierCauseNone
| PMustBeDecision
| PMustExist
| PDerivationAfterDecision
| PDecisionNoDerivations
| PDecisionAlready
| PDecisionNotContained
| PDecisionChangedAssert
| PExtractDerivation
| PNoVersionsNegative
| PSplitOne
| PUnwrapPositive
| PUnwrapNegative
| PTreeMissing
| PBacktrackEmpty
| PAnyTerm

type 'a res =
| Good of 'a
| Panic of panic_site

val bind : 'a1 res -> ('a1 -> 'a2 res) -> 'a2 res

val unwrap_positive : 'a1 term -> 'a1 res

val unwrap_negative : 'a1 term -> 'a1 res

val req : 'a1 option -> panic_site -> 'a1 res

val merge_dependents :
  ('a1, 'a2) vSOps -> ('a1, 'a2) incompat -> ('a1, 'a2) incompat -> ('a1,
  'a2) incompat option res

val merge_terms :
  ('a1, 'a2) vSOps -> (pkg0 * 'a1 term) list -> (pkg0 * 'a1 term) list ->
  (pkg0 * 'a1 term) list

val prior_cause :
  ('a1, 'a2) vSOps -> nat -> nat -> (pkg0 * 'a1 term) list -> (pkg0 * 'a1
  term) list -> pkg0 -> ('a1, 'a2) incompat res

val is_terminal :
  ('a1, 'a2) vSOps -> ('a1, 'a2) incompat -> pkg0 -> 'a2 -> bool

type 'vS dated = { d_gidx : nat; d_level : nat; d_cause : nat;
                   d_accum : 'vS term }

type ('vS, 'vr) assign_inter =
| ADecision of nat * 'vr * 'vS term
| ADerivations of 'vS term

type ('vS, 'vr) pa = { smallest : nat; highest : nat;
                       derivs : 'vS dated list; ai : ('vS, 'vr) assign_inter }

val ai_term : ('a1, 'a2) assign_inter -> 'a1 term

type ('vS, 'vr) psol = { next_gidx : nat; level : nat;
                         assignments : (pkg0 * ('vS, 'vr) pa) list;
                         queue : (pkg0 * (z * 'vS)) list; changed : nat;
                         backtracked : bool }

val ps_empty : ('a1, 'a2) psol

val term_for : ('a1, 'a2) psol -> pkg0 -> 'a1 term option

val index_of : pkg0 -> (pkg0 * ('a1, 'a2) pa) list -> nat -> nat option

val swap_indices : 'a1 list -> nat -> nat -> 'a1 list

type rel =
| RSatisfied
| RContradicted
| RAlmost of pkg0
| RInconclusive

val relation_scan :
  ('a1, 'a2) vSOps -> (pkg0 * 'a1 term) list -> (pkg0 -> 'a1 term option) ->
  pkg0 list -> pkg0 list option

val relation0 :
  ('a1, 'a2) vSOps -> (pkg0 * 'a1 term) list -> (pkg0 -> 'a1 term option) ->
  rel

val add_decision :
  ('a1, 'a2) vSOps -> ('a1, 'a2) psol -> pkg0 -> 'a2 -> ('a1, 'a2) psol res

val add_derivation :
  ('a1, 'a2) vSOps -> ('a1, 'a2) psol -> pkg0 -> nat -> (pkg0 * 'a1 term)
  list -> ('a1, 'a2) psol res

val pick_candidates : ('a1, 'a2) psol -> (pkg0 * 'a1) list

val queue_max : (pkg0 * (z * 'a1)) list -> z option

val drop_while_gt : nat -> 'a1 dated list -> 'a1 dated list

val backtrack_pa : nat -> ('a1, 'a2) pa -> ('a1, 'a2) pa option res

val backtrack_asg :
  nat -> (pkg0 * ('a1, 'a2) pa) list -> (pkg0 * ('a1, 'a2) pa) list res

val ps_backtrack : ('a1, 'a2) psol -> nat -> ('a1, 'a2) psol res

val first_disjoint :
  ('a1, 'a2) vSOps -> 'a1 dated list -> 'a1 term -> 'a1 dated option

val satisfier :
  ('a1, 'a2) vSOps -> ('a1, 'a2) pa -> 'a1 term -> ((nat option * nat) * nat)
  res

type sat_entry = pkg0 * ((nat option * nat) * nat)

val find_satisfier :
  ('a1, 'a2) vSOps -> (pkg0 * 'a1 term) list -> (pkg0 * ('a1, 'a2) pa) list
  -> sat_entry list res

val max_by_gidx : sat_entry list -> sat_entry option

type search =
| SDifferent of nat
| SSame of nat

val satisfier_search :
  ('a1, 'a2) vSOps -> (pkg0 * 'a1 term) list -> ('a1, 'a2) psol -> ('a1, 'a2)
  incompat list -> (pkg0 * search) res

type ('vS, 'vr) state = { root : pkg0; rootv : 'vr;
                          index : (pkg0 * nat list) list;
                          contradicted : (nat * nat) list;
                          merged : ((pkg0 * pkg0) * nat list) list;
                          ps : ('vS, 'vr) psol;
                          store : ('vS, 'vr) incompat list }

val upd_ps : ('a1, 'a2) state -> ('a1, 'a2) psol -> ('a1, 'a2) state

val state_init : ('a1, 'a2) vSOps -> pkg0 -> 'a2 -> ('a1, 'a2) state

val pair_eqb : (pkg0 * pkg0) -> (pkg0 * pkg0) -> bool

val get2 : (pkg0 * pkg0) -> ((pkg0 * pkg0) * nat list) list -> nat list option

val set2 :
  (pkg0 * pkg0) -> nat list -> ((pkg0 * pkg0) * nat list) list ->
  ((pkg0 * pkg0) * nat list) list

val index_get : pkg0 -> (pkg0 * nat list) list -> nat list

val find_merge :
  ('a1, 'a2) vSOps -> ('a1, 'a2) incompat -> nat list -> ('a1, 'a2) incompat
  list -> (nat * ('a1, 'a2) incompat) option res

val index_push :
  nat -> (pkg0 * 'a1 term) list -> (pkg0 * nat list) list -> (pkg0 * nat
  list) list

val index_drop :
  nat -> (pkg0 * 'a1 term) list -> (pkg0 * nat list) list -> (pkg0 * nat
  list) list

val has_any : ('a1, 'a2) vSOps -> (pkg0 * 'a1 term) list -> bool

val merge_incompatibility :
  ('a1, 'a2) vSOps -> ('a1, 'a2) state -> nat -> ('a1, 'a2) state res

val alloc : ('a1, 'a2) state -> ('a1, 'a2) incompat -> ('a1, 'a2) state * nat

val add_incompatibility :
  ('a1, 'a2) vSOps -> ('a1, 'a2) state -> ('a1, 'a2) incompat -> ('a1, 'a2)
  state res

val merge_range :
  ('a1, 'a2) vSOps -> ('a1, 'a2) state -> nat list -> ('a1, 'a2) state res

val add_incompatibility_from_dependencies :
  ('a1, 'a2) vSOps -> ('a1, 'a2) state -> pkg0 -> 'a2 -> (pkg0 * 'a1) list ->
  (('a1, 'a2) state * (nat * nat)) res

val add_version :
  ('a1, 'a2) vSOps -> ('a1, 'a2) psol -> pkg0 -> 'a2 -> (nat * nat) -> ('a1,
  'a2) incompat list -> ('a1, 'a2) psol res

val backtrack :
  ('a1, 'a2) vSOps -> ('a1, 'a2) state -> nat -> bool -> nat -> ('a1, 'a2)
  state res

type ('vS, 'vr) cr_result =
| CROk of ('vS, 'vr) state * pkg0 * nat
| CRTerminal of ('vS, 'vr) state * nat

type outcome_err =
| EFuel
| EPanic of panic_site

val conflict_resolution :
  ('a1, 'a2) vSOps -> nat -> ('a1, 'a2) state -> nat -> bool -> (('a1, 'a2)
  cr_result, outcome_err) sum

val cache_set : nat -> nat -> (nat * nat) list -> (nat * nat) list

val cached : nat -> (nat * nat) list -> bool

val upd_cache : ('a1, 'a2) state -> (nat * nat) list -> ('a1, 'a2) state

val scan_incompats :
  ('a1, 'a2) vSOps -> nat list -> ('a1, 'a2) state -> pkg0 list -> ((('a1,
  'a2) state * pkg0 list) * nat option) res

type ('vS, 'vr) up_result =
| UPOk of ('vS, 'vr) state
| UPConflict of ('vS, 'vr) state * nat

val unit_propagation :
  ('a1, 'a2) vSOps -> nat -> ('a1, 'a2) state -> pkg0 list -> (('a1, 'a2)
  up_result, outcome_err) sum

type ('vS, 'vr) external0 =
| XNotRoot of pkg0 * 'vr
| XNoVersions of pkg0 * 'vS
| XFromDep of pkg0 * 'vS * pkg0 * 'vS
| XCustom of pkg0 * 'vS * n

type ('vS, 'vr) tree =
| TExternal of ('vS, 'vr) external0
| TDerived of (pkg0 * 'vS term) list * nat option * ('vS, 'vr) tree
   * ('vS, 'vr) tree

val tree_dfs :
  nat -> ('a1, 'a2) incompat list -> nat list -> nat list -> nat list -> (nat
  list * nat list) option

val tree_of :
  nat -> ('a1, 'a2) incompat list -> nat list -> nat -> ('a1, 'a2) tree option

val build_derivation_tree :
  ('a1, 'a2) incompat list -> nat -> ('a1, 'a2) tree option

type 'vr choose_ans =
| CSome of 'vr
| CNone
| CErr

type 'vS deps_ans =
| DAvail of (pkg0 * 'vS) list
| DUnavail of n
| DErr

type ('vS, 'vr) event =
| EvCancel of bool
| EvPrioritize of pkg0 * 'vS * z
| EvChoose of pkg0 * 'vS * 'vr choose_ans
| EvDeps of pkg0 * 'vr * 'vS deps_ans

type failure =
| FNoTerm
| FIncompatibleVersion

type ('vS, 'vr) outcome =
| OSolution of (pkg0 * 'vr) list
| ONoSolution of ('vS, 'vr) tree
| OErrCancel
| OErrChoose
| OErrDeps of pkg0 * 'vr
| OFailure of failure
| OPanic of panic_site
| OOutOfFuel
| OMismatch of nat * n
| OPickNotMax of nat * pkg0

val do_prioritize :
  ('a1, 'a2) vSOps -> (pkg0 * 'a1) list -> (pkg0 * (z * 'a1)) list -> ('a1,
  'a2) event list -> nat -> (((pkg0 * (z * 'a1)) list * ('a1, 'a2) event
  list) * nat, ('a1, 'a2) outcome) sum

val extract_solution : ('a1, 'a2) psol -> (pkg0 * 'a2) list res

val added_has :
  ('a1 -> 'a1 -> bool) -> (pkg0 * 'a1) list -> pkg0 -> 'a1 -> bool

type 'vS pick_info = ((pkg0 * 'vS) list * (pkg0 * (z * 'vS)) list) * nat

val undecided_positive : ('a1, 'a2) psol -> (pkg0 * 'a1) list

type ('vS, 'vr) result =
  ((('vS, 'vr) outcome * ('vS, 'vr) state) * 'vS pick_info list) * nat

val res_out :
  'a1 pick_info list -> nat -> 'a3 res -> ('a3 -> ('a1, 'a2) result) -> ('a1,
  'a2) state -> ('a1, 'a2) result

val resolve_loop :
  ('a1, 'a2) vSOps -> ('a2 -> 'a2 -> bool) -> nat -> ('a1, 'a2) state -> pkg0
  -> (pkg0 * 'a2) list -> ('a1, 'a2) event list -> nat -> 'a1 pick_info list
  -> ('a1, 'a2) result

val resolve :
  ('a1, 'a2) vSOps -> ('a2 -> 'a2 -> bool) -> nat -> pkg0 -> 'a2 -> ('a1,
  'a2) event list -> ('a1, 'a2) result

val heap_after_propagation : (pkg0 * (z * 'a1)) list -> pkg0 heap -> pkg0 heap

val heap_pushes : pkg0 heap -> ('a1, 'a2) event list -> pkg0 heap

val resolve_loop_h :
  ('a1, 'a2) vSOps -> ('a2 -> 'a2 -> bool) -> nat -> ('a1, 'a2) state -> pkg0
  -> (pkg0 * 'a2) list -> pkg0 heap -> ('a1, 'a2) event list -> nat -> 'a1
  pick_info list -> ('a1, 'a2) result

val resolve_h :
  ('a1, 'a2) vSOps -> ('a2 -> 'a2 -> bool) -> nat -> pkg0 -> 'a2 -> ('a1,
  'a2) event list -> ('a1, 'a2) result

type json =
| JNull
| JBool of bool
| JNum of z
| JStr of text
| JArr of json list
| JObj of (text * json) list

val s_unbounded : text

val s_included : text

val s_excluded : text

val map_opt : ('a1 -> 'a2 option) -> 'a1 list -> 'a2 list option

val encode_bound : ('a1 -> json) -> 'a1 bound -> json

val decode_bound : (json -> 'a1 option) -> json -> 'a1 bound option

val decode_opt : (json -> 'a1 option) -> json -> 'a1 option option

val decode_legacy :
  (json -> 'a1 option) -> json -> json -> ('a1 bound * 'a1 bound) option

val decode_interval :
  (json -> 'a1 option) -> json -> ('a1 bound * 'a1 bound) option

val encode_interval : ('a1 -> json) -> ('a1 bound * 'a1 bound) -> json

val encode_range : ('a1 -> json) -> ('a1 bound * 'a1 bound) list -> json

val decode_range :
  (json -> 'a1 option) -> json -> ('a1 bound * 'a1 bound) list option

val enc_num : z -> json

val z_in_u32 : z -> bool

val dec_u32 : json -> z option

val enc_sv : semver -> json

val dec_sv : json -> semver option

val key_of_N : n -> text

val n_of_key : text -> n option

val key_of_Z : z -> text

val z_of_key : text -> z option

val encode_entries :
  ('a1 -> text) -> ('a2 -> json) -> ('a1 * 'a2) list -> json

val decode_entry :
  (text -> 'a1 option) -> (json -> 'a2 option) -> (text * json) ->
  ('a1 * 'a2) option

val decode_entries :
  (text -> 'a1 option) -> (json -> 'a2 option) -> json -> ('a1 * 'a2) list
  option

val encode_depmap : ('a1 -> json) -> 'a1 depmap -> json

val decode_depmap : (json -> 'a1 option) -> json -> 'a1 depmap option

val encode_inner : ('a1 -> json) -> (z * 'a1 depmap) list -> json

val decode_inner :
  (json -> 'a1 option) -> json -> (z * 'a1 depmap) list option

val encode_provider : ('a1 -> json) -> 'a1 provider -> json

val decode_provider : (json -> 'a1 option) -> json -> 'a1 provider option

val encode_range_u32 : RZ.range -> json

val decode_range_u32 : json -> RZ.range option

val encode_range_sv : (semver bound * semver bound) list -> json

val decode_range_sv : json -> (semver bound * semver bound) list option

val encode_provider_u32 : RZ.range provider -> json

val decode_provider_u32 : json -> RZ.range provider option

type ('vS, 'vr) merge_res =
| MMerged of ('vS, 'vr) tree
| MNotMergeable
| MPanic

val merge_no_versions :
  ('a1, 'a2) vSOps -> ('a1, 'a2) tree -> pkg0 -> 'a1 -> ('a1, 'a2) merge_res

type ('vS, 'vr) collapse_res =
| CTree of ('vS, 'vr) tree
| CPanic

val merge_or_keep :
  ('a1, 'a2) vSOps -> ('a1, 'a2) tree -> pkg0 -> 'a1 -> ('a1, 'a2) tree ->
  ('a1, 'a2) collapse_res

val collapse_no_versions :
  ('a1, 'a2) vSOps -> ('a1, 'a2) tree -> ('a1, 'a2) collapse_res

type ('vS, 'vr) step_kind =
| KBothExternal of ('vS, 'vr) external0 * ('vS, 'vr) external0
| KBothRef of nat * (pkg0 * 'vS term) list * nat * (pkg0 * 'vS term) list
| KRefAndExternal of nat * (pkg0 * 'vS term) list * ('vS, 'vr) external0
| KAndExternal of ('vS, 'vr) external0
| KAndRef of nat * (pkg0 * 'vS term) list
| KAndPriorAndExternal of ('vS, 'vr) external0 * ('vS, 'vr) external0
| KBlank
| KOnlyExternal of ('vS, 'vr) external0

type ('vS, 'vr) step = { s_kind : ('vS, 'vr) step_kind;
                         s_concl : (pkg0 * 'vS term) list; s_nums : nat list }

type ('vS, 'vr) rstate = { ref_count : nat;
                           shared_with_ref : (nat * nat) list;
                           lines : ('vS, 'vr) step list }

val rstate_new : ('a1, 'a2) rstate

val lookup : nat -> (nat * nat) list -> nat option

val line_ref_of : ('a1, 'a2) rstate -> nat option -> nat option

val push :
  ('a1, 'a2) rstate -> ('a1, 'a2) step_kind -> (pkg0 * 'a1 term) list ->
  ('a1, 'a2) rstate

val add_num : ('a1, 'a2) step -> nat -> ('a1, 'a2) step

val add_line_ref : ('a1, 'a2) rstate -> ('a1, 'a2) rstate

val insert_shared : ('a1, 'a2) rstate -> nat -> nat -> ('a1, 'a2) rstate

val bind0 :
  ('a1, 'a2) rstate option -> (('a1, 'a2) rstate -> ('a1, 'a2) rstate option)
  -> ('a1, 'a2) rstate option

val report_recurse_one_each :
  ((pkg0 * 'a1 term) list -> nat option -> ('a1, 'a2) tree -> ('a1, 'a2) tree
  -> ('a1, 'a2) rstate -> ('a1, 'a2) rstate option) -> (pkg0 * 'a1 term) list
  -> nat option -> ('a1, 'a2) tree -> ('a1, 'a2) tree -> ('a1, 'a2) external0
  -> (pkg0 * 'a1 term) list -> ('a1, 'a2) rstate -> ('a1, 'a2) rstate option

val report_one_each :
  ((pkg0 * 'a1 term) list -> nat option -> ('a1, 'a2) tree -> ('a1, 'a2) tree
  -> ('a1, 'a2) rstate -> ('a1, 'a2) rstate option) -> (pkg0 * 'a1 term) list
  -> nat option -> ('a1, 'a2) tree -> ('a1, 'a2) tree -> ('a1, 'a2) external0
  -> (pkg0 * 'a1 term) list -> ('a1, 'a2) rstate -> ('a1, 'a2) rstate option

val build_recursive_helper :
  ((pkg0 * 'a1 term) list -> nat option -> ('a1, 'a2) tree -> ('a1, 'a2) tree
  -> ('a1, 'a2) rstate -> ('a1, 'a2) rstate option) -> (pkg0 * 'a1 term) list
  -> nat option -> ('a1, 'a2) tree -> ('a1, 'a2) tree -> ('a1, 'a2) rstate ->
  ('a1, 'a2) rstate option

val build_recursive :
  nat -> (pkg0 * 'a1 term) list -> nat option -> ('a1, 'a2) tree -> ('a1,
  'a2) tree -> ('a1, 'a2) rstate -> ('a1, 'a2) rstate option

val tree_size : ('a1, 'a2) tree -> nat

type ('vS, 'vr) report_res =
| RSteps of ('vS, 'vr) step list
| ROutOfFuel

val report_with_fuel : nat -> ('a1, 'a2) tree -> ('a1, 'a2) report_res

val report_steps : ('a1, 'a2) tree -> ('a1, 'a2) report_res

type ('vS, 'vr) tprovider = { p_cancel : (('vS, 'vr) event list -> bool);
                              p_prio : (('vS, 'vr) event list -> pkg0 -> 'vS
                                       -> z);
                              p_choose : (('vS, 'vr) event list -> pkg0 ->
                                         'vS -> 'vr choose_ans);
                              p_deps : (('vS, 'vr) event list -> pkg0 -> 'vr
                                       -> 'vS deps_ans) }

val gen_prioritize :
  ('a1, 'a2) tprovider -> (pkg0 * 'a1) list -> (pkg0 * (z * 'a1)) list ->
  ('a1, 'a2) event list -> (pkg0 * (z * 'a1)) list * ('a1, 'a2) event list

val res_out_g :
  'a1 pick_info list -> nat -> 'a3 res -> ('a3 -> ('a1, 'a2) result * ('a1,
  'a2) event list) -> ('a1, 'a2) state -> ('a1, 'a2) event list -> ('a1, 'a2)
  result * ('a1, 'a2) event list

val resolve_loop_g :
  ('a1, 'a2) vSOps -> ('a2 -> 'a2 -> bool) -> ('a1, 'a2) tprovider -> nat ->
  ('a1, 'a2) state -> pkg0 -> (pkg0 * 'a2) list -> pkg0 heap -> ('a1, 'a2)
  event list -> 'a1 pick_info list -> ('a1, 'a2) result * ('a1, 'a2) event
  list

val resolve_g :
  ('a1, 'a2) vSOps -> ('a2 -> 'a2 -> bool) -> ('a1, 'a2) tprovider -> nat ->
  pkg0 -> 'a2 -> ('a1, 'a2) result * ('a1, 'a2) event list
