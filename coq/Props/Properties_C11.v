(* C11 — Term reasoning matches the meaning of positive and negative terms.
   For every lawful VersionSet (Proofs/VSLaws.v; Range over any ordered version type and the
   finite bitset are instances) and all well-formed terms. *)
From Coq Require Import Orders List Bool.
From PG Require Import Model.VS Model.Term Model.Range Model.Instances Proofs.VSLaws Proofs.TermProofs
  Proofs.RangeVS Proofs.BitsetLawful Proofs.GenEqTerm Gen.TermTables.

Section C11.
  Context {VS Vr : Type} (O : VSOps VS Vr) (L : VSLawful O).

  (* [tden t c]: t is true of the choice c ([Some u]: the point u is selected, [None]: nothing is);
     positive: selected and member; negative: unselected or non-member *)
  Theorem term_den_def :
    forall s u, tden O L (Pos s) (Some u) = mem O L s u /\ tden O L (Pos s) None = false
              /\ tden O L (Neg s) (Some u) = negb (mem O L s u) /\ tden O L (Neg s) None = true.
  Proof. intros; repeat split. Qed.

  Theorem term_negate_spec : forall t c, tden O L (t_negate t) c = negb (tden O L t c).
  Proof. exact (tden_negate O L). Qed.

  Theorem term_intersection_spec :
    forall t u c, twf O L t -> twf O L u ->
      tden O L (t_intersection O t u) c = tden O L t c && tden O L u c.
  Proof. exact (tden_intersection O L). Qed.

  Theorem term_union_spec :
    forall t u c, twf O L t -> twf O L u ->
      tden O L (t_union O t u) c = tden O L t c || tden O L u c.
  Proof. exact (tden_union O L). Qed.

  Theorem term_subset_of_spec :
    forall t u, twf O L t -> twf O L u ->
      (t_subset_of O t u = true <-> forall c, tden O L t c = true -> tden O L u c = true).
  Proof. exact (t_subset_of_spec O L). Qed.

  Theorem term_is_disjoint_spec :
    forall t u, twf O L t -> twf O L u ->
      (t_is_disjoint O t u = true <-> forall c, tden O L t c && tden O L u c = false).
  Proof. exact (t_is_disjoint_spec O L). Qed.

  Theorem term_relation_with_spec :
    forall t other, twf O L t -> twf O L other ->
      match t_relation_with O t other with
      | Satisfied => forall c, tden O L other c = true -> tden O L t c = true
      | Contradicted => ~ (forall c, tden O L other c = true -> tden O L t c = true)
                        /\ (forall c, tden O L t c && tden O L other c = false)
      | Inconclusive => ~ (forall c, tden O L other c = true -> tden O L t c = true)
                        /\ ~ (forall c, tden O L t c && tden O L other c = false)
      end.
  Proof. exact (t_relation_with_spec O L). Qed.

  Theorem term_contains_spec :
    forall t v, twf O L t -> t_contains O t v = tden O L t (Some (pt O L v)).
  Proof. exact (t_contains_spec O L). Qed.

  (* the extremes *)
  Theorem term_extremes :
    (forall c, tden O L (t_any O) c = true) /\ (forall c, tden O L (t_empty O) c = false)
    /\ twf O L (t_any O) /\ twf O L (t_empty O) /\ (forall v, twf O L (t_exact O v)).
  Proof.
    split; [exact (tden_any O L)|]. split; [exact (tden_empty O L)|].
    split; [exact (twf_any O L)|]. split; [exact (twf_empty O L)|exact (twf_exact O L)].
  Qed.

  (* well-formedness is preserved, so the statements compose *)
  Theorem term_wf_closed :
    forall t u, twf O L t -> twf O L u ->
      twf O L (t_negate t) /\ twf O L (t_intersection O t u) /\ twf O L (t_union O t u).
  Proof.
    intros t u Ht Hu. split; [now apply twf_negate|]. split; [now apply twf_intersection|now apply twf_union].
  Qed.

  (* finding F2 (repaired in /repo by a "fix:" commit): the (Negative, Negative) arm as it stood,
     r1 == empty && r2 == empty, calls the two always-true terms disjoint *)
  Theorem term_is_disjoint_pre_fix_refuted :
    exists t u, twf O L t /\ twf O L u /\ t_is_disjoint_pre_fix O t u = true
                /\ exists c, tden O L t c && tden O L u c = true.
  Proof. exact (t_is_disjoint_pre_fix_refuted O L). Qed.
End C11.

(* tie to the source: the sign tables regenerated from src/term.rs by tools/translate.py on this run are
   the tables of the model *)
Theorem term_tables_match_source :
  forall (VS Vr : Type) (O : VSOps VS Vr),
    (forall t, gen_t_negate t = t_negate (VS := VS) t)
    /\ (forall t v, gen_t_contains O t v = t_contains O t v)
    /\ (forall t u, gen_t_intersection O t u = t_intersection O t u)
    /\ (forall t u, gen_t_union O t u = t_union O t u)
    /\ (forall t u, gen_t_is_disjoint O t u = t_is_disjoint O t u)
    /\ (forall t u, gen_t_subset_of O t u = t_subset_of O t u)
    /\ (forall t u, gen_t_relation_with O t u = t_relation_with O t u).
Proof. intros VS Vr O. exact (GenEqTerm.term_tables_match_source O). Qed.

(* the hypotheses are satisfiable: Range over any ordered type, and the bitset with default methods *)
Module C11Range (V : UsualOrderedTypeFull).
  Module Import P := RangeVSP V.
  Definition range_is_lawful : VSLawful range_vs := range_lawful.
End C11Range.
Module C11RangeZ := C11Range ZV.
Definition bitset_is_lawful : VSLawful bitset_vs := bitset_lawful.

Example c11_example :
  t_is_disjoint RZ.range_vs (t_any RZ.range_vs) (t_any RZ.range_vs) = false
  /\ t_relation_with RZ.range_vs (Neg (RZ.singleton 1%Z)) (Pos (RZ.singleton 1%Z)) = Contradicted
  /\ t_relation_with RZ.range_vs (Pos RZ.full) (Neg RZ.empty) = Inconclusive
  /\ t_intersection RZ.range_vs (Pos (RZ.higher_than 1%Z)) (Neg (RZ.higher_than 2%Z)) = Pos (RZ.between 1%Z 2%Z).
Proof. vm_compute. repeat split. Qed.

Print Assumptions term_den_def.
Print Assumptions term_negate_spec.
Print Assumptions term_intersection_spec.
Print Assumptions term_union_spec.
Print Assumptions term_subset_of_spec.
Print Assumptions term_is_disjoint_spec.
Print Assumptions term_relation_with_spec.
Print Assumptions term_contains_spec.
Print Assumptions term_extremes.
Print Assumptions term_wf_closed.
Print Assumptions term_is_disjoint_pre_fix_refuted.
Print Assumptions C11RangeZ.range_is_lawful.
Print Assumptions bitset_is_lawful.
Print Assumptions term_tables_match_source.
