(* C04 — Every package in a returned solution is the root or is reachable from the root by following
   dependencies of the selected versions; resolve never selects a version for a package that no selected
   version depends on (for instance one required only by a version that was later backtracked away).

   For every lawful VersionSet, every registry whose dependency sets are well formed, every provider trace
   that agrees with the registry, every amount of fuel: if the model of resolve returns Ok(sol), then every
   (p, v) in sol satisfies [reach reg r sol p] — p is the root, or some package that is itself reachable is
   selected at a version whose dependencies (as given by the registry) mention p.

   Proof (Proofs/SolverReach1.v, SolverReach2.v, SolverReach.v): invariant over the whole control flow of the
   model — (K) decision levels are monotone in the global indices of the assignments, (J) every dated
   derivation of the partial solution is justified by its cause: all other terms of the cause were satisfied by
   the partial solution just before the derivation (for scan derivations by [relation]; for the derivation
   that follows conflict resolution by correctness of the satisfier search and because the current conflict
   incompatibility stays satisfied along the rule of resolution).  At the exit, the solution restricted to the
   reachable packages is again a solution (C01); for an unreachable selected package with the earliest first
   positive derivation it would violate the cause of that derivation, contradicting its validity (C06). *)
From Coq Require Import List NArith Bool.
From PG Require Import Model.VS Model.Term Model.Solver Model.Registry Proofs.VSLaws Proofs.SolverSem
  Proofs.SolverReach.
Import ListNotations.

Section C04.
  Context {VS Vr : Type} (O : VSOps VS Vr) (L : VSLawful O) (veqb : Vr -> Vr -> bool).
  Context (reg : registry (VS := VS) (Vr := Vr)) (r : pkg) (rv : Vr).

  Theorem resolve_ok_reachable :
    reg_wf O L reg -> (forall a b, veqb a b = true -> a = b) ->
    forall fuel (tr : list (event (VS := VS) (Vr := Vr))) sol st log cnt,
      WellBehaved O reg tr ->
      resolve O veqb fuel r rv tr = (OSolution sol, st, log, cnt) ->
      forall p v, In (p, v) sol -> reach reg r sol p.
  Proof. intros Hw Hv. exact (SolverReach.resolve_ok_reachable O L veqb reg r rv Hw Hv). Qed.

  (* the negative reading: a selected package other than the root is a dependency of a selected version *)
  Theorem resolve_ok_no_orphan :
    reg_wf O L reg -> (forall a b, veqb a b = true -> a = b) ->
    forall fuel (tr : list (event (VS := VS) (Vr := Vr))) sol st log cnt,
      WellBehaved O reg tr ->
      resolve O veqb fuel r rv tr = (OSolution sol, st, log, cnt) ->
      forall q w, In (q, w) sol -> q <> r ->
        exists p v ds s, In (p, v) sol /\ reg_deps reg p v = Some ds /\ In (q, s) ds.
  Proof. intros Hw Hv. exact (SolverReach.resolve_ok_no_orphan O L veqb reg r rv Hw Hv). Qed.

  (* the definition unfolded, so that it can be read here *)
  Theorem reach_unfold (sol : list (pkg * Vr)) (q : pkg) :
    reach reg r sol q <->
    q = r \/ exists p v ds s, reach reg r sol p /\ get p sol = Some v /\ reg_deps reg p v = Some ds /\ In (q, s) ds.
  Proof.
    split.
    - intros [|p v ds q' s H1 H2 H3 H4]; [now left|right; exists p, v, ds, s; auto].
    - intros [->|(p & v & ds & s & H1 & H2 & H3 & H4)]; [constructor|econstructor; eauto].
  Qed.
End C04.

(* non-vacuity: Proofs/SolverReachExample.v — a Range<Z> run in which a package gets a positive term from a
   version that is then backtracked away; the theorem is applied to it *)
From Coq Require Import ZArith.
From PG Require Import Model.Instances Proofs.SolverExamples Proofs.SolverReachExample.
Example resolve_ok_reachable_nonvacuous :
  forall p v, In (p, v) sol3 -> reach reg3 0%N sol3 p.
Proof.
  destruct run3_is_solution as (st & log & E & _).
  exact (resolve_ok_reachable zvs zlaw Z.eqb reg3 0%N 1%Z reg3_wf zeqb_eq 100 tr3 _ st log 17 tr3_wb E).
Qed.

Print Assumptions resolve_ok_reachable.
Print Assumptions resolve_ok_no_orphan.
Print Assumptions reach_unfold.
