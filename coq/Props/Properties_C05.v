(* C05 — resolve terminates with Ok or NoSolution; no panic, no internal Failure (model side, PARTIAL).

   What is proved about the model of resolve (Proofs/SolverProto2.v, Proofs/SolverShared.v):
   - [no_failure]: with a provider whose choose_version answers inside the offered set, the outcome is never
     Failure — neither "a package was chosen but we don't have a term" (excluded for ANY trace: a queued package
     always has an assignment) nor "choose_package_version picked an incompatible version";
   - [derivation_tree_always_built]: building the derivation tree of a NoSolution never fails (the bounded DFS and
     the bounded recursion of the model always have enough fuel on the store of a run).
   What is NOT proved: termination (the model runs on fuel; `OOutOfFuel` is not excluded — PubGrub's termination
   argument is outside what this development reaches, DESIGN.md section 10) and the unreachability of the remaining
   panic sites (one `OPanic` outcome per panic!/unwrap/expect/unreachable!/debug_assert! of the source); both are
   decided by exploration: every case of the solver stream runs under catch_unwind with a call budget and a
   watchdog, with debug assertions and overflow checks on, and the model must reproduce the run. *)
From Coq Require Import List NArith Bool.
From PG Require Import Model.VS Model.Term Model.Solver Model.Registry Proofs.VSLaws Proofs.SolverSem
  Proofs.SolverStore Proofs.SolverShared Proofs.SolverProto2.
Import ListNotations.

Section C05.
  Context {VS Vr : Type} (O : VSOps VS Vr) (L : VSLawful O) (veqb : Vr -> Vr -> bool).
  Notation event := (event (VS := VS) (Vr := Vr)).

  Theorem no_failure_without_a_term :
    forall fuel r rv (tr : list event) o st log cnt,
      resolve O veqb fuel r rv tr = (o, st, log, cnt) -> o <> OFailure FNoTerm.
  Proof. exact (resolve_no_failure_noterm O L veqb). Qed.

  Theorem no_failure :
    forall fuel r rv (tr : list event) o st log cnt f,
      ChooseInside O tr -> resolve O veqb fuel r rv tr = (o, st, log, cnt) -> o <> OFailure f.
  Proof. exact (resolve_no_failure_inside O L veqb). Qed.

  (* reading of the hypothesis: every version answer of choose_version lies in the offered set *)
  Theorem choose_inside_unfold :
    forall tr : list event, ChooseInside O tr <->
      forall p s v, In (EvChoose p s (CSome v)) tr -> vs_contains O s v = true.
  Proof.
    intros tr. unfold ChooseInside. rewrite Forall_forall. split.
    - intros H p s v Hin. exact (H _ Hin).
    - intros H e Hin. destruct e as [| |p s [v| |]|]; cbn; try exact I. exact (H p s v Hin).
  Qed.

  Theorem derivation_tree_always_built :
    forall (reg : registry (VS := VS) (Vr := Vr)) r rv s top,
      store_just O L reg r rv s -> top < length s -> exists t, build_derivation_tree s top = Some t.
  Proof. intros reg r rv. exact (store_just_tree_total O L reg r rv). Qed.
End C05.

Print Assumptions no_failure_without_a_term.
Print Assumptions no_failure.
Print Assumptions choose_inside_unfold.
Print Assumptions derivation_tree_always_built.
