(* C05 — For any well-behaved provider over a finite registry, resolve
   returns Ok or NoSolution [...]; it does not panic [...] or return PubGrubError::Failure.

   For every lawful VersionSet WITH ATOMIC SINGLETONS (the extra law [singleton_atomic]: over the semantic
   universe a singleton contains no point other than the one of its version; it holds for Range<V> and for the
   bitset, Proofs/SolverNoPanicInst.v, and it is necessary, Proofs/SolverNoPanicLaw.v), every registry whose
   dependency sets are well formed, every provider trace that agrees with the registry, every amount of fuel:
   the model of resolve never reaches one of its 19 [Panic] outcomes (one per panic! / unwrap / expect /
   unreachable! / debug_assert! of the source), nor Failure("... we don't have a term"); if moreover every
   chosen version lies in the offered set, every outcome other than Ok / NoSolution / out of fuel / "the trace
   is not a run of the model" is an error answer of the provider passed on.
   TERMINATION (Proofs/SolverTerm1..6.v, SolverTerm.v): for a finite registry - a finite list of packages, and a
   finite "ranked" subalgebra [Ranked] of version sets that contains the registry's dependency sets and the
   singletons of its versions (for Range<V>: the ranges whose bounds lie in a finite list of values,
   [range_ranked_terminates]; for the bitset: all sets) - every run consumes at most [Events0] provider events, a
   number computed from the registry alone ([resolve_calls_bounded]: "after a bounded number of provider calls"),
   and with at least [Fuel1] fuel (again a function of the registry alone) the model never runs out of fuel
   ([resolve_never_out_of_fuel]: no loop of the algorithm runs forever - the fuel is an artefact of the model, and
   by C07's [model_fuel_monotone] more fuel never changes a result).  [resolve_terminates_ok_or_nosolution] puts it
   together: a well-behaved provider that answers inside the offered set and returns no error gets Ok or
   NoSolution (or the recorded trace is not a complete run of the model: OMismatch/OPickNotMax).
   The argument is the CDCL termination argument adapted to terms: every derivation strictly decreases the rank of
   its package's term, and a bounded lexicographic potential over the decision levels strictly increases with
   every derivation, backjump + derivation, and decision.
   NOT covered: arithmetic overflow of the counters (the model uses unbounded naturals; the harness builds with
   overflow checks and debug assertions on).

   Proof (Proofs/SolverNoPanic1.v, SolverNoPanic2.v, SolverNoPanic.v): state invariant [ninv] = the invariant
   [jinv] of C04 + no stored incompatibility has an "any" term + the index of incompatibilities only lists
   allocated ids whose packages all have an index entry + every assigned package has an index entry + the first
   dated derivation of a package carries its smallest level + (over the universe U) accumulated terms shrink and
   every derivation is justified by its cause + a decision opens its level + only the root is assigned at level
   0 and decided at level 1 + queued packages are undecided with a positive term. *)
From Coq Require Import List Arith NArith Bool.
From PG Require Proofs.SolverGen Proofs.SolverEndToEnd.
From PG Require Import Model.VS Model.Term Model.Solver Model.Registry Proofs.VSLaws Proofs.SolverSem
  Proofs.SolverStore Proofs.SolverShared Proofs.SolverProto2 Proofs.SolverNoPanic1 Proofs.SolverNoPanic Proofs.SolverTerm1 Proofs.SolverTerm4 Proofs.SolverTerm.
Import ListNotations.

Section C05.
  Context {VS Vr : Type} (O : VSOps VS Vr) (L : VSLawful O) (veqb : Vr -> Vr -> bool).
  Context (reg : registry (VS := VS) (Vr := Vr)) (r : pkg) (rv : Vr).

  (* the extra law, unfolded *)
  Theorem singleton_atomic_unfold :
    singleton_atomic O L <-> forall v u, mem O L (vs_singleton O v) u = true -> u = pt O L v.
  Proof. reflexivity. Qed.

  Theorem resolve_no_panic :
    singleton_atomic O L -> reg_wf O L reg -> (forall a b, veqb a b = true -> a = b) ->
    forall fuel (tr : list (event (VS := VS) (Vr := Vr))) o st log cnt,
      WellBehaved O reg tr ->
      resolve O veqb fuel r rv tr = (o, st, log, cnt) -> forall s, o <> OPanic s.
  Proof. intros Ha Hw Hv. exact (SolverNoPanic.resolve_no_panic O L veqb reg r rv Ha Hw Hv). Qed.

  Theorem resolve_no_term_failure :
    singleton_atomic O L -> reg_wf O L reg -> (forall a b, veqb a b = true -> a = b) ->
    forall fuel (tr : list (event (VS := VS) (Vr := Vr))) o st log cnt,
      WellBehaved O reg tr ->
      resolve O veqb fuel r rv tr = (o, st, log, cnt) -> o <> OFailure FNoTerm.
  Proof. intros Ha Hw Hv. exact (SolverNoPanic.resolve_no_term_failure O L veqb reg r rv Ha Hw Hv). Qed.

  Theorem resolve_ok_or_nosolution :
    singleton_atomic O L -> reg_wf O L reg -> (forall a b, veqb a b = true -> a = b) ->
    forall fuel (tr : list (event (VS := VS) (Vr := Vr))) o st log cnt,
      WellBehaved O reg tr ->
      (forall p s v, In (EvChoose p s (CSome v)) tr -> vs_contains O s v = true) ->
      (~ In (EvCancel false) tr /\ (forall p s, ~ In (EvChoose p s CErr) tr) /\ (forall p v, ~ In (EvDeps p v DErr) tr)) ->
      resolve O veqb fuel r rv tr = (o, st, log, cnt) ->
      (exists sol, o = OSolution sol) \/ (exists t, o = ONoSolution t) \/ o = OOutOfFuel
      \/ (exists k w, o = OMismatch k w) \/ (exists k p, o = OPickNotMax k p).
  Proof. intros Ha Hw Hv. exact (SolverNoPanic.resolve_ok_or_nosolution O L veqb reg r rv Ha Hw Hv). Qed.

  (* ---------------------------------------------------------------- termination *)
  Section Termination.
    Variable R : Ranked O L.
    Variable pkgs : list pkg.
    (* a finite registry: finitely many packages, all its sets inside the finite ranked algebra *)
    Definition finite_registry : Prop :=
      In r pkgs
      /\ (forall p v ds q s, reg_deps reg p v = Some ds -> In (q, s) ds -> In q pkgs)
      /\ (forall p v ds q s, reg_deps reg p v = Some ds -> In (q, s) ds -> alg R s)
      /\ (forall p v, In v (reg_versions reg p) -> alg R (vs_singleton O v))
      /\ alg R (vs_singleton O rv).

    Theorem resolve_calls_bounded :
      singleton_atomic O L -> reg_wf O L reg -> (forall a b, veqb a b = true -> a = b) -> finite_registry ->
      forall fuel (tr : list (event (VS := VS) (Vr := Vr))) o st log cnt,
        WellBehaved O reg tr -> resolve O veqb fuel r rv tr = (o, st, log, cnt) ->
        cnt <= Events0 O L R pkgs.
    Proof.
      intros Ha Hw Hv (H1 & H2 & H3 & H4 & H5).
      exact (resolve_events_bounded O L veqb reg r rv Ha Hw Hv R pkgs H1 H2 H3 H4 H5).
    Qed.

    Theorem resolve_never_out_of_fuel :
      singleton_atomic O L -> reg_wf O L reg -> (forall a b, veqb a b = true -> a = b) -> finite_registry ->
      forall fuel (tr : list (event (VS := VS) (Vr := Vr))) o st log cnt,
        WellBehaved O reg tr -> Fuel1 O L R pkgs <= fuel ->
        resolve O veqb fuel r rv tr = (o, st, log, cnt) -> o <> OOutOfFuel.
    Proof.
      intros Ha Hw Hv (H1 & H2 & H3 & H4 & H5).
      exact (resolve_no_fuel_exhaustion_uniform O L veqb reg r rv Ha Hw Hv R pkgs H1 H2 H3 H4 H5).
    Qed.

    Theorem resolve_terminates_ok_or_nosolution :
      singleton_atomic O L -> reg_wf O L reg -> (forall a b, veqb a b = true -> a = b) -> finite_registry ->
      forall fuel (tr : list (event (VS := VS) (Vr := Vr))) o st log cnt,
        WellBehaved O reg tr ->
        (forall p s v, In (EvChoose p s (CSome v)) tr -> vs_contains O s v = true) ->
        (~ In (EvCancel false) tr /\ (forall p s, ~ In (EvChoose p s CErr) tr) /\ (forall p v, ~ In (EvDeps p v DErr) tr)) ->
        Fuel1 O L R pkgs <= fuel ->
        resolve O veqb fuel r rv tr = (o, st, log, cnt) ->
        ((exists sol, o = OSolution sol) \/ (exists t, o = ONoSolution t)
         \/ (exists k w, o = OMismatch k w) \/ (exists k p, o = OPickNotMax k p))
        /\ cnt <= Events0 O L R pkgs.
    Proof.
      intros Ha Hw Hv (H1 & H2 & H3 & H4 & H5).
      exact (resolve_terminates O L veqb reg r rv Ha Hw Hv R pkgs H1 H2 H3 H4 H5).
    Qed.

    (* the two bounds, unfolded: functions of the number of packages and of the rank bound only *)
    Theorem bounds_unfold :
      let Wt := 2 * S (rank_bound R) in let Pn := length pkgs in
      let Bound := (Pn * Wt + 2) ^ S Pn in
      Events0 O L R pkgs = (Pn + 3) * (2 * Bound + 1) /\ Fuel1 O L R pkgs = (2 * Bound + 4) + (2 * Bound + 1).
    Proof. split; reflexivity. Qed.

    (* capstone (third session): the GENERATING model [resolve_g] (Proofs/SolverGen.v: the model asks a typed provider -
       one answer function per callback, each may depend on the whole history - instead of checking a recording, and
       the package decided next is computed by the exact heap of the priority-queue crate) is totally correct: against
       every provider that answers according to a finite registry, never cancels and never fails, with fuel >= Fuel1
       it makes at most Events0 provider calls and returns either a solution of the registry or NoSolution when none
       exists.  No hypothesis about traces, picks or recordings is left: provider in, verdict out. *)
    Theorem model_total_correctness :
      singleton_atomic O L -> reg_wf O L reg ->
      (forall a b, veqb a b = true -> a = b) -> (forall v, veqb v v = true) -> (forall s, vs_eqb O s s = true) ->
      finite_registry ->
      forall (pg : SolverGen.tprovider (VS := VS) (Vr := Vr)) fuel res tr,
        SolverEndToEnd.serves O reg pg -> Fuel1 O L R pkgs <= fuel ->
        SolverGen.resolve_g O veqb pg fuel r rv = (res, tr) ->
        length tr <= Events0 O L R pkgs
        /\ ((exists sol, fst (fst (fst res)) = OSolution sol /\ Solution O reg r rv (fun p => get p sol))
            \/ (exists t, fst (fst (fst res)) = ONoSolution t /\ forall a, ~ Solution O reg r rv a)).
    Proof. exact (SolverEndToEnd.resolve_g_total_correctness O L veqb reg r rv R pkgs). Qed.
  End Termination.

  (* Failure is excluded already for ANY trace in which choose_version answers inside the offered set, with no
     hypothesis on the VersionSet beyond lawfulness (Proofs/SolverProto2.v) *)
  Theorem no_failure :
    forall fuel (tr : list (event (VS := VS) (Vr := Vr))) o st log cnt f,
      ChooseInside O tr -> resolve O veqb fuel r rv tr = (o, st, log, cnt) -> o <> OFailure f.
  Proof. intros fuel tr. exact (resolve_no_failure_inside O L veqb fuel r rv tr). Qed.

  (* building the derivation tree of a NoSolution never fails (the fuel of the model's two passes suffices) *)
  Theorem derivation_tree_always_built :
    forall s top, store_just O L reg r rv s -> top < length s -> exists t, build_derivation_tree s top = Some t.
  Proof. exact (store_just_tree_total O L reg r rv). Qed.
End C05.

(* the extra law holds for the two instances of the development ... *)
From Coq Require Import Orders ZArith.
From PG Require Import Model.Range Proofs.BitsetLawful Proofs.RangeVS Proofs.SolverNoPanicInst Proofs.SolverNoPanicLaw.
Module C05Range (V : UsualOrderedTypeFull).
  Module Import P := RangeAtomicP V.
  Theorem range_has_atomic_singletons : singleton_atomic range_vs range_lawful.
  Proof. exact range_singleton_atomic. Qed.
End C05Range.
From PG Require Import Model.Instances.
Module C05Z := C05Range ZV.
Theorem bitset_has_atomic_singletons : singleton_atomic bitset_vs bitset_lawful.
Proof. exact bitset_singleton_atomic. Qed.

(* the finite ranked algebra exists for both instances: all bitsets; the ranges over a finite list of bound values *)
From PG Require Import Proofs.SolverTermInst Proofs.SolverTermRange Proofs.SolverTermExample.
Theorem bitset_is_ranked : exists R : Ranked bitset_vs bitset_lawful, forall s, alg R s <-> wf bitset_vs bitset_lawful s.
Proof. exists bitset_ranked. intros s. reflexivity. Qed.
Module C05RangeTerm (V : UsualOrderedTypeFull).
  Module Import P := RangeTermP V.
  Theorem range_ranked_terminates :
    forall (bs : list V.t) (veqb : V.t -> V.t -> bool) (reg : @registry range V.t) (r : pkg) (rv : V.t) (pkgs : list pkg),
      reg_wf range_vs range_lawful reg -> (forall a b, veqb a b = true -> a = b) ->
      In r pkgs -> (forall p v ds q s, reg_deps reg p v = Some ds -> In (q, s) ds -> In q pkgs) ->
      (forall p v ds q s, reg_deps reg p v = Some ds -> In (q, s) ds -> range_in bs s) ->
      (forall p v, In v (reg_versions reg p) -> In v bs) -> In rv bs ->
      forall fuel (tr : list (@event range V.t)) o st log cnt,
        WellBehaved range_vs reg tr -> choose_contained range_vs tr -> no_error_answers tr ->
        (Fuel1 range_vs range_lawful (range_ranked bs) pkgs <= fuel)%nat ->
        resolve range_vs veqb fuel r rv tr = (o, st, log, cnt) ->
        ((exists sol, o = OSolution sol) \/ (exists t, o = ONoSolution t)
         \/ (exists k w, o = OMismatch k w) \/ (exists k p, o = OPickNotMax k p))
        /\ (cnt <= Events0 range_vs range_lawful (range_ranked bs) pkgs)%nat.
  Proof. exact range_resolve_terminates. Qed.
End C05RangeTerm.
Module C05ZTerm := C05RangeTerm ZV.

(* ... and it cannot be dropped: a VersionSet that satisfies every law of [VSLawful] but whose singletons are not
   atomic makes the model panic on a well-behaved trace over a well-formed registry *)
Theorem atomic_singletons_needed_refuted :
  exists (L : VSLawful na_vs) reg tr st log,
    ~ singleton_atomic na_vs L /\ reg_wf na_vs L reg /\ WellBehaved na_vs reg tr
    /\ resolve na_vs Bool.eqb 50 0%N true tr = (OPanic PDerivationAfterDecision, st, log, 13%nat).
Proof.
  destruct nonatomic_panic as (st & log & E).
  exists na_lawful, na_reg, na_tr, st, log. exact (conj na_not_atomic (conj na_reg_wf (conj na_tr_wb E))).
Qed.

(* non-vacuity: Proofs/SolverNoPanicInst.v applies the theorems to three recorded Range<Z> runs; necessity of the
   extra law: Proofs/SolverNoPanicLaw.v ([nonatomic_panic]) *)
Print Assumptions resolve_no_panic.
Print Assumptions resolve_no_term_failure.
Print Assumptions resolve_ok_or_nosolution.
Print Assumptions singleton_atomic_unfold.
Print Assumptions resolve_calls_bounded.
Print Assumptions resolve_never_out_of_fuel.
Print Assumptions resolve_terminates_ok_or_nosolution.
Print Assumptions bounds_unfold.
Print Assumptions model_total_correctness.
Print Assumptions bitset_is_ranked.
Print Assumptions C05ZTerm.range_ranked_terminates.
Print Assumptions no_failure.
Print Assumptions derivation_tree_always_built.
Print Assumptions C05Z.range_has_atomic_singletons.
Print Assumptions bitset_has_atomic_singletons.
Print Assumptions atomic_singletons_needed_refuted.

(* non-vacuity of the capstone: every registry has a serving provider, and for the bitset VersionSet and the registry
   of SolverSoundExample.v all hypotheses hold; the run is computed (a solution) *)
From PG Require Import Proofs.SolverEndToEndExample.
Theorem every_registry_has_a_serving_provider :
  forall (VS Vr : Type) (O : VSOps VS Vr) (reg : registry (VS := VS) (Vr := Vr)),
    SolverEndToEnd.serves O reg (reg_provider O reg).
Proof. intros VS Vr O reg. exact (reg_provider_serves O reg). Qed.
Print Assumptions every_registry_has_a_serving_provider.

(* The capstone with every per-run guarantee of the development (Proofs/SolverEndToEndFull.v): provider in, verdict out.
   Against every provider that serves a finite registry the generating model makes at most Events0 calls; its call trace
   is a recording of the provider and obeys every clause of the protocol (C12); it returns either a solution (C01) without
   duplicates, made of offered versions, containing only packages needed by the root (C04), or NoSolution when no solution
   exists (C02) together with a derivation tree that is a checkable proof (C03). *)
From Coq Require Import List NArith ZArith Bool.
From PG Require Import Model.VS Model.Term Model.Heap Model.Solver Model.Registry Proofs.VSLaws Proofs.SolverSem
  Proofs.AssocProofs Proofs.SolverStore Proofs.SolverShared Proofs.SolverProto2 Proofs.SolverNoPanic1 Proofs.SolverNoPanic
  Proofs.SolverTerm1 Proofs.SolverTerm4 Proofs.SolverTerm Proofs.SolverQueue2 Proofs.SolverSound
  Proofs.SolverTrace Proofs.SolverDet Proofs.HeapProofs Proofs.SolverDetQueue Proofs.SolverDetInst Proofs.SolverGen
  Proofs.SolverProtocol Proofs.SolverTree Proofs.SolverReach Proofs.SolverEndToEnd Proofs.SolverEndToEndFull.
Import ListNotations.
Local Open Scope nat_scope.
Section C05_full.
  Context {VS Vr : Type} (O : VSOps VS Vr) (L : VSLawful O) (veqb : Vr -> Vr -> bool).
  Context (reg : registry (VS := VS) (Vr := Vr)) (r : pkg) (rv : Vr).
  Notation event := (@event VS Vr).
  Notation tprovider := (@tprovider VS Vr).
  Variable R : Ranked O L.
  Variable pkgs : list pkg.

  Theorem model_total_correctness_full :
    singleton_atomic O L -> reg_wf O L reg ->
    (forall a b, veqb a b = true -> a = b) -> (forall v, veqb v v = true) -> (forall s, vs_eqb O s s = true) ->
    finite_registry O L reg r rv R pkgs ->
    forall (pg : tprovider) fuel res (tr : list event),
      serves O reg pg -> Fuel1 O L R pkgs <= fuel ->
      resolve_g O veqb pg fuel r rv = (res, tr) ->
      (* C05: bounded number of calls *)
      length tr <= Events0 O L R pkgs
      (* the trace is a recording of the provider *)
      /\ generated_by (to_provider pg) [] tr
      (* C12: the protocol; every clause of Props/Properties_C12.v *)
      /\ (   (* protocol_consumed_trace_partial: the structural scanner accepts the trace *)
             shape veqb (P0 (Vr := Vr)) [] tr = true
             (* protocol_first_cancel *)
          /\ match tr with [] => True | e :: _ => exists ok, e = EvCancel ok end
             (* protocol_after_choose *)
          /\ (forall (pre : list event) p s a (rest : list event), tr = pre ++ EvChoose p s a :: rest ->
                match rest with
                | [] => True
                | EvCancel _ :: _ => True
                | EvDeps p' v' _ :: rest' =>
                    (exists v, a = CSome v /\ N.eqb p p' && veqb v v' = true) /\
                    match rest' with [] => True | EvCancel _ :: _ => True | _ => False end
                | _ => False
                end)
             (* protocol_deps_preceded *)
          /\ (forall (pre : list event) p' v' a rest, tr = pre ++ EvDeps p' v' a :: rest ->
                exists pre0 p s v, pre = pre0 ++ [EvChoose p s (CSome v)] /\ N.eqb p p' && veqb v v' = true)
             (* protocol_deps_once *)
          /\ NoDup (deps_of tr)
             (* protocol_choose_set_is_last_prioritized *)
          /\ (forall i p s a, nth_error tr i = Some (EvChoose p s a) -> exists z, last_prio_at tr i p s z)
             (* protocol_choose_set_nonempty *)
          /\ (forall i p s a, nth_error tr i = Some (EvChoose p s a) ->
                s <> vs_empty O /\ vs_eqb O s (vs_empty O) = false)
             (* protocol_first_query_is_root *)
          /\ (forall i p s a, nth_error tr i = Some (EvChoose p s a) ->
                (forall j e, j < i -> nth_error tr j = Some e -> is_choose e = false) ->
                p = r /\ s = vs_singleton O rv /\ i = 2 /\
                exists z, firstn i tr = [EvCancel true; EvPrioritize r (vs_singleton O rv) z]))
      /\ ((exists sol, fst (fst (fst res)) = OSolution sol
             (* C01 *)
             /\ Solution O reg r rv (fun p => get p sol)
             /\ NoDup (map fst sol) /\ (forall p v, In (p, v) sol -> In v (reg_versions reg p))
             (* C04 *)
             /\ (forall p v, In (p, v) sol -> reach reg r sol p))
          \/ (exists t, fst (fst (fst res)) = ONoSolution t
             (* C02 *)
             /\ (forall a, ~ Solution O reg r rv a)
             (* C03 *)
             /\ tree_ok O reg r rv t /\ top_forbids_root O r rv t)).
  Proof. exact (resolve_g_total_correctness_full O L veqb reg r rv R pkgs). Qed.
End C05_full.
Print Assumptions model_total_correctness_full.

(* The capstone for the VersionSet of the crate, Range over Z (Proofs/SolverEndToEndRange.v): lawfulness, atomic
   singletons, the ranked algebra (ranges whose bounds lie in a finite list bs) and the boolean equalities are
   discharged; what remains is a well-formed registry with finitely many packages whose bounds lie in bs, and a provider
   that serves it.  [total_correctness_range_nonvacuous]: all hypotheses hold for a recorded registry; the run is computed. *)
From Coq Require Import List NArith ZArith Bool Lia PeanoNat Permutation.
From PG Require Import Model.VS Model.Term Model.Heap Model.Range Model.Solver Model.Registry Model.Instances
  Proofs.VSLaws Proofs.RangeVS Proofs.SolverSem
  Proofs.AssocProofs Proofs.SolverStore Proofs.SolverShared Proofs.SolverProto2 Proofs.SolverNoPanic1 Proofs.SolverNoPanic
  Proofs.SolverTerm1 Proofs.SolverTerm4 Proofs.SolverTerm Proofs.SolverQueue2 Proofs.SolverSound
  Proofs.SolverTrace Proofs.SolverDet Proofs.HeapProofs Proofs.SolverDetQueue Proofs.SolverDetInst Proofs.SolverGen
  Proofs.SolverProtocol Proofs.SolverTree Proofs.SolverReach Proofs.SolverExamples Proofs.SolverReachExample Proofs.SolverTermRange
  Proofs.SolverTermExample Proofs.SolverEndToEnd Proofs.SolverEndToEndExample Proofs.SolverEndToEndFull.
From PG Require Import Proofs.SolverEndToEndRange.
Import ListNotations.
Local Open Scope nat_scope.
Theorem model_total_correctness_range :
  forall (bs : list Z) (pkgs : list pkg) (reg : registry (VS := RZ.range) (Vr := Z)) (r : pkg) (rv : Z),
    reg_wf RZ.range_vs rz_lawful reg ->
    In r pkgs ->
    (forall p v ds q s, reg_deps reg p v = Some ds -> In (q, s) ds -> In q pkgs) ->
    (forall p v ds q s, reg_deps reg p v = Some ds -> In (q, s) ds -> ZTerm.RR.range_in bs s) ->
    (forall p v, In v (reg_versions reg p) -> In v bs) -> In rv bs ->
    forall (pg : @tprovider RZ.range Z) fuel res (tr : list (@event RZ.range Z)),
      serves RZ.range_vs reg pg -> Fuel1 RZ.range_vs rz_lawful (rz_ranked bs) pkgs <= fuel ->
      resolve_g RZ.range_vs Z.eqb pg fuel r rv = (res, tr) ->
      (* C05: bounded number of calls *)
      length tr <= Events0 RZ.range_vs rz_lawful (rz_ranked bs) pkgs
      (* the trace is a recording of the provider *)
      /\ generated_by (to_provider pg) [] tr
      (* C12: the protocol; every clause of Props/Properties_C12.v *)
      /\ (   shape Z.eqb (P0 (Vr := Z)) [] tr = true
          /\ match tr with [] => True | e :: _ => exists ok, e = EvCancel ok end
          /\ (forall (pre : list (@event RZ.range Z)) p s a (rest : list (@event RZ.range Z)),
                tr = pre ++ EvChoose p s a :: rest ->
                match rest with
                | [] => True
                | EvCancel _ :: _ => True
                | EvDeps p' v' _ :: rest' =>
                    (exists v, a = CSome v /\ N.eqb p p' && Z.eqb v v' = true) /\
                    match rest' with [] => True | EvCancel _ :: _ => True | _ => False end
                | _ => False
                end)
          /\ (forall (pre : list (@event RZ.range Z)) p' v' a rest, tr = pre ++ EvDeps p' v' a :: rest ->
                exists pre0 p s v, pre = pre0 ++ [EvChoose p s (CSome v)] /\ N.eqb p p' && Z.eqb v v' = true)
          /\ NoDup (deps_of tr)
          /\ (forall i p s a, nth_error tr i = Some (EvChoose p s a) -> exists z, last_prio_at tr i p s z)
          /\ (forall i p s a, nth_error tr i = Some (EvChoose p s a) ->
                s <> vs_empty RZ.range_vs /\ vs_eqb RZ.range_vs s (vs_empty RZ.range_vs) = false)
          /\ (forall i p s a, nth_error tr i = Some (EvChoose p s a) ->
                (forall j e, j < i -> nth_error tr j = Some e -> is_choose e = false) ->
                p = r /\ s = vs_singleton RZ.range_vs rv /\ i = 2 /\
                exists z, firstn i tr = [EvCancel true; EvPrioritize r (vs_singleton RZ.range_vs rv) z]))
      /\ ((exists sol, fst (fst (fst res)) = OSolution sol
             (* C01 *)
             /\ Solution RZ.range_vs reg r rv (fun p => get p sol)
             /\ NoDup (map fst sol) /\ (forall p v, In (p, v) sol -> In v (reg_versions reg p))
             (* C04 *)
             /\ (forall p v, In (p, v) sol -> reach reg r sol p))
          \/ (exists t, fst (fst (fst res)) = ONoSolution t
             (* C02 *)
             /\ (forall a, ~ Solution RZ.range_vs reg r rv a)
             (* C03 *)
             /\ tree_ok RZ.range_vs reg r rv t /\ top_forbids_root RZ.range_vs r rv t)).
Proof. exact resolve_g_total_correctness_range. Qed.
Print Assumptions model_total_correctness_range.

