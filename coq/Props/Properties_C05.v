(* C05 (partial: everything but termination) — For any well-behaved provider over a finite registry, resolve
   returns Ok or NoSolution [...]; it does not panic [...] or return PubGrubError::Failure.

   For every lawful VersionSet WITH ATOMIC SINGLETONS (the extra law [singleton_atomic]: over the semantic
   universe a singleton contains no point other than the one of its version; it holds for Range<V> and for the
   bitset, Proofs/SolverNoPanicInst.v, and it is necessary, Proofs/SolverNoPanicLaw.v), every registry whose
   dependency sets are well formed, every provider trace that agrees with the registry, every amount of fuel:
   the model of resolve never reaches one of its 19 [Panic] outcomes (one per panic! / unwrap / expect /
   unreachable! / debug_assert! of the source), nor Failure("... we don't have a term"); if moreover every
   chosen version lies in the offered set, every outcome other than Ok / NoSolution / out of fuel / "the trace
   is not a run of the model" is an error answer of the provider passed on.
   NOT covered: termination (the model has fuel; [OOutOfFuel] is not excluded), overflow.

   Proof (Proofs/SolverNoPanic1.v, SolverNoPanic2.v, SolverNoPanic.v): state invariant [ninv] = the invariant
   [jinv] of C04 + no stored incompatibility has an "any" term + the index of incompatibilities only lists
   allocated ids whose packages all have an index entry + every assigned package has an index entry + the first
   dated derivation of a package carries its smallest level + (over the universe U) accumulated terms shrink and
   every derivation is justified by its cause + a decision opens its level + only the root is assigned at level
   0 and decided at level 1 + queued packages are undecided with a positive term. *)
From Coq Require Import List NArith Bool.
From PG Require Import Model.VS Model.Term Model.Solver Model.Registry Proofs.VSLaws Proofs.SolverSem
  Proofs.SolverStore Proofs.SolverShared Proofs.SolverProto2 Proofs.SolverNoPanic1 Proofs.SolverNoPanic.
Import ListNotations.

Section C05.
  Context {VS Vr : Type} (O : VSOps VS Vr) (L : VSLawful O) (veqb : Vr -> Vr -> bool).
  Context (reg : registry (VS := VS) (Vr := Vr)) (r : pkg) (rv : Vr).

  (* the extra law, unfolded *)
  Theorem singleton_atomic_unfold :
    singleton_atomic O L <-> forall v u, mem O L (vs_singleton O v) u = true -> u = pt O L v.
  Proof. reflexivity. Qed.

  Theorem resolve_no_panic :
    singleton_atomic O L -> reg_wf O L reg -> (forall a b, veqb a b = true -> a = b) ->
    forall fuel (tr : list (event (VS := VS) (Vr := Vr))) o st log cnt,
      WellBehaved O reg tr ->
      resolve O veqb fuel r rv tr = (o, st, log, cnt) -> forall s, o <> OPanic s.
  Proof. intros Ha Hw Hv. exact (SolverNoPanic.resolve_no_panic O L veqb reg r rv Ha Hw Hv). Qed.

  Theorem resolve_no_term_failure :
    singleton_atomic O L -> reg_wf O L reg -> (forall a b, veqb a b = true -> a = b) ->
    forall fuel (tr : list (event (VS := VS) (Vr := Vr))) o st log cnt,
      WellBehaved O reg tr ->
      resolve O veqb fuel r rv tr = (o, st, log, cnt) -> o <> OFailure FNoTerm.
  Proof. intros Ha Hw Hv. exact (SolverNoPanic.resolve_no_term_failure O L veqb reg r rv Ha Hw Hv). Qed.

  Theorem resolve_ok_or_nosolution :
    singleton_atomic O L -> reg_wf O L reg -> (forall a b, veqb a b = true -> a = b) ->
    forall fuel (tr : list (event (VS := VS) (Vr := Vr))) o st log cnt,
      WellBehaved O reg tr ->
      (forall p s v, In (EvChoose p s (CSome v)) tr -> vs_contains O s v = true) ->
      (~ In (EvCancel false) tr /\ (forall p s, ~ In (EvChoose p s CErr) tr) /\ (forall p v, ~ In (EvDeps p v DErr) tr)) ->
      resolve O veqb fuel r rv tr = (o, st, log, cnt) ->
      (exists sol, o = OSolution sol) \/ (exists t, o = ONoSolution t) \/ o = OOutOfFuel
      \/ (exists k w, o = OMismatch k w) \/ (exists k p, o = OPickNotMax k p).
  Proof. intros Ha Hw Hv. exact (SolverNoPanic.resolve_ok_or_nosolution O L veqb reg r rv Ha Hw Hv). Qed.

  (* Failure is excluded already for ANY trace in which choose_version answers inside the offered set, with no
     hypothesis on the VersionSet beyond lawfulness (Proofs/SolverProto2.v) *)
  Theorem no_failure :
    forall fuel (tr : list (event (VS := VS) (Vr := Vr))) o st log cnt f,
      ChooseInside O tr -> resolve O veqb fuel r rv tr = (o, st, log, cnt) -> o <> OFailure f.
  Proof. intros fuel tr. exact (resolve_no_failure_inside O L veqb fuel r rv tr). Qed.

  (* building the derivation tree of a NoSolution never fails (the fuel of the model's two passes suffices) *)
  Theorem derivation_tree_always_built :
    forall s top, store_just O L reg r rv s -> top < length s -> exists t, build_derivation_tree s top = Some t.
  Proof. exact (store_just_tree_total O L reg r rv). Qed.
End C05.

(* the extra law holds for the two instances of the development ... *)
From Coq Require Import Orders ZArith.
From PG Require Import Model.Range Proofs.BitsetLawful Proofs.RangeVS Proofs.SolverNoPanicInst Proofs.SolverNoPanicLaw.
Module C05Range (V : UsualOrderedTypeFull).
  Module Import P := RangeAtomicP V.
  Theorem range_has_atomic_singletons : singleton_atomic range_vs range_lawful.
  Proof. exact range_singleton_atomic. Qed.
End C05Range.
From PG Require Import Model.Instances.
Module C05Z := C05Range ZV.
Theorem bitset_has_atomic_singletons : singleton_atomic bitset_vs bitset_lawful.
Proof. exact bitset_singleton_atomic. Qed.

(* ... and it cannot be dropped: a VersionSet that satisfies every law of [VSLawful] but whose singletons are not
   atomic makes the model panic on a well-behaved trace over a well-formed registry *)
Theorem atomic_singletons_needed_refuted :
  exists (L : VSLawful na_vs) reg tr st log,
    ~ singleton_atomic na_vs L /\ reg_wf na_vs L reg /\ WellBehaved na_vs reg tr
    /\ resolve na_vs Bool.eqb 50 0%N true tr = (OPanic PDerivationAfterDecision, st, log, 13%nat).
Proof.
  destruct nonatomic_panic as (st & log & E).
  exists na_lawful, na_reg, na_tr, st, log. exact (conj na_not_atomic (conj na_reg_wf (conj na_tr_wb E))).
Qed.

(* non-vacuity: Proofs/SolverNoPanicInst.v applies the theorems to three recorded Range<Z> runs; necessity of the
   extra law: Proofs/SolverNoPanicLaw.v ([nonatomic_panic]) *)
Print Assumptions resolve_no_panic.
Print Assumptions resolve_no_term_failure.
Print Assumptions resolve_ok_or_nosolution.
Print Assumptions singleton_atomic_unfold.
Print Assumptions no_failure.
Print Assumptions derivation_tree_always_built.
Print Assumptions C05Z.range_has_atomic_singletons.
Print Assumptions bitset_has_atomic_singletons.
Print Assumptions atomic_singletons_needed_refuted.
