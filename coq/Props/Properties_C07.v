(* C07 — resolve is deterministic (model side).  The model is a Gallina function of the provider's
   answers, so "same answers in, same result and call trace out" holds of it by construction; the
   non-trivial content proved here is that the result only depends on the answers actually consumed
   ([model_trace_function]): two recorded traces that agree on the consumed prefix give the same
   outcome, state and decision log.  That the Rust implementation is such a function (no hash seed,
   address or clock dependence, in one process and across processes, for integer and string package
   names) is a fact about the runtime; it is decided by re-execution in the harness and by the
   requirement that the model reproduce every trace from the recorded answers alone.
   [model_fuel_irrelevant]: the fuel of the model (an artefact: the Rust code has none) is not a behavioural
   parameter either - two runs on the same answers that both do not run out of fuel return the same outcome,
   state, decision log and number of consumed calls (Proofs/SolverFuel.v). *)
From Coq Require Import List NArith Bool.
From PG Require Import Model.VS Model.Term Model.Solver Proofs.SolverTrace Proofs.SolverFuel.

Section C07.
  Context {VS Vr : Type} (O : VSOps VS Vr) (veqb : Vr -> Vr -> bool).

  Theorem model_trace_function :
    forall fuel r v (tr ext1 ext2 : list (event (VS := VS) (Vr := Vr))),
      is_mismatch (fst (fst (fst (resolve O veqb fuel r v tr)))) = false ->
      resolve O veqb fuel r v (tr ++ ext1) = resolve O veqb fuel r v (tr ++ ext2).
  Proof.
    intros fuel r v tr e1 e2 H. now rewrite !(resolve_prefix O veqb fuel r v tr) by assumption.
  Qed.

  Theorem model_fuel_irrelevant :
    forall f1 f2 r v (tr : list (event (VS := VS) (Vr := Vr))) o1 st1 log1 c1 o2 st2 log2 c2,
      resolve O veqb f1 r v tr = (o1, st1, log1, c1) -> resolve O veqb f2 r v tr = (o2, st2, log2, c2) ->
      o1 <> OOutOfFuel -> o2 <> OOutOfFuel -> (o1, st1, log1, c1) = (o2, st2, log2, c2).
  Proof. exact (resolve_fuel_irrelevant O veqb). Qed.

  Theorem model_fuel_monotone :
    forall f f' r v (tr : list (event (VS := VS) (Vr := Vr))) o st log cnt,
      f <= f' -> resolve O veqb f r v tr = (o, st, log, cnt) -> o <> OOutOfFuel ->
      resolve O veqb f' r v tr = (o, st, log, cnt).
  Proof. exact (resolve_fuel_mono O veqb). Qed.
End C07.

Print Assumptions model_trace_function.
Print Assumptions model_fuel_irrelevant.
Print Assumptions model_fuel_monotone.
