(* C07 — resolve is deterministic (model side).  The model is a Gallina function of the provider's
   answers, so "same answers in, same result and call trace out" holds of it by construction; the
   non-trivial content proved here is that the result only depends on the answers actually consumed
   ([model_trace_function]): two recorded traces that agree on the consumed prefix give the same
   outcome, state and decision log.  That the Rust implementation is such a function (no hash seed,
   address or clock dependence, in one process and across processes, for integer and string package
   names) is a fact about the runtime; it is decided by re-execution in the harness and by the
   requirement that the model reproduce every trace from the recorded answers alone.
   [model_fuel_irrelevant]: the fuel of the model (an artefact: the Rust code has none) is not a behavioural
   parameter either - two runs on the same answers that both do not run out of fuel return the same outcome,
   state, decision log and number of consumed calls (Proofs/SolverFuel.v).

   Since the third session the priority queue of the implementation (the binary heap of the external crate
   priority-queue 2.1.1) is modelled exactly (Model/Heap.v) and [resolve_h] computes the picked package instead
   of reading it off the recording.  With it the statement of the property is a THEOREM about the model:
   [resolve_deterministic]: two recordings of runs against the same provider - a deterministic state machine
   whose answer may depend on the whole history of calls and answers and on the query - that the model accepts
   give the same result (outcome, final state, decision log, number of calls) and are the SAME call trace
   (same calls, same arguments, same order, same answers), for every lawful... in fact for every VersionSet whose
   boolean equality is Leibniz equality (instance: [resolve_deterministic_range]).
   [model_heap_erasure]: forgetting the heap gives back [resolve] (so every other theorem of this development
   transfers to [resolve_h] on the runs it accepts); [heap_pick_is_max]: the package the heap pops always has
   maximal queue priority (the heap and the abstract queue agree at every decision point), so [resolve_h] never
   reports OPickNotMax; [priority_queue_pop_is_max], [priority_queue_reachable_invariant]: the heap model is a
   max-heap with unique keys after every sequence of push / pop / clear and pop returns a maximum.
   Tie to the code: the Rust PriorityQueue is driven with 67k operation sequences (exhaustive up to length 5 over
   3 items x 2 priorities, plus long seeded ones with many ties) against [heap_run], and every replayed solver run
   (140k quick / millions thorough) must make exactly the picks [resolve_h] computes (field (heap ok)).
   [run_exists_and_is_generated], [accepted_run_is_the_generated_run] (Proofs/SolverGen.v): the GENERATING model
   [resolve_g] asks a typed provider (one answer function per callback, each may depend on the whole history) instead
   of checking a recording; the trace it produces is a recording of that provider which [resolve_h] accepts with the
   same result, and every recording of that provider which [resolve_h] accepts is that trace: for every provider
   there is exactly one run, i.e. the model of resolve IS a total function provider -> (result, call trace).
   What remains a fact about the runtime: that the Rust code has no other hidden input (hash seeds, addresses,
   clocks); decided by re-execution in a second thread and a fresh process. *)
From Coq Require Import List NArith Bool.
From Coq Require Import ZArith Permutation.
From PG Require Import Model.VS Model.Term Model.Heap Model.Solver Proofs.SolverTrace Proofs.SolverFuel Proofs.HeapProofs Proofs.SolverDet Proofs.SolverDetQueue Proofs.SolverDetInst Proofs.SolverDetExample Proofs.SolverGen.
Import ListNotations.

Section C07.
  Context {VS Vr : Type} (O : VSOps VS Vr) (veqb : Vr -> Vr -> bool).

  Theorem model_trace_function :
    forall fuel r v (tr ext1 ext2 : list (event (VS := VS) (Vr := Vr))),
      is_mismatch (fst (fst (fst (resolve O veqb fuel r v tr)))) = false ->
      resolve O veqb fuel r v (tr ++ ext1) = resolve O veqb fuel r v (tr ++ ext2).
  Proof.
    intros fuel r v tr e1 e2 H. now rewrite !(resolve_prefix O veqb fuel r v tr) by assumption.
  Qed.

  Theorem model_fuel_irrelevant :
    forall f1 f2 r v (tr : list (event (VS := VS) (Vr := Vr))) o1 st1 log1 c1 o2 st2 log2 c2,
      resolve O veqb f1 r v tr = (o1, st1, log1, c1) -> resolve O veqb f2 r v tr = (o2, st2, log2, c2) ->
      o1 <> OOutOfFuel -> o2 <> OOutOfFuel -> (o1, st1, log1, c1) = (o2, st2, log2, c2).
  Proof. exact (resolve_fuel_irrelevant O veqb). Qed.

  Theorem model_fuel_monotone :
    forall f f' r v (tr : list (event (VS := VS) (Vr := Vr))) o st log cnt,
      f <= f' -> resolve O veqb f r v tr = (o, st, log, cnt) -> o <> OOutOfFuel ->
      resolve O veqb f' r v tr = (o, st, log, cnt).
  Proof. exact (resolve_fuel_mono O veqb). Qed.

  Theorem model_heap_erasure : forall fuel r v (tr : list (event (VS := VS) (Vr := Vr))),
    (forall k, fst (fst (fst (resolve_h O veqb fuel r v tr))) <> OMismatch k 6) ->
    resolve_h O veqb fuel r v tr = resolve O veqb fuel r v tr.
  Proof. exact (resolve_h_erasure O veqb). Qed.

  Theorem resolve_deterministic :
    (forall a b, vs_eqb O a b = true -> a = b) -> (forall a b, veqb a b = true -> a = b) ->
    forall (prov : provider (VS := VS) (Vr := Vr)) fuel r v tr1 tr2 o1 st1 log1 n1 o2 st2 log2 n2,
      generated_by prov [] tr1 -> generated_by prov [] tr2 ->
      resolve_h O veqb fuel r v tr1 = (o1, st1, log1, n1) ->
      resolve_h O veqb fuel r v tr2 = (o2, st2, log2, n2) ->
      is_mismatch o1 = false -> is_mismatch o2 = false ->
      (o1, st1, log1, n1) = (o2, st2, log2, n2) /\ firstn n1 tr1 = firstn n2 tr2.
  Proof. exact (resolve_h_deterministic O veqb). Qed.

  Theorem heap_pick_is_max : forall fuel r v (tr : list (event (VS := VS) (Vr := Vr))) k p,
    fst (fst (fst (resolve_h O veqb fuel r v tr))) <> OPickNotMax k p.
  Proof. exact (resolve_h_pick_is_max O veqb). Qed.

  (* existence: the generating model produces a recording of the provider that the checker accepts with the same
     result (the four outcomes that are decided while looking at the next choose_version call are reported before
     that call is made: [la] is then that one call) *)
  Theorem run_exists_and_is_generated :
    (forall s, vs_eqb O s s = true) -> (forall v, veqb v v = true) ->
    forall (pg : tprovider (VS := VS) (Vr := Vr)) fuel r v res tr,
      resolve_g O veqb pg fuel r v = (res, tr) ->
      generated_by (to_provider pg) [] tr /\ snd res = length tr /\
      exists la, generated_by (to_provider pg) [] (tr ++ la) /\ resolve_h O veqb fuel r v (tr ++ la) = res /\
                 (la = [] \/ (stops_before_choose (fst (fst (fst res))) = true /\ exists p s a, la = [EvChoose p s a])).
  Proof. exact (resolve_g_is_accepted_run O veqb). Qed.

  (* uniqueness: every accepted recording of the provider is the generated run *)
  Theorem accepted_run_is_the_generated_run :
    (forall s, vs_eqb O s s = true) -> (forall v, veqb v v = true) ->
    (forall a b, vs_eqb O a b = true -> a = b) -> (forall a b, veqb a b = true -> a = b) ->
    forall (pg : tprovider (VS := VS) (Vr := Vr)) fuel r v res tr tr' o st log n,
      resolve_g O veqb pg fuel r v = (res, tr) -> is_mismatch (fst (fst (fst res))) = false ->
      generated_by (to_provider pg) [] tr' -> resolve_h O veqb fuel r v tr' = (o, st, log, n) -> is_mismatch o = false ->
      (o, st, log, n) = res /\ firstn n tr' = tr.
  Proof. exact (accepted_run_is_generated O veqb). Qed.
End C07.

Theorem resolve_deterministic_range :
  forall (prov : @provider Instances.RZ.range Z) fuel r v tr1 tr2 o1 st1 log1 n1 o2 st2 log2 n2,
    generated_by prov [] tr1 -> generated_by prov [] tr2 ->
    resolve_h Instances.RZ.range_vs Z.eqb fuel r v tr1 = (o1, st1, log1, n1) ->
    resolve_h Instances.RZ.range_vs Z.eqb fuel r v tr2 = (o2, st2, log2, n2) ->
    is_mismatch o1 = false -> is_mismatch o2 = false ->
    (o1, st1, log1, n1) = (o2, st2, log2, n2) /\ firstn n1 tr1 = firstn n2 tr2.
Proof. exact resolve_h_deterministic_range. Qed.

(* the priority queue: after every sequence of push / pop / clear from the empty queue the keys are unique and
   the max-heap order holds; pop returns an element of maximal priority and removes exactly it *)
Theorem priority_queue_reachable_invariant : forall ops : list (hop (I := N)),
  heap_wf (heap_of_ops N.eqb ops) /\ heap_ord (heap_of_ops N.eqb ops).
Proof. exact (heap_reachable_inv N.eqb N_eqb_spec'). Qed.

Theorem priority_queue_pop_is_max : forall (h : heap (I := N)) e h',
  heap_ord h -> heap_pop h = Some (e, h') ->
  Permutation h (e :: h') /\ forall x, In x h -> (snd x <= snd e)%Z.
Proof. intros h e h' Ho Hp. split; [exact (heap_pop_perm h e h' Hp)|exact (heap_pop_max h e h' Ho Hp)]. Qed.

Theorem priority_queue_push_is_update : forall (h : heap (I := N)) p z, heap_wf h ->
  Permutation (heap_push N.eqb h p z) ((p, z) :: filter (fun e => negb (N.eqb p (fst e))) h).
Proof. exact (heap_push_perm N.eqb N_eqb_spec'). Qed.

(* non-vacuity: a run with a tie among the queued priorities; the heap decides, the other maximal pick is
   accepted by [resolve] but is not a run of [resolve_h]; both recordings are generated by one provider *)
Example determinism_nonvacuous :
  out_of (resolve_h zvs' Z.eqb 100 0%N 1%Z tie_tr_heap) = OSolution [(0%N, 1%Z); (2%N, 1%Z); (1%N, 1%Z)]
  /\ out_of (resolve_h zvs' Z.eqb 100 0%N 1%Z tie_tr_other) = OMismatch 7 6
  /\ generated_by tie_prov [] tie_tr_heap /\ generated_by tie_prov [] tie_tr_other.
Proof. vm_compute. tauto. Qed.

Definition tie_tprov : tprovider (VS := Instances.RZ.range) (Vr := Z) :=
  {| p_cancel := fun _ => true; p_prio := fun _ _ _ => 0%Z; p_choose := fun _ _ _ => CSome 1%Z;
     p_deps := fun _ p _ => match p with 0%N => DAvail [(1%N, Instances.RZ.full); (2%N, Instances.RZ.full)] | _ => DAvail [] end |}.
Example generating_model_produces_the_heap_run :
  snd (resolve_g zvs' Z.eqb tie_tprov 100 0%N 1%Z) = tie_tr_heap.
Proof. vm_compute. reflexivity. Qed.

Print Assumptions model_trace_function.
Print Assumptions model_fuel_irrelevant.
Print Assumptions model_fuel_monotone.
Print Assumptions model_heap_erasure.
Print Assumptions resolve_deterministic.
Print Assumptions heap_pick_is_max.
Print Assumptions run_exists_and_is_generated.
Print Assumptions accepted_run_is_the_generated_run.
Print Assumptions resolve_deterministic_range.
Print Assumptions priority_queue_reachable_invariant.
Print Assumptions priority_queue_pop_is_max.
Print Assumptions priority_queue_push_is_update.
