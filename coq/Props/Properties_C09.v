(* C09 — collapse_no_versions keeps the explanation true of the existing versions.

   Structural clauses, for every VersionSet implementation and EVERY tree (no well-formedness assumption):
     - a tree without NoVersions leaves is returned unchanged;
     - in the result a NoVersions leaf that is a cause of a derived node sits next to a NoVersions or
       Custom ("unavailable") leaf;
     - the call panics exactly when some derived node has the two causes NoVersions and NotRoot, hence never
       on a tree without such a node (and never on its own result).
   Semantic clause, for every lawful VersionSet and any set [adm] of admissible assignments on which the
   NoVersions leaves are true (no admissible assignment selects a version inside a NoVersions set: "only
   versions that actually exist are considered"; [existing reg] below is the instance for a registry):
     if every derived node of t follows from its causes on adm, then so does every derived node of the
     collapsed tree; its NoVersions leaves are still true on adm; every leaf of the result is a leaf of t or a
     dependency leaf fired by exactly the same admissible assignments as a dependency leaf of t (what was true
     of the provider stays true); and the new top node is fired by every admissible assignment that fired the
     old one - in particular it still forbids the root.
   Hypotheses of the semantic clause besides the premise: version sets of the leaves are well-formed
   (canonical), and [related t]: a NoVersions(p) cause whose sibling collapses to a dependency leaf p1 -> p2 is
   about p1 or p2 (true of resolution steps, whose pivot occurs in both causes; merge_no_versions does not
   check it and would widen the wrong set otherwise).
   Bridge to the solver (Proofs/SolverCollapse.v, section C09_solver below): every tree built by the solver
   model from a justified store - in particular the NoSolution tree of every run of [resolve] on a lawful
   VersionSet, well-formed registry and well-behaved trace - has well-formed leaf sets, NoVersions leaves true
   on [existing reg], every derived node entailed by its causes on EVERY admissible set, and is [related].
   Hence, when it holds no (NoVersions, NotRoot) pair, collapse_no_versions succeeds on it and the collapsed
   tree is a valid explanation on existing versions whose top node still forbids the root.
   NOT proved here (decided by the correspondence + oracle of domain "collapse"): that trees built by resolve
   contain no (NoVersions, NotRoot) pair.  It is reduced to a property of the store alone
   ([no_notroot_cause]: no derived entry has a NotRoot entry among its causes). *)
From Coq Require Import List NArith ZArith Bool.
From PG Require Import Model.VS Model.Term Model.Solver Model.Registry Model.Report Proofs.VSLaws Proofs.SolverSem Proofs.SolverNoPair
  Proofs.SolverStore Proofs.SolverTree Proofs.ReportProofs Proofs.SolverCollapse.
From PG Require Import Model.Instances Proofs.SolverExamples.
Import ListNotations.

Section C09.
  Context {VS Vr : Type} (O : VSOps VS Vr).

  Theorem collapse_id_without_nv :
    forall t : @tree VS Vr, has_nv t = false -> collapse_no_versions O t = CTree t.
  Proof. exact (collapse_id_without_nv_proof O). Qed.

  Theorem collapse_nv_survivors :
    forall t t' : @tree VS Vr, collapse_no_versions O t = CTree t' -> nv_survivors_ok t'.
  Proof. exact (collapse_nv_survivors_proof O). Qed.

  Theorem collapse_panics_iff :
    forall t : @tree VS Vr, collapse_no_versions O t = CPanic <-> nv_notroot_pair t = true.
  Proof. exact (collapse_panics_iff_proof O). Qed.

  Theorem collapse_no_panic :
    forall t : @tree VS Vr, nv_notroot_pair t = false -> exists t', collapse_no_versions O t = CTree t'.
  Proof. exact (collapse_no_panic_proof O). Qed.

  (* the result never contains a (NoVersions, NotRoot) pair: collapsing twice cannot panic either *)
  Theorem collapse_result_collapsible :
    forall t t' : @tree VS Vr, collapse_no_versions O t = CTree t' -> nv_notroot_pair t' = false.
  Proof. exact (collapse_result_no_pair O). Qed.

  (* ---------------------------------------------------------------- semantic clause *)
  Variable L : VSLawful O.
  Variable adm : @assignment Vr -> Prop.

  Theorem collapse_preserves_validity_on_existing :
    forall t t' : @tree VS Vr,
      nv_true O adm t -> tree_wf O L t -> related O t -> locally_entailed O adm t ->
      collapse_no_versions O t = CTree t' ->
      locally_entailed O adm t' /\ nv_true O adm t' /\ tree_wf O L t'
      /\ forall a, adm a -> violates O a (node_terms O t) -> violates O a (node_terms O t').
  Proof. exact (collapse_sem_proof O L adm). Qed.

  Theorem collapse_leaves_preserved :
    forall t t' : @tree VS Vr,
      nv_true O adm t -> tree_wf O L t -> related O t -> locally_entailed O adm t ->
      collapse_no_versions O t = CTree t' ->
      forall e', In e' (leaves t') ->
        exists e, In e (leaves t)
          /\ forall a, adm a -> (violates O a (ext_terms O e) <-> violates O a (ext_terms O e')).
  Proof. exact (collapse_leaves_proof O L adm). Qed.

  (* the top node still forbids the root: if every admissible assignment selecting root@rv fires the old top
     node, it fires the new one *)
  Theorem collapse_top_still_forbids_root :
    forall (t t' : @tree VS Vr) (root : pkg) (rv : Vr),
      nv_true O adm t -> tree_wf O L t -> related O t -> locally_entailed O adm t ->
      collapse_no_versions O t = CTree t' ->
      (forall a, adm a -> a root = Some rv -> violates O a (node_terms O t)) ->
      (forall a, adm a -> a root = Some rv -> violates O a (node_terms O t')).
  Proof.
    intros t t' root rv H1 H2 H3 H4 H5 Hr a Ha Ra.
    destruct (collapse_sem_proof O L adm t t' H1 H2 H3 H4 H5) as (_ & _ & _ & X). exact (X a Ha (Hr a Ha Ra)).
  Qed.
End C09.

(* "only versions that actually exist": the assignments selecting registry versions
   ([existing reg a := forall p v, a p = Some v -> In v (reg_versions reg p)], defined in Proofs/SolverCollapse.v);
   a NoVersions leaf whose set contains no registry version is true on them *)
Section C09_registry.
  Context {VS Vr : Type} (O : VSOps VS Vr).
  Variable reg : @registry VS Vr.

  Theorem existing_unfold :
    forall a : @assignment Vr, existing reg a <-> forall p v, a p = Some v -> In v (reg_versions reg p).
  Proof. intros a. reflexivity. Qed.

  Theorem no_versions_leaf_true_on_existing :
    forall p s, (forall v, In v (reg_versions reg p) -> vs_contains O s v = false) -> absent O (existing reg) p s.
  Proof. intros p s H a Ha v E. exact (H v (Ha p v E)). Qed.
End C09_registry.

(* the trees of the solver model meet the hypotheses of the semantic clause *)
Section C09_solver.
  Context {VS Vr : Type} (O : VSOps VS Vr) (L : VSLawful O) (veqb : Vr -> Vr -> bool).
  Context (reg : registry (VS := VS) (Vr := Vr)) (r : pkg) (rv : Vr).

  (* the two readings of a node's terms (Report.v / SolverTree.v) agree *)
  Theorem node_terms_is_tree_terms : forall t : @tree VS Vr, node_terms O t = tree_terms O t.
  Proof. exact (node_terms_tree_terms O). Qed.

  Theorem store_tree_meets_collapse_hypotheses :
    forall s sh f id t,
      store_just O L reg r rv s -> tree_of f s sh id = Some t ->
      tree_wf O L t /\ nv_true O (existing reg) t /\ related O t /\ (forall adm, locally_entailed O adm t).
  Proof. exact (tree_of_collapse_hyps O L reg r rv). Qed.

  Theorem nosolution_tree_meets_collapse_hypotheses :
    reg_wf O L reg -> (forall a b, veqb a b = true -> a = b) ->
    forall fuel tr t st log k,
      WellBehaved O reg tr -> resolve O veqb fuel r rv tr = (ONoSolution t, st, log, k) ->
      tree_wf O L t /\ nv_true O (existing reg) t /\ related O t /\ (forall adm, locally_entailed O adm t).
  Proof. exact (nosolution_tree_collapse_hyps O L veqb reg r rv). Qed.

  Theorem nosolution_tree_collapse :
    reg_wf O L reg -> (forall a b, veqb a b = true -> a = b) ->
    forall fuel tr t st log k,
      WellBehaved O reg tr -> resolve O veqb fuel r rv tr = (ONoSolution t, st, log, k) ->
      nv_notroot_pair t = false ->
      exists t',
        collapse_no_versions O t = CTree t'
        /\ locally_entailed O (existing reg) t'
        /\ nv_true O (existing reg) t' /\ tree_wf O L t' /\ nv_survivors_ok t' /\ nv_notroot_pair t' = false
        /\ (forall e', In e' (leaves t') ->
              exists e, In e (leaves t)
                /\ forall a, existing reg a -> (violates O a (ext_terms O e) <-> violates O a (ext_terms O e')))
        /\ (forall a, existing reg a -> a r = Some rv -> violates O a (node_terms O t')).
  Proof. exact (nosolution_tree_collapses O L veqb reg r rv). Qed.

  (* the remaining hypothesis, reduced to the store *)
  Theorem nosolution_tree_no_pair_from_store :
    reg_wf O L reg -> (forall a b, veqb a b = true -> a = b) ->
    forall fuel tr t st log k,
      WellBehaved O reg tr -> resolve O veqb fuel r rv tr = (ONoSolution t, st, log, k) ->
      no_notroot_cause (store st) -> nv_notroot_pair t = false.
  Proof. exact (nosolution_tree_no_pair O L veqb reg r rv). Qed.

  (* ... and that condition holds in every run: the not_root incompatibility is never a cause of a derived entry
     (Proofs/SolverNoPair.v) *)
  Theorem resolve_never_resolves_with_not_root :
    reg_wf O L reg -> (forall a b, veqb a b = true -> a = b) ->
    forall fuel tr o st log k,
      WellBehaved O reg tr -> resolve O veqb fuel r rv tr = (o, st, log, k) -> no_notroot_cause (store st).
  Proof. exact (resolve_no_notroot_cause O L veqb reg r rv). Qed.

  (* THE PROPERTY for the trees resolve produces: collapse_no_versions never panics on them, and the result is a
     valid explanation on existing versions: derived nodes entailed, NoVersions leaves true and surviving only next
     to NoVersions/Custom leaves, every leaf equivalent (on existing versions) to a leaf of the original tree - which
     was true of the provider -, and the top node still forbids the root *)
  Theorem nosolution_tree_collapse_never_panics_and_stays_valid :
    reg_wf O L reg -> (forall a b, veqb a b = true -> a = b) ->
    forall fuel tr t st log k,
      WellBehaved O reg tr -> resolve O veqb fuel r rv tr = (ONoSolution t, st, log, k) ->
      exists t', collapse_no_versions O t = CTree t'
        /\ locally_entailed O (existing reg) t' /\ nv_true O (existing reg) t' /\ tree_wf O L t'
        /\ nv_survivors_ok t' /\ nv_notroot_pair t' = false
        /\ (forall e', In e' (leaves t') -> exists e, In e (leaves t)
              /\ forall a, existing reg a -> (violates O a (ext_terms O e) <-> violates O a (ext_terms O e')))
        /\ (forall a, existing reg a -> a r = Some rv -> violates O a (node_terms O t')).
  Proof. exact (nosolution_tree_collapse_total O L veqb reg r rv). Qed.
End C09_solver.

(* non-vacuity: the NoSolution tree of recorded run 1 over Range<Z> (a derived node over a dependency leaf and a
   NoVersions leaf) has no (NoVersions, NotRoot) pair and collapses to a single dependency leaf *)
Example c09_solver_example :
  exists t st log p1 r1 p2 r2,
    resolve zvs Z.eqb 100 0%N 2%Z tr1 = (ONoSolution t, st, log, 8)
    /\ has_nv t = true /\ nv_notroot_pair t = false /\ no_notroot_cause (store st)
    /\ collapse_no_versions zvs t = CTree (TExternal (XFromDep p1 r1 p2 r2))
    /\ locally_entailed zvs (existing reg1) (TExternal (XFromDep p1 r1 p2 r2))
    /\ (forall a, existing reg1 a -> a 0%N = Some 2%Z ->
          violates zvs a (node_terms zvs (TExternal (XFromDep p1 r1 p2 r2)))).
Proof.
  assert (E : exists t st log p1 r1 p2 r2,
             resolve zvs Z.eqb 100 0%N 2%Z tr1 = (ONoSolution t, st, log, 8)
             /\ has_nv t = true /\ nv_notroot_pair t = false
             /\ collapse_no_versions zvs t = CTree (TExternal (XFromDep p1 r1 p2 r2))
             /\ forallb (fun i => match ikind i with
                                  | KDerived a b =>
                                      negb (match option_map (@ikind _ _) (nth_error (store st) a) with
                                            | Some (KNotRoot _ _) => true | _ => false end
                                            || match option_map (@ikind _ _) (nth_error (store st) b) with
                                               | Some (KNotRoot _ _) => true | _ => false end)
                                  | _ => true end) (store st) = true)
    by (vm_compute; do 7 eexists; repeat split).
  destruct E as (t & st & log & p1 & r1 & p2 & r2 & E & Hnv & Hp & Hc & Hst).
  exists t, st, log, p1, r1, p2, r2.
  destruct (nosolution_tree_collapse zvs zlaw Z.eqb reg1 0%N 2%Z reg1_wf zeqb_eq 100 tr1 t st log 8 tr1_wb E Hp)
    as (t' & C & A1 & _ & _ & _ & _ & _ & A2).
  rewrite Hc in C. injection C as <-.
  repeat split; try assumption.
  intros id i a b Hn Hk x ix p v Hx Hnx Hkx.
  rewrite forallb_forall in Hst. specialize (Hst i (nth_error_In _ _ Hn)). rewrite Hk in Hst.
  destruct Hx as [-> | ->]; rewrite Hnx in Hst; cbn in Hst; rewrite Hkx in Hst; cbn in Hst;
    [discriminate|now rewrite orb_true_r in Hst].
Qed.

(* non-vacuity: a NoVersions leaf merged into the dependency leaf next to it; an unmergeable pair kept *)
Example c09_example :
  let nv := TExternal (XNoVersions 1%N [1%N]) in
  let dep := TExternal (XFromDep 0%N [7%N] 1%N [2%N]) in
  let custom := TExternal (XCustom 1%N [3%N] 0%N) in
  let app_vs : VSOps (list N) N :=
    {| vs_eqb := fun _ _ => false; vs_empty := []; vs_singleton := fun v => [v]; vs_complement := fun a => a;
       vs_intersection := fun a _ => a; vs_contains := fun _ _ => false; vs_full := []; vs_union := @app N;
       vs_is_disjoint := fun _ _ => false; vs_subset_of := fun _ _ => false |} in
  collapse_no_versions app_vs (TDerived [] None nv dep) = CTree (TExternal (XFromDep 0%N [7%N] 1%N [2%N; 1%N]))
  /\ collapse_no_versions app_vs (TDerived [] None custom nv) = CTree (TDerived [] None custom nv)
  /\ collapse_no_versions app_vs (TDerived [] None (TExternal (XNotRoot 0%N 1%N)) nv) = CPanic.
Proof. vm_compute. repeat split. Qed.

Print Assumptions collapse_id_without_nv.
Print Assumptions collapse_nv_survivors.
Print Assumptions collapse_panics_iff.
Print Assumptions collapse_no_panic.
Print Assumptions collapse_result_collapsible.
Print Assumptions collapse_preserves_validity_on_existing.
Print Assumptions collapse_leaves_preserved.
Print Assumptions collapse_top_still_forbids_root.
Print Assumptions no_versions_leaf_true_on_existing.
Print Assumptions node_terms_is_tree_terms.
Print Assumptions store_tree_meets_collapse_hypotheses.
Print Assumptions nosolution_tree_meets_collapse_hypotheses.
Print Assumptions nosolution_tree_collapse.
Print Assumptions nosolution_tree_no_pair_from_store.
Print Assumptions resolve_never_resolves_with_not_root.
Print Assumptions nosolution_tree_collapse_never_panics_and_stays_valid.
Print Assumptions existing_unfold.

(* Composition with the solver and the reporter (Proofs/SolverReportEndToEnd.v): for every NoSolution of the solver
   model, collapse_no_versions succeeds (never panics), keeps shared ids consistent ([collapse_unique_ids]), and the text
   report of the COLLAPSED tree is again a sound linear proof when only existing versions are considered; every leaf of
   the collapsed tree is equivalent, on existing versions, to a leaf of the original tree, and the top still forbids the
   root. *)
From Coq Require Import List NArith ZArith Bool.
From PG Require Import Model.VS Model.Term Model.Solver Model.Registry Model.Report Proofs.VSLaws Proofs.SolverSem Proofs.SolverTree Proofs.SolverCollapse Proofs.SolverGen Proofs.SolverEndToEnd Proofs.SolverReportEndToEnd.
Import ListNotations.
Section C09_solver.
  Context {VS Vr : Type} (O : VSOps VS Vr) (L : VSLawful O) (veqb : Vr -> Vr -> bool).
  Context (reg : registry (VS := VS) (Vr := Vr)) (r : pkg) (rv : Vr).
  Notation step := (@step VS Vr).
  Notation event := (@event VS Vr).
  Notation tprovider := (@tprovider VS Vr).

  Theorem resolve_nosolution_collapsed_report_is_sound_proof :
    reg_wf O L reg -> (forall a b, veqb a b = true -> a = b) ->
    forall fuel tr t st log k,
      WellBehaved O reg tr -> resolve O veqb fuel r rv tr = (ONoSolution t, st, log, k) ->
      exists t' l, collapse_no_versions O t = CTree t' /\ report_steps t' = RSteps l
        /\ (nums_of l = seq 1 (length (nums_of l)) /\ Forall (fun s : step => length (s_nums s) <= 1) l)
        /\ (forall l1 s l2 n tr', l = l1 ++ s :: l2 -> In (n, tr') (cited (s_kind s)) ->
              exists la s' lb, l1 = la ++ s' :: lb /\ s_nums s' = [n] /\ s_concl s' = tr'
                               /\ forall s'', In s'' (la ++ lb ++ s :: l2) -> ~ In n (s_nums s''))
        /\ (forall l1 s l2, l = l1 ++ s :: l2 -> is_explain s = true ->
              (uses_prev (s_kind s) = true -> exists p, hd_error (rev l1) = Some p /\ s_kind p <> KBlank)
              /\ entailed_on O (existing reg) (s_concl s) (premises_of O s (hd_error (rev l1))))
        /\ incl (leaves t') (cited_exts l)
        /\ (exists l0 s, l = l0 ++ [s] /\ s_kind s <> KBlank
              /\ match t' with TDerived ts _ _ _ => s_concl s = ts | TExternal e => s_kind s = KOnlyExternal e end)
        /\ (forall e', In e' (leaves t') -> exists e, In e (leaves t)
              /\ forall a, existing reg a -> (violates O a (ext_terms O e) <-> violates O a (ext_terms O e')))
        /\ (forall a, existing reg a -> a r = Some rv -> violates O a (node_terms O t')).
  Proof. exact (nosolution_collapsed_report_is_sound_proof O L veqb reg r rv). Qed.

  Theorem provider_nosolution_collapsed_report_is_sound_proof :
    reg_wf O L reg ->
    (forall a b, veqb a b = true -> a = b) -> (forall v, veqb v v = true) -> (forall s, vs_eqb O s s = true) ->
    forall (pg : tprovider) fuel res tr t,
      serves O reg pg -> resolve_g O veqb pg fuel r rv = (res, tr) -> fst (fst (fst res)) = ONoSolution t ->
      exists t' l, collapse_no_versions O t = CTree t' /\ report_steps t' = RSteps l
        /\ (nums_of l = seq 1 (length (nums_of l)) /\ Forall (fun s : step => length (s_nums s) <= 1) l)
        /\ (forall l1 s l2 n tr', l = l1 ++ s :: l2 -> In (n, tr') (cited (s_kind s)) ->
              exists la s' lb, l1 = la ++ s' :: lb /\ s_nums s' = [n] /\ s_concl s' = tr'
                               /\ forall s'', In s'' (la ++ lb ++ s :: l2) -> ~ In n (s_nums s''))
        /\ (forall l1 s l2, l = l1 ++ s :: l2 -> is_explain s = true ->
              (uses_prev (s_kind s) = true -> exists p, hd_error (rev l1) = Some p /\ s_kind p <> KBlank)
              /\ entailed_on O (existing reg) (s_concl s) (premises_of O s (hd_error (rev l1))))
        /\ incl (leaves t') (cited_exts l)
        /\ (exists l0 s, l = l0 ++ [s] /\ s_kind s <> KBlank
              /\ match t' with TDerived ts _ _ _ => s_concl s = ts | TExternal e => s_kind s = KOnlyExternal e end)
        /\ (forall e', In e' (leaves t') -> exists e, In e (leaves t)
              /\ forall a, existing reg a -> (violates O a (ext_terms O e) <-> violates O a (ext_terms O e')))
        /\ (forall a, existing reg a -> a r = Some rv -> violates O a (node_terms O t')).
  Proof. exact (resolve_g_nosolution_collapsed_report_is_sound_proof O L veqb reg r rv). Qed.
End C09_solver.
Print Assumptions resolve_nosolution_collapsed_report_is_sound_proof.
Print Assumptions provider_nosolution_collapsed_report_is_sound_proof.
