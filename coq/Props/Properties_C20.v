(* C20 — SemanticVersion parsing, printing, ordering and bumping are consistent.
   Statements only; every proof is [exact lemma].  See DESIGN.md section 6 (C20). *)
From PG Require Import Model.Text Model.SemVer Proofs.SemVerProofs.
Open Scope N_scope.

(* Display followed by FromStr returns the same version (components are u32) *)
Theorem semver_print_parse :
  forall v, sv_in_u32 v = true -> sv_parse (sv_display v) = ParseOk v.
Proof. exact sv_print_parse. Qed.

(* str::split('.'): parts are '.'-free, and joining them with '.' gives the input back *)
Theorem semver_split_spec :
  forall s, Forall dotfree (split_dot s) /\ join [46] (split_dot s) = s /\ split_dot s <> [].
Proof. exact split_dot_spec. Qed.

(* u32::from_str: optional '+', at least one ASCII digit, value fits in u32 *)
Theorem semver_parse_u32_ok :
  forall s n, parse_u32 s = inl n <->
    exists ds, (s = ds \/ s = 43 :: ds) /\ ds <> [] /\ digits ds /\ horner 0 ds = n /\ n <= u32_max.
Proof. exact parse_u32_ok_iff. Qed.

Theorem semver_parse_u32_empty : forall s, parse_u32 s = inr IEmpty <-> s = [].
Proof. exact parse_u32_empty_iff. Qed.

(* FromStr succeeds exactly when there are three parts that each parse *)
Theorem semver_parse_ok :
  forall s v, sv_parse s = ParseOk v <->
    exists a b c, split_dot s = [a; b; c] /\ parse_u32 a = inl (major v)
                  /\ parse_u32 b = inl (minor v) /\ parse_u32 c = inl (patch v).
Proof. exact sv_parse_ok_iff. Qed.

Theorem semver_parse_not_three :
  forall s, (exists f, sv_parse s = NotThreeParts f) <-> length (split_dot s) <> 3%nat.
Proof. exact sv_parse_not_three_iff. Qed.

Theorem semver_parse_not_three_payload : forall s f, sv_parse s = NotThreeParts f -> f = s.
Proof. exact sv_parse_not_three_payload. Qed.

(* ParseIntError names the first offending part *)
Theorem semver_parse_int_error :
  forall s f p e, sv_parse s = ParseIntError f p e <->
    f = s /\ exists parts, split_dot s = parts /\ length parts = 3%nat /\
      exists pre post, parts = pre ++ p :: post
        /\ Forall (fun q => exists n, parse_u32 q = inl n) pre /\ parse_u32 p = inr e.
Proof. exact sv_parse_int_error_iff. Qed.

(* ordering is lexicographic on (major, minor, patch) *)
Theorem semver_order_lex :
  forall u v, (sv_compare u v = Eq <-> u = v) /\ (sv_compare u v = Lt <-> sv_lt u v)
              /\ (sv_compare u v = Gt <-> sv_lt v u).
Proof. exact sv_compare_lex. Qed.

Theorem semver_tuple_inverse :
  (forall v, sv_of_tuple (sv_to_tuple v) = v) /\ (forall t, sv_to_tuple (sv_of_tuple t) = t).
Proof. exact sv_tuple_inverse. Qed.

(* bumps below u32::MAX: strictly greater, lower components reset; at u32::MAX the model says None *)
Theorem semver_bump_spec :
  forall v,
  (patch v < u32_max ->
     exists v', bump_patch v = Some v' /\ sv_lt v v' /\ major v' = major v /\ minor v' = minor v
                /\ patch v' = patch v + 1 /\ (sv_in_u32 v = true -> sv_in_u32 v' = true)) /\
  (minor v < u32_max ->
     exists v', bump_minor v = Some v' /\ sv_lt v v' /\ major v' = major v /\ minor v' = minor v + 1
                /\ patch v' = 0 /\ (sv_in_u32 v = true -> sv_in_u32 v' = true)) /\
  (major v < u32_max ->
     exists v', bump_major v = Some v' /\ sv_lt v v' /\ major v' = major v + 1 /\ minor v' = 0
                /\ patch v' = 0 /\ (sv_in_u32 v = true -> sv_in_u32 v' = true)) /\
  (u32_max <= patch v -> bump_patch v = None) /\
  (u32_max <= minor v -> bump_minor v = None) /\
  (u32_max <= major v -> bump_major v = None).
Proof. exact sv_bump_spec. Qed.

(* non-vacuity *)
Example semver_example :
  sv_in_u32 (SV 4294967295 0 7) = true
  /\ sv_parse (txt "+1.007.4294967295") = ParseOk (SV 1 7 4294967295)
  /\ sv_parse (txt "1.2.4294967296") = ParseIntError (txt "1.2.4294967296") (txt "4294967296") IPosOverflow
  /\ sv_parse (txt "1..3") = ParseIntError (txt "1..3") [] IEmpty
  /\ sv_parse (txt "1.2.3.") = NotThreeParts (txt "1.2.3.").
Proof. vm_compute. repeat split. Qed.

Print Assumptions semver_print_parse.
Print Assumptions semver_split_spec.
Print Assumptions semver_parse_u32_ok.
Print Assumptions semver_parse_u32_empty.
Print Assumptions semver_parse_ok.
Print Assumptions semver_parse_not_three.
Print Assumptions semver_parse_not_three_payload.
Print Assumptions semver_parse_int_error.
Print Assumptions semver_order_lex.
Print Assumptions semver_tuple_inverse.
Print Assumptions semver_bump_spec.
