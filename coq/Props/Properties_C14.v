(* C14 — The next decision is always for a package of maximal reported priority (model side).

   The model's decision log has one entry (cands, q, n) per decision point: cands = the packages with a
   positive term and no decision (with their current set), q = the priority queue after the prioritize calls
   of this iteration (each entry carries, as ghost data, the set the priority was reported for), n = the
   number of provider events consumed so far (the next event is the choose_version of this decision).
   That the package asked about has a maximal priority in q is checked by the model on every replayed run
   (outcome OPickNotMax otherwise).  Which maximal element the Rust PriorityQueue pops was an adversarial
   parameter read from the recording; since the third session the heap of the priority-queue crate is modelled
   exactly (Model/Heap.v, [resolve_h]) and [exact_queue_pick_is_maximal] proves that the package this heap pops
   always has maximal queue priority: "pop returns a maximum" is now a theorem about the modelled heap
   ([exact_queue_pop_is_max]) tied to the crate by a differential test, no longer an assumption.

   Proved here for every lawful VersionSet, ANY fuel and ANY trace whose dependency answers carry well-formed
   sets (in particular every trace that agrees with a well-formed registry):
   - [undecided_positive_reported] (second clause of the property, in full): at every decision point every
     undecided package with a positive term is queued, its queue entry was reported for its CURRENT set, and
     that entry is the LAST prioritize call for the package before the decision (Proofs/SolverQueue.v:
     structural invariant of the `changed`-index bookkeeping; Proofs/SolverQueue2.v: every non-deciding
     continuation re-queues the picked package, which needs the laws of the VersionSet);
   - [chosen_package_is_maximal] (first clause): the package of the choose_version call the model accepts at
     a decision point has a queue entry for exactly the offered set whose priority is the maximum of the
     queue, and [queue_max_is_upper_bound] every queued priority is below it.
   - [queue_covers_undecided_partial]: the purely structural part, for any trace at all. *)
From Coq Require Import List NArith Bool.
From Coq Require Import ZArith.
From PG Require Import Model.VS Model.Term Model.Solver Model.Registry Proofs.VSLaws Proofs.SolverSem Proofs.SolverQueue Proofs.SolverQueue2.
From Coq Require Import ZArith.
From PG Require Import Model.Instances Proofs.SolverExamples Model.Heap Proofs.HeapProofs Proofs.SolverDetInst.
Import ListNotations.

Section C14.
  Context {VS Vr : Type} (O : VSOps VS Vr) (veqb : Vr -> Vr -> bool).
  Notation event := (event (VS := VS) (Vr := Vr)).

  Theorem queue_covers_undecided_partial :
    forall fuel r v (tr : list event) o st' log cnt k cands q n2 x s,
      resolve O veqb fuel r v tr = (o, st', log, cnt) ->
      nth_error log k = Some (cands, q, n2) -> In (x, s) cands ->
      (exists z, get x q = Some (z, s))
      \/ exists j pj, j < k /\ nth_error log j = Some pj /\ chosen_at tr (snd pj) = Some x.
  Proof. exact (resolve_log_nth O veqb). Qed.

  (* the first decision point has no exception at all *)
  Corollary queue_covers_undecided_first :
    forall fuel r v (tr : list event) o st' log cnt cands q n2 x s,
      resolve O veqb fuel r v tr = (o, st', log, cnt) ->
      nth_error log 0 = Some (cands, q, n2) -> In (x, s) cands -> exists z, get x q = Some (z, s).
  Proof.
    intros fuel r v tr o st' log cnt cands q n2 x s E H0 Hin.
    destruct (queue_covers_undecided_partial fuel r v tr o st' log cnt 0 cands q n2 x s E H0 Hin) as [H|(j & pj & Hj & _)];
      [exact H | inversion Hj].
  Qed.

  (* the candidates of a log entry are exactly the undecided packages with a positive term *)
  Theorem candidates_are_undecided_positive :
    forall (p : psol (VS := VS) (Vr := Vr)) x s, In (x, s) (undecided_positive p) <->
      exists i a, nth_error (assignments p) i = Some (x, a) /\ ai a = ADerivations (Pos s).
  Proof.
    intros p x s. rewrite (undecided_positive_in p x s). split; intros (i & a & Hn & Hs); exists i, a; (split; [exact Hn|]).
    - unfold pos_set in Hs. destruct (ai a) as [|[s0|]]; try discriminate. now injection Hs as ->.
    - unfold pos_set. now rewrite Hs.
  Qed.

  (* with the priority queue modelled exactly, the model never has to reject a pick as non-maximal *)
  Theorem exact_queue_pick_is_maximal : forall fuel r v (tr : list event) k p,
    fst (fst (fst (resolve_h O veqb fuel r v tr))) <> OPickNotMax k p.
  Proof. exact (resolve_h_pick_is_max O veqb). Qed.
End C14.

Theorem exact_queue_pop_is_max : forall (h : heap (I := N)) e h',
  heap_ord h -> heap_pop h = Some (e, h') -> forall x, In x h -> (snd x <= snd e)%Z.
Proof. exact (@heap_pop_max N). Qed.

Section C14_semantic.
  Context {VS Vr : Type} (O : VSOps VS Vr) (L : VSLawful O) (veqb : Vr -> Vr -> bool).
  Notation event := (event (VS := VS) (Vr := Vr)).

  Theorem undecided_positive_reported :
    forall fuel r v (tr : list event) o st' log cnt k cands q n2 x s,
      trace_wf O L tr -> resolve O veqb fuel r v tr = (o, st', log, cnt) ->
      nth_error log k = Some (cands, q, n2) -> In (x, s) cands ->
      exists z, get x q = Some (z, s) /\ last_prio_at tr n2 x s z.
  Proof. exact (resolve_fresh_reported O L veqb). Qed.

  Theorem chosen_package_is_maximal :
    forall fuel r v (tr : list event) o st' log cnt k cands q n2 p s a,
      trace_wf O L tr -> resolve O veqb fuel r v tr = (o, st', log, cnt) ->
      nth_error log k = Some (cands, q, n2) -> n2 < cnt -> nth_error tr n2 = Some (EvChoose p s a) ->
      exists z, get p q = Some (z, s) /\ queue_max q = Some z.
  Proof. exact (resolve_choose_max O L veqb). Qed.

  Theorem queue_max_is_upper_bound :
    forall (q : list (pkg * (Z * VS))) mx x z s, queue_max q = Some mx -> get x q = Some (z, s) -> (z <= mx)%Z.
  Proof. exact (queue_max_ge (VS := VS)). Qed.

  (* traces that agree with a registry whose dependency sets are well formed satisfy [trace_wf] *)
  Theorem wellbehaved_traces_are_wf :
    forall (reg : registry (VS := VS) (Vr := Vr)) (tr : list event),
      reg_wf O L reg -> WellBehaved O reg tr -> trace_wf O L tr.
  Proof. exact (wellbehaved_trace_wf O L). Qed.
End C14_semantic.

(* non-vacuity: a recorded run over Range<Z> with a conflict and a backtrack has 4 decision points; at the
   third, package 1 is undecided with the positive set "not 2" and is queued for exactly that set *)
Example queue_covers_nonvacuous :
  exists o st log cands q n2 z,
    resolve zvs Z.eqb 100 0%N 1%Z tr2 = (o, st, log, 13) /\ nth_error log 2 = Some (cands, q, n2)
    /\ In (1%N, not2) cands /\ get 1%N q = Some (z, not2).
Proof. vm_compute. do 7 eexists. repeat split; try reflexivity. now left. Qed.

Print Assumptions queue_covers_undecided_partial.
Print Assumptions queue_covers_undecided_first.
Print Assumptions candidates_are_undecided_positive.
Print Assumptions undecided_positive_reported.
Print Assumptions chosen_package_is_maximal.
Print Assumptions queue_max_is_upper_bound.
Print Assumptions wellbehaved_traces_are_wf.
Print Assumptions exact_queue_pick_is_maximal.
Print Assumptions exact_queue_pop_is_max.

(* C14 end to end (Proofs/SolverPriorityEndToEnd.v): for the GENERATING model - the pick computed by the exact heap of the
   priority-queue crate, no recording involved - against every provider serving a finite registry: at every decision
   point every undecided package with a positive term is queued for exactly its current set by its last prioritize
   call, and the package asked about has the maximal priority of the queue, reported for exactly the offered set. *)
From Coq Require Import List NArith ZArith Bool Lia PeanoNat Permutation.
From PG Require Import Model.VS Model.Term Model.Heap Model.Solver Model.Registry Proofs.VSLaws Proofs.SolverSem
  Proofs.AssocProofs Proofs.SolverStore Proofs.SolverShared Proofs.SolverProto2 Proofs.SolverNoPanic1 Proofs.SolverNoPanic
  Proofs.SolverTerm1 Proofs.SolverTerm4 Proofs.SolverTerm Proofs.SolverQueue Proofs.SolverQueue2 Proofs.SolverSound
  Proofs.SolverTrace Proofs.SolverDet Proofs.HeapProofs Proofs.SolverDetQueue Proofs.SolverDetInst Proofs.SolverGen
  Proofs.SolverProtocol Proofs.SolverTree Proofs.SolverReach Proofs.SolverEndToEnd Proofs.SolverEndToEndFull.
From PG Require Import Proofs.SolverPriorityEndToEnd.
Import ListNotations.
Local Open Scope nat_scope.
Section C14_end_to_end.
  Context {VS Vr : Type} (O : VSOps VS Vr) (L : VSLawful O) (veqb : Vr -> Vr -> bool).
  Context (reg : registry (VS := VS) (Vr := Vr)) (r : pkg) (rv : Vr).
  Variable R : Ranked O L.
  Variable pkgs : list pkg.
  Notation event := (@event VS Vr).
  Notation tprovider := (@tprovider VS Vr).

  Theorem every_decision_of_the_model_is_maximal :
    singleton_atomic O L -> reg_wf O L reg ->
    (forall a b, veqb a b = true -> a = b) -> (forall v, veqb v v = true) -> (forall s, vs_eqb O s s = true) ->
    finite_registry O L reg r rv R pkgs ->
    forall (pg : tprovider) fuel res (tr : list event),
      serves O reg pg -> Fuel1 O L R pkgs <= fuel ->
      resolve_g O veqb pg fuel r rv = (res, tr) ->
      forall k cands q n2, nth_error (snd (fst res)) k = Some (cands, q, n2) ->
        (* every undecided package with a positive term is queued, for exactly its current set, by its LAST
           prioritize call *)
        (forall x s, In (x, s) cands -> exists z, get x q = Some (z, s) /\ last_prio_at tr n2 x s z)
        (* the package asked about at this decision point has the maximal priority of the queue, reported for
           exactly the offered set, and every queued priority is below it *)
        /\ (forall p s a, nth_error tr n2 = Some (EvChoose p s a) ->
              exists z, get p q = Some (z, s) /\ queue_max q = Some z
                        /\ forall x zx sx, get x q = Some (zx, sx) -> (zx <= z)%Z).
  Proof. exact (resolve_g_decisions_are_maximal O L veqb reg r rv R pkgs). Qed.
End C14_end_to_end.
Print Assumptions every_decision_of_the_model_is_maximal.
