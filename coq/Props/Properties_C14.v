(* C14 — The next decision is always for a package of maximal reported priority (model side, stage 1).

   The model's decision log has one entry (cands, q, n) per decision point: cands = the packages with a
   positive term and no decision (with their current set), q = the priority queue after the prioritize calls
   of this iteration (each entry carries, as ghost data, the set the priority was reported for), n = the
   number of provider events consumed so far (the next event is the choose_version of this decision).
   That the package asked about has a maximal priority in q is checked by the model on every replayed run
   (outcome OPickNotMax otherwise): which maximal element the Rust PriorityQueue pops is not modelled.

   Proved here, for ANY trace and fuel (structural invariant of the `changed`-index bookkeeping of
   partial_solution.rs, Proofs/SolverQueue.v): at every decision point every undecided positive package is
   queued with a priority that was reported for its CURRENT set, except possibly packages that were
   themselves picked at an earlier decision point.  (The exception is removed by the semantic argument that
   every non-deciding continuation re-queues the picked package: stage 2.) *)
From Coq Require Import List NArith Bool.
From PG Require Import Model.VS Model.Term Model.Solver Proofs.SolverQueue.
From Coq Require Import ZArith.
From PG Require Import Model.Instances Proofs.SolverExamples.
Import ListNotations.

Section C14.
  Context {VS Vr : Type} (O : VSOps VS Vr) (veqb : Vr -> Vr -> bool).
  Notation event := (event (VS := VS) (Vr := Vr)).

  Theorem queue_covers_undecided_partial :
    forall fuel r v (tr : list event) o st' log cnt k cands q n2 x s,
      resolve O veqb fuel r v tr = (o, st', log, cnt) ->
      nth_error log k = Some (cands, q, n2) -> In (x, s) cands ->
      (exists z, get x q = Some (z, s))
      \/ exists j pj, j < k /\ nth_error log j = Some pj /\ chosen_at tr (snd pj) = Some x.
  Proof. exact (resolve_log_nth O veqb). Qed.

  (* the first decision point has no exception at all *)
  Corollary queue_covers_undecided_first :
    forall fuel r v (tr : list event) o st' log cnt cands q n2 x s,
      resolve O veqb fuel r v tr = (o, st', log, cnt) ->
      nth_error log 0 = Some (cands, q, n2) -> In (x, s) cands -> exists z, get x q = Some (z, s).
  Proof.
    intros fuel r v tr o st' log cnt cands q n2 x s E H0 Hin.
    destruct (queue_covers_undecided_partial fuel r v tr o st' log cnt 0 cands q n2 x s E H0 Hin) as [H|(j & pj & Hj & _)];
      [exact H | inversion Hj].
  Qed.

  (* the candidates of a log entry are exactly the undecided packages with a positive term *)
  Theorem candidates_are_undecided_positive :
    forall (p : psol (VS := VS) (Vr := Vr)) x s, In (x, s) (undecided_positive p) <->
      exists i a, nth_error (assignments p) i = Some (x, a) /\ ai a = ADerivations (Pos s).
  Proof.
    intros p x s. rewrite (undecided_positive_in p x s). split; intros (i & a & Hn & Hs); exists i, a; (split; [exact Hn|]).
    - unfold pos_set in Hs. destruct (ai a) as [|[s0|]]; try discriminate. now injection Hs as ->.
    - unfold pos_set. now rewrite Hs.
  Qed.
End C14.

(* non-vacuity: a recorded run over Range<Z> with a conflict and a backtrack has 4 decision points; at the
   third, package 1 is undecided with the positive set "not 2" and is queued for exactly that set *)
Example queue_covers_nonvacuous :
  exists o st log cands q n2 z,
    resolve zvs Z.eqb 100 0%N 1%Z tr2 = (o, st, log, 13) /\ nth_error log 2 = Some (cands, q, n2)
    /\ In (1%N, not2) cands /\ get 1%N q = Some (z, not2).
Proof. vm_compute. do 7 eexists. repeat split; try reflexivity. now left. Qed.

Print Assumptions queue_covers_undecided_partial.
Print Assumptions queue_covers_undecided_first.
Print Assumptions candidates_are_undecided_positive.
