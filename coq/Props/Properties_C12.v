(* C12 — The provider is queried according to a fixed protocol (model side).
   Proved for the model of resolve, for ANY trace and fuel (well-behaved provider or not): the calls the
   model consumes ([firstn k tr], k = the returned number of consumed events) are accepted by the
   scanner [shape], which encodes clauses (1), (2) and (5) of the property:
     (5) the first call is should_cancel and every choose_version is preceded by a should_cancel issued
         after the previous choose_version ([protocol_first_cancel], [protocol_after_choose]);
     (1) get_dependencies(p, v) is immediately preceded by the choose_version(p, _) that returned v
         ([protocol_deps_preceded]);
     (2) get_dependencies is called at most once per (p, v) ([protocol_deps_once]).
     (3) [protocol_choose_set_is_last_prioritized] (for every lawful VersionSet and every trace whose dependency
         answers carry well-formed sets): the set of every choose_version(p, set) call the model accepts is the
         set of the LAST prioritize call for p before it (Proofs/SolverQueue2.v).
         [protocol_choose_set_nonempty]: and that set is not the empty set (every accumulated term of the partial
         solution is non-empty over the semantic universe of the lawful VersionSet - through conflict resolution
         and backtracking as well; Proofs/SolverProto2.v);
     (4) [protocol_first_query_is_root]: the first choose_version call is for the root with the singleton set of the
         requested version, preceded by exactly should_cancel and one prioritize call for the root with that set.
   All clauses of the property are thus theorems about the model; the tie to the Rust code is the replay of every
   recorded trace and the protocol checker of the harness run on the implementation's own trace. *)
From Coq Require Import List NArith Bool.
From PG Require Import Model.VS Model.Term Model.Solver Proofs.VSLaws Proofs.SolverQueue2 Proofs.SolverProto2 Proofs.SolverTrace Proofs.SolverProtocol.
Import ListNotations.

Section C12.
  Context {VS Vr : Type} (O : VSOps VS Vr) (veqb : Vr -> Vr -> bool).
  Notation event := (event (VS := VS) (Vr := Vr)).

  Theorem protocol_consumed_trace_partial :
    forall fuel r v (tr : list event),
      shape veqb (P0 (Vr := Vr)) [] (firstn (snd (resolve O veqb fuel r v tr)) tr) = true.
  Proof. exact (resolve_protocol O veqb). Qed.

  Theorem protocol_first_cancel :
    forall added (tr : list event), shape veqb (P0 (Vr := Vr)) added tr = true ->
      match tr with [] => True | e :: _ => exists ok, e = EvCancel ok end.
  Proof. exact (shape_first_cancel veqb). Qed.

  Theorem protocol_after_choose :
    forall ph added p s a (rest : list event),
      shape veqb ph added (EvChoose p s a :: rest) = true ->
      match rest with
      | [] => True
      | EvCancel _ :: _ => True
      | EvDeps p' v' _ :: rest' =>
          (exists v, a = CSome v /\ N.eqb p p' && veqb v v' = true) /\
          match rest' with [] => True | EvCancel _ :: _ => True | _ => False end
      | _ => False
      end.
  Proof. exact (shape_after_choose veqb). Qed.

  Theorem protocol_deps_preceded :
    forall (pre : list event) ph added p' v' a rest,
      shape veqb ph added (pre ++ EvDeps p' v' a :: rest) = true ->
      (pre = [] /\ exists p v, ph = P2 p v /\ N.eqb p p' && veqb v v' = true)
      \/ (exists pre0 p s v, pre = pre0 ++ [EvChoose p s (CSome v)] /\ N.eqb p p' && veqb v v' = true).
  Proof. exact (shape_deps_preceded veqb). Qed.

  Theorem protocol_deps_once :
    (forall v, veqb v v = true) -> (forall a b, veqb a b = true -> a = b) ->
    forall (tr : list event), shape veqb (P0 (Vr := Vr)) [] tr = true -> NoDup (deps_of tr).
  Proof.
    intros H1 H2 tr H. exact (proj2 (shape_deps_fresh veqb H1 H2 tr P0 [] I H)).
  Qed.
End C12.

Section C12_semantic.
  Context {VS Vr : Type} (O : VSOps VS Vr) (L : VSLawful O) (veqb : Vr -> Vr -> bool).
  Notation event := (event (VS := VS) (Vr := Vr)).

  Theorem protocol_choose_set_is_last_prioritized :
    forall fuel r v (tr : list event) o st' log cnt i p s a,
      trace_wf O L tr -> resolve O veqb fuel r v tr = (o, st', log, cnt) ->
      i < cnt -> nth_error tr i = Some (EvChoose p s a) -> exists z, last_prio_at tr i p s z.
  Proof. exact (resolve_choose_set O L veqb). Qed.

  Theorem protocol_choose_set_nonempty :
    forall fuel r rv (tr : list event) o st log cnt i p s a,
      trace_wf O L tr -> resolve O veqb fuel r rv tr = (o, st, log, cnt) ->
      i < cnt -> nth_error tr i = Some (EvChoose p s a) ->
      s <> vs_empty O /\ vs_eqb O s (vs_empty O) = false.
  Proof.
    intros fuel r rv tr o st log cnt i p s a Hwf E Hi Hn. split.
    - exact (resolve_choose_nonempty O L veqb fuel r rv tr o st log cnt i p s a Hwf E Hi Hn).
    - exact (resolve_choose_nonempty_eqb O L veqb fuel r rv tr o st log cnt i p s a Hwf E Hi Hn).
  Qed.

  Theorem protocol_first_query_is_root :
    forall fuel r rv (tr : list event) o st log cnt i p s a,
      resolve O veqb fuel r rv tr = (o, st, log, cnt) ->
      i < cnt -> nth_error tr i = Some (EvChoose p s a) ->
      (forall j e, j < i -> nth_error tr j = Some e -> is_choose e = false) ->
      p = r /\ s = vs_singleton O rv /\ i = 2 /\
      exists z, firstn i tr = [EvCancel true; EvPrioritize r (vs_singleton O rv) z].
  Proof. exact (resolve_first_choose O L veqb). Qed.
End C12_semantic.

Print Assumptions protocol_consumed_trace_partial.
Print Assumptions protocol_first_cancel.
Print Assumptions protocol_after_choose.
Print Assumptions protocol_deps_preceded.
Print Assumptions protocol_deps_once.
Print Assumptions protocol_choose_set_is_last_prioritized.
Print Assumptions protocol_choose_set_nonempty.
Print Assumptions protocol_first_query_is_root.
