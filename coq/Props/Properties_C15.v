(* C15 — Range queries and Display agree with membership.  Any decidable total order of versions. *)
From Coq Require Import Orders List Bool.
From PG Require Import Model.Text Model.Range Model.Instances Proofs.RangeSimplify Proofs.RangeSimplify2 Proofs.GenEq.

Module C15 (V : UsualOrderedTypeFull).
  Module Import P := RangeSimplify2P V.

  (* contains_many over an ascending sequence equals mapping contains *)
  Theorem range_contains_many_spec :
    forall r vs, canonical r -> Sorted.StronglySorted V.le vs ->
      contains_many r vs = map (contains r) vs.
  Proof. exact contains_many_spec. Qed.

  (* simplify(versions): canonical, agrees with the original on every listed version, never has more
     segments; plus the three documented special cases (singleton, nothing matched, everything matched) *)
  Theorem range_simplify_spec :
    forall r vs, canonical r -> Sorted.StronglySorted V.le vs ->
      let s := simplify r vs in
      canonical s /\ (forall v, In v vs -> contains s v = contains r v) /\ (length s <= length r)%nat.
  Proof. exact simplify_spec. Qed.

  Theorem range_simplify_special_cases :
    forall r vs, canonical r -> Sorted.StronglySorted V.le vs ->
      (as_singleton r <> None -> simplify r vs = r)
      /\ (existsb (contains r) vs = false -> simplify r vs = r)
      /\ (vs <> [] -> as_singleton r = None -> forallb (contains r) vs = true -> simplify r vs = full).
  Proof.
    intros r vs Hc Hs. split; [intros H; now apply simplify_singleton|].
    split; [now apply simplify_none|intros; now apply simplify_all].
  Qed.

  Theorem range_bounding_range_spec :
    forall r, (bounding_range r = None <-> r = [])
      /\ (forall s e, bounding_range r = Some (s, e) -> canonical r ->
            forall x, den r x -> lo_of s <=p x /\ x <=p hi_of e).
  Proof. exact bounding_range_spec. Qed.

  Theorem range_as_singleton_spec :
    forall r v, (as_singleton r = Some v <-> r = singleton v)
      /\ (canonical r -> (as_singleton r = Some v <-> forall x, den r x <-> x = P v At)).
  Proof. intros r v. split; [apply as_singleton_spec|apply as_singleton_den]. Qed.

  Theorem range_from_range_bounds_spec :
    forall s e,
      canonical (from_range_bounds s e)
      /\ (forall v, contains (from_range_bounds s e) v = true <-> std_contains s e v)
      /\ (forall x, den (from_range_bounds s e) x <-> lo_of s <=p x /\ x <=p hi_of e)
      /\ ((forall x, ~ (lo_of s <=p x /\ x <=p hi_of e)) -> from_range_bounds s e = []).
  Proof.
    intros s e. destruct (from_range_bounds_spec s e) as (H1 & H2 & H3).
    split; [exact H1|]. split; [intros v; apply from_range_bounds_contains|]. split; assumption.
  Qed.

  Theorem range_is_empty_spec : forall r, canonical r -> (is_empty r = true <-> forall x, ~ den r x).
  Proof. exact is_empty_spec. Qed.

  (* Display: the tokens, read with the usual meaning of '*', v, <, <=, >, >=, ', ' and ' | ',
     denote exactly the range's set; distinct canonical ranges print different token lists; the
     text is the rendering of the tokens *)
  Theorem range_display_denotes : forall r x, tokens_sem (display_tokens r) x <-> den r x.
  Proof. exact display_tokens_sem. Qed.

  Theorem range_display_injective :
    forall a b, canonical a -> canonical b -> display_tokens a = display_tokens b -> a = b.
  Proof. exact display_tokens_injective. Qed.

  Theorem range_display_is_render : forall show r, display show r = render show (display_tokens r).
  Proof. exact display_is_render. Qed.

  Theorem range_iter_union : forall r x, den r x <-> exists sg, In sg (iter r) /\ in_seg x sg.
  Proof. exact iter_union. Qed.
  Module GE := GenRangeEq V.
  (* tie to the source: within_bounds (the cursor's comparison) regenerated from src/range.rs on this run *)
  Theorem range_within_bounds_matches_source :
    forall v sg, GE.G.gen_within_bounds v sg = GE.M.within_bounds v sg.
  Proof. exact GE.range_within_bounds_matches_source. Qed.
End C15.

Module C15Z := C15 ZV.

Example c15_example :
  let r := [(Unb, Excl 10); (Incl 20, Incl 20); (Excl 30, Unb)]%Z in
  RZ.contains_many r [5; 10; 20; 20; 35]%Z = [true; false; true; true; true]
  /\ RZ.simplify r [5; 10; 20; 35]%Z = [(Unb, Excl 10); (Incl 20, Unb)]%Z
  /\ rz_display r = txt "<10 | 20 | >30".
Proof. vm_compute. repeat split. Qed.

Print Assumptions C15Z.range_contains_many_spec.
Print Assumptions C15Z.range_simplify_spec.
Print Assumptions C15Z.range_simplify_special_cases.
Print Assumptions C15Z.range_bounding_range_spec.
Print Assumptions C15Z.range_as_singleton_spec.
Print Assumptions C15Z.range_from_range_bounds_spec.
Print Assumptions C15Z.range_is_empty_spec.
Print Assumptions C15Z.range_display_denotes.
Print Assumptions C15Z.range_display_injective.
Print Assumptions C15Z.range_display_is_render.
Print Assumptions C15Z.range_iter_union.
Print Assumptions C15Z.range_within_bounds_matches_source.
