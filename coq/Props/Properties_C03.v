(* C03 — The derivation tree of a NoSolution error is a checkable proof.
   For every lawful VersionSet, registry, well-behaved trace and fuel.
   Proved here: every external leaf states a fact that is true of the provider, every derived node's
   terms are entailed by its two causes FOR EVERY ASSIGNMENT (not only for solutions), and the top node
   forbids the root at the requested version.
   The clause about shared ids ("a derived node carries a shared id exactly when it is reachable along more
   than one path, and all occurrences of one id are the same subtree") is proved in Proofs/SolverShared.v and
   stated below: [nosolution_tree_sharing] — the tree is [tree_of] of the store for a shared list that contains
   exactly the derived ids with in-degree >= 2 in the cause DAG reachable from the top id (equivalently: with
   two different incoming edges, the top counting as having one edge from outside; "reachable along more than
   one path" is read as this in-degree, DESIGN.md section 7: a node below a shared node is expanded once and
   not marked), a derived node built for store id j carries [Some j] exactly when j is in that list, and all
   occurrences of one id are the same subtree; [derivation_tree_total]: build_derivation_tree never fails on
   the store of a run (its fuel always suffices). *)
From Coq Require Import List NArith Bool.
From PG Require Import Model.VS Model.Term Model.Solver Model.Registry Proofs.VSLaws Proofs.AssocProofs Proofs.SolverSem
  Proofs.SolverStore Proofs.SolverTree Proofs.SolverShared.
From Coq Require Import ZArith.
From PG Require Import Model.Instances Proofs.SolverExamples.

Section C03.
  Context {VS Vr : Type} (O : VSOps VS Vr) (L : VSLawful O) (veqb : Vr -> Vr -> bool).
  Context (reg : registry (VS := VS) (Vr := Vr)) (r : pkg) (rv : Vr).

  (* [tree_ok]: leaves true ([leaf_true]: the root requirement; a dependency declared with exactly that
     set by every existing version in the stated set; a set in which the provider has no version;
     a version whose dependencies are unavailable), derived nodes entailed by their causes *)
  Theorem nosolution_tree_is_proof_partial :
    reg_wf O L reg -> (forall a b, veqb a b = true -> a = b) ->
    forall fuel tr t st log k,
      WellBehaved O reg tr -> resolve O veqb fuel r rv tr = (ONoSolution t, st, log, k) ->
      tree_ok O reg r rv t /\ top_forbids_root O r rv t.
  Proof. exact (nosolution_tree_is_proof O L veqb reg r rv). Qed.

  (* unfolding of the two predicates, so that the statement can be read here *)
  Theorem tree_ok_derived_inv :
    forall ts sh c1 c2, tree_ok O reg r rv (TDerived ts sh c1 c2) ->
      tree_ok O reg r rv c1 /\ tree_ok O reg r rv c2 /\
      forall a : assignment, violates O a ts ->
        violates O a (tree_terms O c1) \/ violates O a (tree_terms O c2).
  Proof. intros ts sh c1 c2 H. inversion H; subst. auto. Qed.

  Theorem tree_ok_leaf_inv :
    forall e, tree_ok O reg r rv (TExternal e) ->
      match e with
      | XNotRoot p v => p = r /\ v = rv
      | XNoVersions p s => forall v, In v (reg_versions reg p) -> vs_contains O s v = false
      | XFromDep p s q t => declares O reg p s q t
      | XCustom p s _ => exists v, s = vs_singleton O v /\ reg_deps reg p v = None
      end.
  Proof. intros e H. inversion H; subst. assumption. Qed.

  (* the rule of resolution as an entailment between incompatibilities *)
  Theorem prior_cause_entailed :
    forall i j ti tj p pc,
      NoDup (keys ti) -> NoDup (keys tj) -> twf_all O L ti -> twf_all O L tj ->
      prior_cause O i j ti tj p = Good pc ->
      forall a : assignment, violates O a (terms pc) -> violates O a ti \/ violates O a tj.
  Proof. exact (prior_cause_entails O L). Qed.

  Theorem nosolution_tree_sharing :
    reg_wf O L reg -> (forall a b, veqb a b = true -> a = b) ->
    forall fuel tr t st log k,
      WellBehaved O reg tr -> resolve O veqb fuel r rv tr = (ONoSolution t, st, log, k) ->
      exists top shared,
        build_derivation_tree (store st) top = Some t
        /\ tree_of (S (length (store st))) (store st) shared top = Some t
        /\ (forall x, In x shared <-> (exists a b ci, nth_error (store st) x = Some ci /\ ikind ci = KDerived a b)
                                      /\ 2 <= indeg (store st) top x)
        /\ (forall x, In x shared <-> (exists a b ci, nth_error (store st) x = Some ci /\ ikind ci = KDerived a b)
                                      /\ multi_path (store st) top x)
        /\ (forall i ts1 a1 b1 ts2 a2 b2,
              subtree (TDerived ts1 (Some i) a1 b1) t -> subtree (TDerived ts2 (Some i) a2 b2) t ->
              TDerived ts1 (Some i) a1 b1 = TDerived ts2 (Some i) a2 b2)
        /\ (forall u, subtree u t -> exists f j, reachable (store st) top j /\ tree_of f (store st) shared j = Some u)
        /\ (forall j, reachable (store st) top j -> exists f u, subtree u t /\ tree_of f (store st) shared j = Some u)
        /\ (forall f j ts o c1 c2, tree_of f (store st) shared j = Some (TDerived ts o c1 c2) ->
              (o = Some j <-> 2 <= indeg (store st) top j) /\ (o = None <-> ~ 2 <= indeg (store st) top j)
              /\ (forall i, o = Some i -> i = j)).
  Proof.
    intros Hw Hv fuel tr t st log k Hwb E.
    destruct (nosolution_tree_shared O L veqb reg r rv Hw Hv fuel tr t st log k Hwb E)
      as (top & shared & _ & H1 & H2 & H3 & H4 & H5 & H6 & H7 & H8).
    exists top, shared. exact (conj H1 (conj H2 (conj H3 (conj H4 (conj H5 (conj H6 (conj H7 H8))))))).
  Qed.

  (* reading of [indeg] without the enumeration: two different edges into x *)
  Theorem indeg_two_iff_two_edges :
    forall (st : list (@incompat VS Vr)) top x, wf_store st -> (2 <= indeg st top x <-> multi_path st top x).
  Proof. exact (indeg_multi_path (VS := VS) (Vr := Vr)). Qed.

  Theorem derivation_tree_total :
    forall s top, store_just O L reg r rv s -> top < length s -> exists t, build_derivation_tree s top = Some t.
  Proof. exact (store_just_tree_total O L reg r rv). Qed.
End C03.

(* non-vacuity: the tree of a recorded NoSolution run over Range<Z> (a derived node over a NoVersions and a
   dependency leaf) is a proof *)
Example nosolution_tree_nonvacuous :
  exists ts c1 c2 st log, resolve zvs Z.eqb 100 0%N 2%Z tr1 = (ONoSolution (TDerived ts None c1 c2), st, log, 8)
    /\ tree_ok zvs reg1 0%N 2%Z (TDerived ts None c1 c2) /\ top_forbids_root zvs 0%N 2%Z (TDerived ts None c1 c2).
Proof.
  assert (E : exists ts c1 c2 st log, resolve zvs Z.eqb 100 0%N 2%Z tr1 = (ONoSolution (TDerived ts None c1 c2), st, log, 8))
    by (vm_compute; do 5 eexists; reflexivity).
  destruct E as (ts & c1 & c2 & st & log & E). exists ts, c1, c2, st, log. split; [exact E|].
  exact (nosolution_tree_is_proof_partial zvs zlaw Z.eqb reg1 0%N 2%Z reg1_wf zeqb_eq 100 tr1 _ st log 8 tr1_wb E).
Qed.

Print Assumptions nosolution_tree_is_proof_partial.
Print Assumptions tree_ok_derived_inv.
Print Assumptions tree_ok_leaf_inv.
Print Assumptions prior_cause_entailed.
Print Assumptions nosolution_tree_sharing.
Print Assumptions indeg_two_iff_two_edges.
Print Assumptions derivation_tree_total.
