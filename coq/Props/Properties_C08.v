(* C08 — the default text report is a sound, well-formed linear proof.

   Model: Model/Report.v, [report_steps : tree -> report_res] = the list of lines DefaultStringReporter
   builds, each line recorded as the ReportFormatter callback that produced it, the arguments it received and
   the " (n)" suffixes add_line_ref appended.  The step list has no formatter parameter: it is the same through
   report and report_with_formatter by construction (the harness checks that report() is the default formatter
   applied to exactly these steps).

   Hypotheses on the tree (the "well-formed derivation DAG" of the property):
     shared_consistent F t — nodes carrying the same shared id are the same node (same terms, same leaves);
     locally_entailed O adm t — every derived node follows from its two causes on the admissible assignments
       [adm] (all assignments; or, after collapse_no_versions, those that select existing versions only).
   Lines are listed oldest first; "l = l1 ++ s :: l2" reads "s is a line, l1 the lines before it". *)
From Coq Require Import List NArith Bool.
From PG Require Import Model.VS Model.Term Model.Solver Model.Registry Model.Report Proofs.ReportProofs.
Import ListNotations.

Section C08.
  Context {VS Vr : Type} (O : VSOps VS Vr).
  Notation terms := (list (pkg * term VS)).
  Notation dtree := (@tree VS Vr).
  Notation ext := (@external VS Vr).
  Notation step := (@step VS Vr).
  Variable adm : @assignment Vr -> Prop.
  Variable F : nat -> terms * list ext.

  (* the reporter model is total: the explicit fuel of build_recursive never runs out *)
  Theorem report_total : forall t : dtree, exists l, report_steps t = RSteps l.
  Proof. exact report_total_proof. Qed.

  (* numbers are assigned consecutively from 1 in order of appearance, and a line carries at most one *)
  Theorem report_numbers_consecutive :
    forall (t : dtree) l, shared_consistent F t -> report_steps t = RSteps l ->
      nums_of l = seq 1 (length (nums_of l))
      /\ Forall (fun s : step => length (s_nums s) <= 1) l.
  Proof.
    intros t l S H. pose proof (report_ok_proof _ _ _ F t l (consistent_trivial F t S) H) as OK.
    exact (conj (ok_consecutive _ _ _ _ _ OK) (ok_one_number _ _ _ _ _ OK)).
  Qed.

  (* every numeric reference (r) of a line s, cited for the terms tr, points to exactly one line carrying r:
     that line s' is earlier, carries only r, and concludes tr; no other line carries r *)
  Theorem report_refs_wellformed :
    forall (t : dtree) l, shared_consistent F t -> report_steps t = RSteps l ->
      forall l1 s l2 r tr, l = l1 ++ s :: l2 -> In (r, tr) (cited (s_kind s)) ->
        exists la s' lb, l1 = la ++ s' :: lb /\ s_nums s' = [r] /\ s_concl s' = tr
                         /\ forall s'', In s'' (la ++ lb ++ s :: l2) -> ~ In r (s_nums s'').
  Proof.
    intros t l S H. pose proof (report_ok_proof _ _ _ F t l (consistent_trivial F t S) H) as OK.
    exact (ok_refs _ _ _ _ _ OK).
  Qed.

  (* each explaining line: an "And because" line has a preceding line that concludes something, and the line's
     conclusion is entailed by the premises it cites - the incompatibilities of the external facts it names, the
     terms of its (n) references (which are the conclusions of the referenced lines, by report_refs_wellformed)
     and, for an "And because" line, the conclusion of the preceding line *)
  Theorem report_steps_sound :
    forall (t : dtree) l, shared_consistent F t -> locally_entailed O adm t -> report_steps t = RSteps l ->
      forall l1 s l2, l = l1 ++ s :: l2 -> is_explain s = true ->
        (uses_prev (s_kind s) = true -> exists p, hd_error (rev l1) = Some p /\ s_kind p <> KBlank)
        /\ entailed_on O adm (s_concl s) (premises_of O s (hd_error (rev l1))).
  Proof. exact (report_sound_concrete O adm F). Qed.

  (* every external fact of the tree is cited by some line *)
  Theorem report_covers_externals :
    forall (t : dtree) l, shared_consistent F t -> report_steps t = RSteps l ->
      incl (leaves t) (cited_exts l).
  Proof.
    intros t l S H. pose proof (report_ok_proof _ _ _ F t l (consistent_trivial F t S) H) as OK.
    exact (ok_covers _ _ _ _ _ OK).
  Qed.

  (* the last line concludes the terms of the top node (a tree that is one external fact is that fact) *)
  Theorem report_concludes_top :
    forall (t : dtree) l, shared_consistent F t -> report_steps t = RSteps l ->
      exists l0 s, l = l0 ++ [s] /\ s_kind s <> KBlank
        /\ match t with TDerived ts _ _ _ => s_concl s = ts | TExternal e => s_kind s = KOnlyExternal e end.
  Proof.
    intros t l S H. pose proof (report_ok_proof _ _ _ F t l (consistent_trivial F t S) H) as OK.
    exact (ok_last _ _ _ _ _ OK).
  Qed.
End C08.

(* non-vacuity (version sets are irrelevant to the reporter: unit).  [sh] is a shared node.
   - top1 = (sh + e3) combined with sh: the first cause is explained (sh gets number 1 on the way), numbered 2,
     and then the second cause sh is explained AGAIN although it already has a number (the (None, None) arm of
     build_recursive_helper looks the references up before the first recursive call only);
   - top2 = sh combined with (sh + e3): sh is explained and numbered once, then referenced by number. *)
Example c08_example :
  let e1 : @external unit unit := XNoVersions 1%N tt in
  let e2 : @external unit unit := XFromDep 0%N tt 1%N tt in
  let e3 : @external unit unit := XNotRoot 0%N tt in
  let sh := TDerived [(0%N, Pos tt)] (Some 5) (TExternal e1) (TExternal e2) in
  let a := TDerived [(0%N, Neg tt)] None sh (TExternal e3) in
  report_steps (TDerived [] None a sh) =
  RSteps [ {| s_kind := KBothExternal e1 e2; s_concl := [(0%N, Pos tt)]; s_nums := [1] |};
           {| s_kind := KAndExternal e3; s_concl := [(0%N, Neg tt)]; s_nums := [2] |};
           {| s_kind := KBlank; s_concl := []; s_nums := [] |};
           {| s_kind := KBothExternal e1 e2; s_concl := [(0%N, Pos tt)]; s_nums := [] |};
           {| s_kind := KAndRef 2 [(0%N, Neg tt)]; s_concl := []; s_nums := [] |} ]
  /\ report_steps (TDerived [] None sh a) =
  RSteps [ {| s_kind := KBothExternal e1 e2; s_concl := [(0%N, Pos tt)]; s_nums := [1] |};
           {| s_kind := KBlank; s_concl := []; s_nums := [] |};
           {| s_kind := KRefAndExternal 1 [(0%N, Pos tt)] e3; s_concl := [(0%N, Neg tt)]; s_nums := [] |};
           {| s_kind := KAndRef 1 [(0%N, Pos tt)]; s_concl := []; s_nums := [] |} ].
Proof. vm_compute. split; reflexivity. Qed.

Print Assumptions report_total.
Print Assumptions report_numbers_consecutive.
Print Assumptions report_refs_wellformed.
Print Assumptions report_steps_sound.
Print Assumptions report_covers_externals.
Print Assumptions report_concludes_top.

(* Composition with the solver (Proofs/SolverReportEndToEnd.v): the hypotheses of the theorems above ("a derivation tree
   whose derived nodes follow from their causes", consistent shared ids) HOLD of every tree the solver model returns, so
   the default text report of every NoSolution - of a resolve run on a well-behaved trace, and of the generating model
   against any provider serving a registry - is total, numbered consecutively, cites only earlier lines that conclude
   what is cited, every explaining line is entailed by what it cites (for every admissible-assignment predicate), covers
   every external fact, ends with the top node, and the top node forbids the root.  New bridge: C03's "same shared id =>
   same subtree" gives [shared_consistent] ([unique_ids_shared_consistent]). *)
From Coq Require Import List NArith ZArith Bool.
From PG Require Import Model.VS Model.Term Model.Solver Model.Registry Model.Report Proofs.VSLaws Proofs.SolverSem Proofs.SolverTree Proofs.SolverGen Proofs.SolverEndToEnd Proofs.SolverReportEndToEnd.
Import ListNotations.
Section C08_solver.
  Context {VS Vr : Type} (O : VSOps VS Vr) (L : VSLawful O) (veqb : Vr -> Vr -> bool).
  Context (reg : registry (VS := VS) (Vr := Vr)) (r : pkg) (rv : Vr).
  Notation step := (@step VS Vr).
  Notation event := (@event VS Vr).
  Notation tprovider := (@tprovider VS Vr).

  Theorem resolve_nosolution_report_is_sound_proof :
    reg_wf O L reg -> (forall a b, veqb a b = true -> a = b) ->
    forall fuel tr t st log k,
      WellBehaved O reg tr -> resolve O veqb fuel r rv tr = (ONoSolution t, st, log, k) ->
      exists l, report_steps t = RSteps l
        (* numbers consecutive from 1, at most one per line *)
        /\ (nums_of l = seq 1 (length (nums_of l)) /\ Forall (fun s : step => length (s_nums s) <= 1) l)
        (* every (r) reference points to exactly one earlier line, which carries only r and concludes the cited terms *)
        /\ (forall l1 s l2 n tr', l = l1 ++ s :: l2 -> In (n, tr') (cited (s_kind s)) ->
              exists la s' lb, l1 = la ++ s' :: lb /\ s_nums s' = [n] /\ s_concl s' = tr'
                               /\ forall s'', In s'' (la ++ lb ++ s :: l2) -> ~ In n (s_nums s''))
        (* every explaining line is entailed by what it cites, on every set of admissible assignments *)
        /\ (forall (adm : @assignment Vr -> Prop) l1 s l2, l = l1 ++ s :: l2 -> is_explain s = true ->
              (uses_prev (s_kind s) = true -> exists p, hd_error (rev l1) = Some p /\ s_kind p <> KBlank)
              /\ entailed_on O adm (s_concl s) (premises_of O s (hd_error (rev l1))))
        (* every external fact of the tree is cited, and every one of them is true of the registry *)
        /\ incl (leaves t) (cited_exts l)
        (* the last line concludes the top node *)
        /\ (exists l0 s, l = l0 ++ [s] /\ s_kind s <> KBlank
              /\ match t with TDerived ts _ _ _ => s_concl s = ts | TExternal e => s_kind s = KOnlyExternal e end)
        (* the tree is a proof (leaves true of the registry, nodes entailed) whose top node forbids the root *)
        /\ tree_ok O reg r rv t /\ top_forbids_root O r rv t.
  Proof. exact (nosolution_report_is_sound_proof O L veqb reg r rv). Qed.

  Theorem provider_nosolution_report_is_sound_proof :
    reg_wf O L reg ->
    (forall a b, veqb a b = true -> a = b) -> (forall v, veqb v v = true) -> (forall s, vs_eqb O s s = true) ->
    forall (pg : tprovider) fuel res tr t,
      serves O reg pg -> resolve_g O veqb pg fuel r rv = (res, tr) -> fst (fst (fst res)) = ONoSolution t ->
      exists l, report_steps t = RSteps l
        /\ (nums_of l = seq 1 (length (nums_of l)) /\ Forall (fun s : step => length (s_nums s) <= 1) l)
        /\ (forall l1 s l2 n tr', l = l1 ++ s :: l2 -> In (n, tr') (cited (s_kind s)) ->
              exists la s' lb, l1 = la ++ s' :: lb /\ s_nums s' = [n] /\ s_concl s' = tr'
                               /\ forall s'', In s'' (la ++ lb ++ s :: l2) -> ~ In n (s_nums s''))
        /\ (forall (adm : @assignment Vr -> Prop) l1 s l2, l = l1 ++ s :: l2 -> is_explain s = true ->
              (uses_prev (s_kind s) = true -> exists p, hd_error (rev l1) = Some p /\ s_kind p <> KBlank)
              /\ entailed_on O adm (s_concl s) (premises_of O s (hd_error (rev l1))))
        /\ incl (leaves t) (cited_exts l)
        /\ (exists l0 s, l = l0 ++ [s] /\ s_kind s <> KBlank
              /\ match t with TDerived ts _ _ _ => s_concl s = ts | TExternal e => s_kind s = KOnlyExternal e end)
        /\ tree_ok O reg r rv t /\ top_forbids_root O r rv t.
  Proof. exact (resolve_g_nosolution_report_is_sound_proof O L veqb reg r rv). Qed.
End C08_solver.
Print Assumptions resolve_nosolution_report_is_sound_proof.
Print Assumptions provider_nosolution_report_is_sound_proof.
