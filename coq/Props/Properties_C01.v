(* C01 — A returned solution satisfies every dependency of every selected version.

   For every lawful VersionSet, every registry whose dependency sets are well formed, every provider trace
   that agrees with the registry (any prioritisation, any choice among the versions of the offered set that
   the registry has, any iteration order of the dependency maps — the provider as adversarial scheduler),
   every amount of fuel: if the model of resolve returns Ok(sol), then sol

     - contains the root at the requested version,
     - selects only versions the provider offers ([In v (reg_versions reg p)]) whose dependencies are
       available ([reg_deps reg p v = Some ds]),
     - and for every dependency (q, s) of every selected version selects q at a version contained in s —
       a dependency on the own package counts like any other
   ([Solution], Model/Registry.v), and no package is selected twice.

   Proof (Proofs/SolverSound1.v, SolverSound2.v, SolverSound.v, by invariant over the whole control flow of
   the model — unit propagation with its contradicted-cache, conflict resolution, backtracking, merging of
   dependency incompatibilities, the add_version fast path): every dependency incompatibility of which a
   DECIDED package is the dependant is contradicted by the partial solution restricted to the decision level of
   that package; this is established by the scan that follows the decision and is stable under later
   derivations and under every backtrack that keeps the decision.  The queue-coverage theorem of C14
   (Proofs/SolverQueue2.v: at a decision point every undecided positive package is queued) gives that an
   empty queue means there is no undecided package with a positive term. *)
From Coq Require Import List NArith Bool.
From PG Require Import Model.VS Model.Term Model.Solver Model.Registry Proofs.VSLaws Proofs.SolverSem
  Proofs.SolverQueue2 Proofs.SolverSound.
Import ListNotations.

Section C01.
  Context {VS Vr : Type} (O : VSOps VS Vr) (L : VSLawful O) (veqb : Vr -> Vr -> bool).
  Context (reg : registry (VS := VS) (Vr := Vr)) (r : pkg) (rv : Vr).

  Theorem resolve_ok_sound :
    reg_wf O L reg -> (forall a b, veqb a b = true -> a = b) ->
    forall fuel (tr : list (event (VS := VS) (Vr := Vr))) sol st log cnt,
      WellBehaved O reg tr ->
      resolve O veqb fuel r rv tr = (OSolution sol, st, log, cnt) ->
      Solution O reg r rv (fun p => get p sol)
      /\ NoDup (map fst sol)
      /\ (forall p v, In (p, v) sol -> In v (reg_versions reg p)).
  Proof.
    intros Hw Hv fuel tr sol st log cnt Hwb E.
    apply (resolve_ok_sound_full O L veqb reg r rv Hw Hv fuel tr sol st log cnt Hwb E).
    intros k cands q n2 x s Hk Hin.
    exact (resolve_fresh O L veqb fuel r rv tr _ st log cnt k cands q n2 x s
             (wellbehaved_trace_wf O L reg tr Hw Hwb) E Hk Hin).
  Qed.

  (* the statement unfolded, so that it can be read here *)
  Theorem solution_unfold :
    forall a : assignment,
      Solution O reg r rv a <->
      a r = Some rv /\
      forall p v, a p = Some v ->
        In v (reg_versions reg p) /\
        exists ds, reg_deps reg p v = Some ds /\
          forall q s, In (q, s) ds -> exists w, a q = Some w /\ vs_contains O s w = true.
  Proof. intros a. reflexivity. Qed.
End C01.

(* non-vacuity: Proofs/SolverSoundExample.v applies the invariant theorem to a concrete bitset run that returns a
   solution; Proofs/SolverExamples.v has a Range<Z> run with a conflict and a backtrack — used here *)
From Coq Require Import ZArith.
From PG Require Import Model.Instances Proofs.SolverExamples.
Example resolve_ok_sound_nonvacuous :
  Solution zvs reg2 0%N 1%Z (fun p => get p [(0%N, 1%Z); (1%N, 1%Z)]).
Proof.
  destruct run2_is_solution as (st & log & E & _).
  exact (proj1 (resolve_ok_sound zvs zlaw Z.eqb reg2 0%N 1%Z reg2_wf zeqb_eq 100 tr2 _ st log 13 tr2_wb E)).
Qed.

Print Assumptions resolve_ok_sound.
Print Assumptions solution_unfold.
