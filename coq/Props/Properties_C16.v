(* C16 — Range equality, ordering and hashing cohere.  For ALL segment lists (canonical or not),
   over any decidable total order of versions. *)
From Coq Require Import Orders List Bool.
From PG Require Import Model.Range Model.SmallVec Model.Instances Proofs.RangeOrd Proofs.SmallVecProofs Proofs.GenEq.

Module C16 (V : UsualOrderedTypeFull).
  Module Import P := RangeOrdP V.

  Theorem range_cmp_eq_iff : forall a b, range_cmp a b = Eq <-> a = b.
  Proof. exact range_cmp_eq_iff. Qed.

  Theorem range_cmp_antisym : forall a b, range_cmp b a = CompOpp (range_cmp a b).
  Proof. exact range_cmp_antisym. Qed.

  Theorem range_cmp_trans :
    forall a b c, range_cmp a b = Lt -> range_cmp b c = Lt -> range_cmp a c = Lt.
  Proof. exact range_cmp_trans. Qed.

  Theorem range_cmp_total : forall a b, range_cmp a b = Lt \/ a = b \/ range_cmp b a = Lt.
  Proof. exact range_cmp_total. Qed.

  Theorem range_partial_cmp_agrees : forall a b, range_partial_cmp a b = Some (range_cmp a b).
  Proof. reflexivity. Qed.

  (* the derived == on the slice is Leibniz equality, hence coincides with cmp = Equal *)
  Theorem range_eq_iff_cmp : forall a b, range_eqb a b = true <-> range_cmp a b = Eq.
  Proof. intros a b. rewrite range_eqb_spec. symmetry. apply P.range_cmp_eq_iff. Qed.

  (* the two comparison tables are the position orders of the start / end bounds *)
  Theorem range_cmp_bounds_tables :
    forall l r, cmp_bounds_start l r = pos_compare (lo_of l) (lo_of r)
                /\ cmp_bounds_end l r = pos_compare (hi_of l) (hi_of r).
  Proof. intros l r. split; [apply cmp_bounds_start_spec|apply cmp_bounds_end_spec]. Qed.
  Module GE := GenRangeEq V.
  (* tie to the source: the two 9-arm tables regenerated from src/range.rs on this run *)
  Theorem range_cmp_tables_match_source :
    (forall l r, GE.G.gen_cmp_bounds_start l r = GE.M.cmp_bounds_start l r)
    /\ (forall l r, GE.G.gen_cmp_bounds_end l r = GE.M.cmp_bounds_end l r).
  Proof. exact GE.range_cmp_tables_match_source. Qed.
End C16.

Module C16Z := C16 ZV.

(* Eq and Hash of the 4-variant SmallVec are functions of [as_slice] only *)
Theorem smallvec_hash_respects_eq :
  forall (T : Type) (teqb : T -> T -> bool) (H : Type) (hash_elt : T -> H),
    (forall x y, teqb x y = true -> hash_elt x = hash_elt y) ->
    forall x y : smallvec T, sv_eqb teqb x y = true -> sv_hash_stream hash_elt x = sv_hash_stream hash_elt y.
Proof. exact sv_hash_respects_eq. Qed.

Theorem smallvec_eq_repr_independent :
  forall (T : Type) (teqb : T -> T -> bool) (x y : smallvec T),
    sv_as_slice x = sv_as_slice y -> (forall a, teqb a a = true) -> sv_eqb teqb x y = true.
Proof. exact sv_eqb_slice. Qed.

Theorem smallvec_push_pop_slice :
  forall (T : Type) (x : smallvec T) (t : T),
    sv_as_slice (sv_push x t) = sv_as_slice x ++ [t]
    /\ (forall y o, sv_pop x = (y, o) ->
          match o with None => sv_as_slice x = [] /\ sv_as_slice y = []
                     | Some t' => sv_as_slice x = sv_as_slice y ++ [t'] end).
Proof. exact sv_push_pop_slice. Qed.

Example c16_example :
  RZ.range_cmp [(Incl 1, Excl 2)]%Z [(Excl 1, Incl 2)]%Z = Lt
  /\ RZ.range_cmp [(Unb, Incl 2)]%Z [(Unb, Excl 2)]%Z = Gt
  /\ RZ.range_cmp [] [(Unb, Unb)] = Lt
  /\ sv_as_slice (fst (sv_pop (sv_push (sv_push (sv_push SvEmpty 1%nat) 2%nat) 3%nat))) = [1; 2]%nat.
Proof. vm_compute. repeat split. Qed.

Print Assumptions C16Z.range_cmp_eq_iff.
Print Assumptions C16Z.range_cmp_antisym.
Print Assumptions C16Z.range_cmp_trans.
Print Assumptions C16Z.range_cmp_total.
Print Assumptions C16Z.range_partial_cmp_agrees.
Print Assumptions C16Z.range_eq_iff_cmp.
Print Assumptions C16Z.range_cmp_bounds_tables.
Print Assumptions C16Z.range_cmp_tables_match_source.
Print Assumptions smallvec_hash_respects_eq.
Print Assumptions smallvec_eq_repr_independent.
Print Assumptions smallvec_push_pop_slice.
