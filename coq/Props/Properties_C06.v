(* C06 — Every constraint the solver records is true of all solutions.
   For every lawful VersionSet, every registry with well-formed dependency sets, every provider trace
   that agrees with the registry (any prioritisation, any choice of versions, any iteration order of
   the dependency maps), every amount of fuel: every entry of the incompatibility store — external,
   merged, or learned (including intermediate prior causes that are never indexed, and in runs that
   end in Ok, in an error, or are cut short) — is valid. *)
From Coq Require Import List NArith Bool.
From PG Require Import Model.VS Model.Term Model.Solver Model.Registry Proofs.VSLaws Proofs.SolverSem
  Proofs.SolverStore Proofs.GenEqSolver Gen.IncompatCtors Gen.IncompatMethods.
From Coq Require Import ZArith.
From PG Require Import Model.Instances Proofs.SolverExamples.

Section C06.
  Context {VS Vr : Type} (O : VSOps VS Vr) (L : VSLawful O) (veqb : Vr -> Vr -> bool).
  Context (reg : registry (VS := VS) (Vr := Vr)) (r : pkg) (rv : Vr).

  Theorem store_valid_invariant :
    reg_wf O L reg -> (forall a b, veqb a b = true -> a = b) ->
    forall fuel tr o st log k,
      WellBehaved O reg tr -> resolve O veqb fuel r rv tr = (o, st, log, k) ->
      forall id i, nth_error (store st) id = Some i -> Valid O reg r rv (terms i).
  Proof.
    intros Hw Hv fuel tr o st log k Hwb E.
    exact (proj1 (resolve_store_valid O L veqb reg r rv Hw Hv fuel tr o st log k Hwb E)).
  Qed.

  (* the rule of resolution, and the external constructors, on their own *)
  Theorem prior_cause_valid :
    forall i j ti tj p pc,
      inc_ok O L reg r rv ti -> inc_ok O L reg r rv tj ->
      prior_cause O i j ti tj p = Good pc -> inc_ok O L reg r rv (terms pc).
  Proof. exact (prior_cause_ok O L reg r rv). Qed.

  Theorem from_dependency_valid :
    forall p vset q s, wf O L vset -> wf O L s -> declares O reg p vset q s ->
      inc_ok O L reg r rv (terms (from_dependency O p vset (q, s))).
  Proof. exact (from_dependency_ok O L reg r rv). Qed.

  Theorem merge_dependents_justified :
    forall self other mi,
      ext_ok O L reg r rv self -> ext_ok O L reg r rv other ->
      merge_dependents O self other = Good (Some mi) -> ext_ok O L reg r rv mi.
  Proof. exact (merge_dependents_ok O L reg r rv). Qed.

  (* translator tie: the external constructors regenerated from the CURRENT text of
     src/internal/incompatibility.rs are the constructors of the model these theorems are about *)
  Theorem incompat_constructors_match_source :
    (forall p v, gen_not_root O p v = not_root O p v)
    /\ (forall p v m, gen_custom_version O p v m = custom_version O p v m)
    /\ (forall p vs d, gen_from_dependency O p vs d = from_dependency O p vs d).
  Proof. exact (incompat_ctors_match_source O). Qed.

  (* translator tie, continued: no_versions, is_terminal, merge_dependents (merging of dependency incompatibilities)
     and prior_cause (the rule of resolution), regenerated statement by statement from the CURRENT text of
     src/internal/incompatibility.rs, are the functions of the model *)
  Theorem incompat_methods_match_source :
    (forall p (t : term VS), gen_no_versions (Vr := Vr) p t = no_versions p t)
    /\ (forall i r v, gen_is_terminal O i r v = is_terminal O i r v)
    /\ (forall a b, gen_merge_dependents O a b = merge_dependents O a b)
    /\ (forall i j ti tj p, gen_prior_cause O i j ti tj p = prior_cause O i j ti tj p).
  Proof. exact (GenEqSolver.incompat_methods_match_source O). Qed.
End C06.

(* non-vacuity: two recorded runs over Range<Z> (one NoSolution with a learned incompatibility, one Ok after a
   conflict and a backtrack) meet all hypotheses; their stores have 4 resp. 3 entries, all valid *)
Example store_valid_nonvacuous :
  (exists o st log, resolve zvs Z.eqb 100 0%N 2%Z tr1 = (o, st, log, 8) /\ length (store st) = 4
     /\ forall id i, nth_error (store st) id = Some i -> Valid zvs reg1 0%N 2%Z (terms i))
  /\ (exists o st log, resolve zvs Z.eqb 100 0%N 1%Z tr2 = (o, st, log, 13) /\ length (store st) = 3
     /\ forall id i, nth_error (store st) id = Some i -> Valid zvs reg2 0%N 1%Z (terms i)).
Proof.
  split.
  - assert (E : exists o st log, resolve zvs Z.eqb 100 0%N 2%Z tr1 = (o, st, log, 8) /\ length (store st) = 4)
      by (vm_compute; do 3 eexists; split; reflexivity).
    destruct E as (o & st & log & E & Hl). exists o, st, log. split; [exact E|split; [exact Hl|]].
    exact (store_valid_invariant zvs zlaw Z.eqb reg1 0%N 2%Z reg1_wf zeqb_eq 100 tr1 o st log 8 tr1_wb E).
  - assert (E : exists o st log, resolve zvs Z.eqb 100 0%N 1%Z tr2 = (o, st, log, 13) /\ length (store st) = 3)
      by (vm_compute; do 3 eexists; split; reflexivity).
    destruct E as (o & st & log & E & Hl). exists o, st, log. split; [exact E|split; [exact Hl|]].
    exact (store_valid_invariant zvs zlaw Z.eqb reg2 0%N 1%Z reg2_wf zeqb_eq 100 tr2 o st log 13 tr2_wb E).
Qed.

Print Assumptions store_valid_invariant.
Print Assumptions prior_cause_valid.
Print Assumptions from_dependency_valid.
Print Assumptions merge_dependents_justified.
Print Assumptions incompat_constructors_match_source.
Print Assumptions incompat_methods_match_source.
