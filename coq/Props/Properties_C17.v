(* C17 — VersionSet provided methods are correct and the solver is generic over them.
   The second half ("resolve gives C01-C05 with such an implementation") is not a separate theorem:
   every solver theorem (Properties_C01 ... C14) is stated for an arbitrary [VSOps] with [VSLawful],
   and [vs_defaults_lawful] below shows that an implementation of the required methods only is one. *)
From Coq Require Import List Bool NArith.
From PG Require Import Model.VS Proofs.VSLaws Proofs.BitsetLawful Proofs.GenEqVS Gen.VSDefaults.

Section C17.
  Context {VS Vr : Type} (R : VSReq VS Vr) (L : ReqLawful R).

  Theorem vs_full_default_correct :
    rl_wf R L (full_default R) /\ forall u, rl_mem R L (full_default R) u = true.
  Proof. exact (full_default_spec R L). Qed.

  Theorem vs_union_default_correct :
    forall a b, rl_wf R L a -> rl_wf R L b ->
      rl_wf R L (union_default R a b)
      /\ forall u, rl_mem R L (union_default R a b) u = rl_mem R L a u || rl_mem R L b u.
  Proof. exact (union_default_spec R L). Qed.

  Theorem vs_is_disjoint_default_correct :
    forall a b, rl_wf R L a -> rl_wf R L b ->
      (is_disjoint_default R a b = true <-> forall u, rl_mem R L a u && rl_mem R L b u = false).
  Proof. exact (is_disjoint_default_spec R L). Qed.

  Theorem vs_subset_of_default_correct :
    forall a b, rl_wf R L a -> rl_wf R L b ->
      (subset_of_default R a b = true <-> forall u, rl_mem R L a u = true -> rl_mem R L b u = true).
  Proof. exact (subset_of_default_spec R L). Qed.

  (* hence: required methods lawful ==> the whole trait (with the inherited methods) is lawful *)
  Definition vs_defaults_lawful : VSLawful (with_defaults R) := defaults_lawful R L.
End C17.

(* tie to the source: the four default bodies regenerated from src/version_set.rs on this run *)
Theorem vs_defaults_match_source :
  forall (VS Vr : Type) (R : VSReq VS Vr),
    gen_full_default R = full_default R
    /\ (forall a b, gen_union_default R a b = union_default R a b)
    /\ (forall a b, gen_is_disjoint_default R a b = is_disjoint_default R a b)
    /\ (forall a b, gen_subset_of_default R a b = subset_of_default R a b).
Proof. intros VS Vr R. exact (GenEqVS.vs_defaults_match_source R). Qed.

(* non-vacuity: the bitset over 8 versions implements only the required methods, lawfully *)
Definition vs_bitset_req_lawful : ReqLawful bitset_req := bitset_req_lawful.

Example c17_example :
  vs_full bitset_vs = 255%N /\ vs_union bitset_vs 5%N 3%N = 7%N
  /\ vs_is_disjoint bitset_vs 5%N 2%N = true /\ vs_subset_of bitset_vs 5%N 7%N = true
  /\ vs_subset_of bitset_vs 5%N 6%N = false.
Proof. vm_compute. repeat split. Qed.

Print Assumptions vs_full_default_correct.
Print Assumptions vs_union_default_correct.
Print Assumptions vs_is_disjoint_default_correct.
Print Assumptions vs_subset_of_default_correct.
Print Assumptions vs_defaults_lawful.
Print Assumptions vs_bitset_req_lawful.
Print Assumptions vs_defaults_match_source.
