(* C02 — NoSolution is reported only when no solution exists.
   Same quantification as C06: any lawful VersionSet, registry, well-behaved trace, fuel. *)
From Coq Require Import List NArith Bool.
From PG Require Import Model.VS Model.Term Model.Solver Model.Registry Proofs.VSLaws Proofs.SolverSem
  Proofs.SolverStore.
From Coq Require Import ZArith.
From PG Require Import Model.Instances Proofs.SolverExamples.

Section C02.
  Context {VS Vr : Type} (O : VSOps VS Vr) (L : VSLawful O) (veqb : Vr -> Vr -> bool).
  Context (reg : registry (VS := VS) (Vr := Vr)) (r : pkg) (rv : Vr).

  Theorem resolve_nosolution_sound :
    reg_wf O L reg -> (forall a b, veqb a b = true -> a = b) ->
    forall fuel tr t st log k,
      WellBehaved O reg tr -> resolve O veqb fuel r rv tr = (ONoSolution t, st, log, k) ->
      forall a, ~ Solution O reg r rv a.
  Proof.
    intros Hw Hv fuel tr t st log k Hwb E.
    exact (proj2 (resolve_store_valid O L veqb reg r rv Hw Hv fuel tr _ st log k Hwb E) t eq_refl).
  Qed.

  (* the terminal test: a valid incompatibility that is empty, or a single term on the root containing
     the requested version, refutes every solution *)
  Theorem terminal_refutes :
    forall i : incompat, Valid O reg r rv (terms i) -> is_terminal O i r rv = true ->
      forall a, ~ Solution O reg r rv a.
  Proof. exact (terminal_no_solution O reg r rv). Qed.

  (* whether a solution is found does not depend on the strategy: a run that answers NoSolution
     excludes that any other run (any strategy) of the same registry returns a genuine solution *)
  Corollary nosolution_strategy_independent :
    reg_wf O L reg -> (forall a b, veqb a b = true -> a = b) ->
    forall fuel tr t st log k,
      WellBehaved O reg tr -> resolve O veqb fuel r rv tr = (ONoSolution t, st, log, k) ->
      forall sol : assignment, Solution O reg r rv sol -> False.
  Proof. intros Hw Hv fuel tr t st log k Hwb E sol. exact (resolve_nosolution_sound Hw Hv fuel tr t st log k Hwb E sol). Qed.
End C02.

(* non-vacuity: a recorded run over Range<Z> meets all hypotheses and ends in NoSolution (Proofs/SolverExamples.v) *)
Example nosolution_sound_nonvacuous :
  (exists t st log, resolve zvs Z.eqb 100 0%N 2%Z tr1 = (ONoSolution t, st, log, 8))
  /\ forall a, ~ Solution zvs reg1 0%N 2%Z a.
Proof.
  split; [exact run1_is_nosolution|]. destruct run1_is_nosolution as (t & st & log & E).
  exact (resolve_nosolution_sound zvs zlaw Z.eqb reg1 0%N 2%Z reg1_wf zeqb_eq 100 tr1 t st log 8 tr1_wb E).
Qed.

Print Assumptions resolve_nosolution_sound.
Print Assumptions terminal_refutes.
Print Assumptions nosolution_strategy_independent.
