(* C02 — NoSolution is reported only when no solution exists.
   Same quantification as C06: any lawful VersionSet, registry, well-behaved trace, fuel. *)
From Coq Require Import List NArith Bool.
From PG Require Import Model.VS Model.Term Model.Solver Model.Registry Proofs.VSLaws Proofs.SolverSem
  Proofs.SolverStore.
From Coq Require Import ZArith.
From PG Require Import Model.Instances Proofs.SolverExamples.

Section C02.
  Context {VS Vr : Type} (O : VSOps VS Vr) (L : VSLawful O) (veqb : Vr -> Vr -> bool).
  Context (reg : registry (VS := VS) (Vr := Vr)) (r : pkg) (rv : Vr).

  Theorem resolve_nosolution_sound :
    reg_wf O L reg -> (forall a b, veqb a b = true -> a = b) ->
    forall fuel tr t st log k,
      WellBehaved O reg tr -> resolve O veqb fuel r rv tr = (ONoSolution t, st, log, k) ->
      forall a, ~ Solution O reg r rv a.
  Proof.
    intros Hw Hv fuel tr t st log k Hwb E.
    exact (proj2 (resolve_store_valid O L veqb reg r rv Hw Hv fuel tr _ st log k Hwb E) t eq_refl).
  Qed.

  (* the terminal test: a valid incompatibility that is empty, or a single term on the root containing
     the requested version, refutes every solution *)
  Theorem terminal_refutes :
    forall i : incompat, Valid O reg r rv (terms i) -> is_terminal O i r rv = true ->
      forall a, ~ Solution O reg r rv a.
  Proof. exact (terminal_no_solution O reg r rv). Qed.

  (* whether a solution is found does not depend on the strategy: a run that answers NoSolution
     excludes that any other run (any strategy) of the same registry returns a genuine solution *)
  Corollary nosolution_strategy_independent :
    reg_wf O L reg -> (forall a b, veqb a b = true -> a = b) ->
    forall fuel tr t st log k,
      WellBehaved O reg tr -> resolve O veqb fuel r rv tr = (ONoSolution t, st, log, k) ->
      forall sol : assignment, Solution O reg r rv sol -> False.
  Proof. intros Hw Hv fuel tr t st log k Hwb E sol. exact (resolve_nosolution_sound Hw Hv fuel tr t st log k Hwb E sol). Qed.
End C02.

(* The converse, from termination (C05) and panic-freedom: on a finite registry, with a lawful VersionSet with atomic
   singletons, a provider that answers inside the offered set and returns no error, and a recorded trace that is a
   complete run of the model (not OMismatch/OPickNotMax) with enough fuel: if a solution exists, resolve returns
   Ok - "whether a solution is found never depends on the strategy, only on the registry", in both directions. *)
From PG Require Import Proofs.SolverNoPanic1 Proofs.SolverNoPanic Proofs.SolverTerm1 Proofs.SolverTerm.
Section C02_complete.
  Context {VS Vr : Type} (O : VSOps VS Vr) (L : VSLawful O) (veqb : Vr -> Vr -> bool).
  Context (reg : registry (VS := VS) (Vr := Vr)) (r : pkg) (rv : Vr).
  Variable R : Ranked O L.
  Variable pkgs : list pkg.

  Theorem resolve_finds_a_solution_when_one_exists :
    singleton_atomic O L -> reg_wf O L reg -> (forall a b, veqb a b = true -> a = b) ->
    In r pkgs -> (forall p v ds q s, reg_deps reg p v = Some ds -> In (q, s) ds -> In q pkgs) ->
    (forall p v ds q s, reg_deps reg p v = Some ds -> In (q, s) ds -> alg R s) ->
    (forall p v, In v (reg_versions reg p) -> alg R (vs_singleton O v)) -> alg R (vs_singleton O rv) ->
    forall fuel (tr : list (event (VS := VS) (Vr := Vr))) o st log cnt,
      WellBehaved O reg tr -> choose_contained O tr -> no_error_answers tr ->
      Fuel1 O L R pkgs <= fuel ->
      resolve O veqb fuel r rv tr = (o, st, log, cnt) ->
      (forall k w, o <> OMismatch k w) -> (forall k p, o <> OPickNotMax k p) ->
      (exists a, Solution O reg r rv a) -> exists sol, o = OSolution sol.
  Proof.
    intros Ha Hw Hv H1 H2 H3 H4 H5 fuel tr o st log cnt Hwb Hc He Hf E Hm Hp (a & Hsol).
    destruct (resolve_terminates O L veqb reg r rv Ha Hw Hv R pkgs H1 H2 H3 H4 H5 fuel tr o st log cnt Hwb Hc He Hf E)
      as [[Hs|[(t & ->)|[(k & w & ->)|(k & p & ->)]]] _].
    - exact Hs.
    - exfalso. exact (resolve_nosolution_sound O L veqb reg r rv Hw Hv fuel tr t st log cnt Hwb E a Hsol).
    - exfalso. exact (Hm k w eq_refl).
    - exfalso. exact (Hp k p eq_refl).
  Qed.
End C02_complete.

(* non-vacuity: a recorded run over Range<Z> meets all hypotheses and ends in NoSolution (Proofs/SolverExamples.v) *)
Example nosolution_sound_nonvacuous :
  (exists t st log, resolve zvs Z.eqb 100 0%N 2%Z tr1 = (ONoSolution t, st, log, 8))
  /\ forall a, ~ Solution zvs reg1 0%N 2%Z a.
Proof.
  split; [exact run1_is_nosolution|]. destruct run1_is_nosolution as (t & st & log & E).
  exact (resolve_nosolution_sound zvs zlaw Z.eqb reg1 0%N 2%Z reg1_wf zeqb_eq 100 tr1 t st log 8 tr1_wb E).
Qed.

Print Assumptions resolve_nosolution_sound.
Print Assumptions terminal_refutes.
Print Assumptions nosolution_strategy_independent.
Print Assumptions resolve_finds_a_solution_when_one_exists.
