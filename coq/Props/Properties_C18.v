(* C18 — OfflineDependencyProvider: last-write-wins store, newest version first.
   For every history of add_dependencies calls (any version-set type with a membership test). *)
From Coq Require Import List NArith ZArith Bool Sorted.
From PG Require Import Model.Offline Proofs.OfflineProofs.
Import ListNotations.

Section C18.
  Context {VS : Type} (contains : VS -> Z -> bool).

  (* get_dependencies returns the dependencies of the last call for (p, v) — as a map in which later
     duplicate entries of one call win — and Unavailable for pairs never added *)
  Theorem offline_last_write_wins :
    forall (ops : list (@op VS)) p v,
      get_dependencies (run ops) p v =
      match last_add ops p v with Some l => Available (collect l) | None => Unavailable end.
  Proof. exact last_write_wins. Qed.

  Theorem offline_collect_last_wins :
    forall (l : list (pkg * VS)) q, dm_get q (collect l) = last_for q l /\ NoDupKeys (collect l).
  Proof. intros l q. exact (conj (collect_get l q) (collect_nodup contains l)). Qed.

  (* packages() and versions(p) enumerate exactly what was added, versions strictly ascending *)
  Theorem offline_enumerates :
    forall ops : list (@op VS),
      (forall p, In p (packages (run ops)) <-> exists v l, In (p, v, l) ops)
      /\ (forall p, versions (run ops) p = None <-> ~ exists v l, In (p, v, l) ops)
      /\ (forall p vs, versions (run ops) p = Some vs ->
            StronglySorted Z.lt vs /\ forall v, In v vs <-> exists l, In (p, v, l) ops).
  Proof. exact enumerates. Qed.

  (* choose_version returns the greatest added version inside the set, None if there is none *)
  Theorem offline_choose_max :
    forall (ops : list (@op VS)) p s,
      match choose_version contains (run ops) p s with
      | Some v => (exists l, In (p, v, l) ops) /\ contains s v = true
                  /\ forall w l, In (p, w, l) ops -> contains s w = true -> (w <= v)%Z
      | None => forall w l, In (p, w, l) ops -> contains s w = false
      end.
  Proof. exact (choose_max contains). Qed.

  (* prioritize = Reverse(number of matching versions): fewer matching versions rank strictly higher *)
  Theorem offline_prioritize_antitone :
    forall (ops : list (@op VS)) p s q t,
      (prioritize_count contains (run ops) p s < prioritize_count contains (run ops) q t)%nat ->
      priority_compare (prioritize_count contains (run ops) p s) (prioritize_count contains (run ops) q t) = Gt.
  Proof. exact (prioritize_antitone contains). Qed.

  Theorem offline_prioritize_counts :
    forall (ops : list (@op VS)) p s,
      prioritize_count contains (run ops) p s =
      match versions (run ops) p with Some vs => length (filter (contains s) vs) | None => 0%nat end.
  Proof. exact (prioritize_counts contains). Qed.
End C18.

Example c18_example :
  let ops := [(0%N, 2%Z, [(1%N, true); (1%N, false)]); (0%N, 1%Z, []); (0%N, 2%Z, [(2%N, true)])] in
  get_dependencies (run ops) 0%N 2%Z = Available [(2%N, true)]
  /\ versions (run ops) 0%N = Some [1%Z; 2%Z]
  /\ get_dependencies (run ops) 0%N 3%Z = @Unavailable bool
  /\ choose_version (fun (s : bool) v => s) (run ops) 0%N true = Some 2%Z.
Proof. vm_compute. repeat split. Qed.

Print Assumptions offline_last_write_wins.
Print Assumptions offline_collect_last_wins.
Print Assumptions offline_enumerates.
Print Assumptions offline_choose_max.
Print Assumptions offline_prioritize_antitone.
Print Assumptions offline_prioritize_counts.
