(* C13 — Provider errors and misbehaviour abort resolution faithfully (model side).
   What is proved about the model of resolve, for any VersionSet operations, any trace, any fuel:
   (1) [resolve_trace_prefix]: once the outcome is determined the rest of the recorded trace is
       irrelevant — the model makes no further call, and the whole result (outcome, state, decision
       log) is a function of the consumed prefix of the provider's answers; hence a faulty run and the
       fault-free run coincide up to the fault;
   (2) [resolve_error_outcome_explained]: ErrorInShouldCancel / ErrorChoosingPackageVersion /
       ErrorRetrievingDependencies(p, v) / Failure("incompatible version") are only returned because
       the trace contains an error answer of that very callback (with that package and version), resp.
       a choose_version answer outside the offered set.
   (3) [error_answer_is_last_call]: an error answer of should_cancel / choose_version / get_dependencies is
       the LAST call the run makes (nothing follows it among the consumed calls), and
   (4) [error_answer_gives_matching_error]: the outcome of a run that received such an answer is the matching
       error, carrying for get_dependencies the queried package and version.
   (5) [fault_injection_theorem] (two runs): if the fault-free run made the call that the event e answers, the run
       that receives instead a faulty answer e' to that same call (an error, or for choose_version a version
       outside the offered set) makes exactly the same calls with the same answers up to that point, then that
       call, and stops with the matching outcome - ErrorInShouldCancel / ErrorChoosingPackageVersion /
       ErrorRetrievingDependencies(p, v) / Failure - whatever would have followed;
   (6) [out_of_set_answer_is_failure]: a consumed choose_version answer outside the offered set is the last call
       and the outcome is Failure (never a solution).
   All clauses of the property are thus theorems about the model.  The tie to the Rust code is the fault
   enumeration of the harness (a fault at every index of every base trace). *)
From Coq Require Import List NArith Bool.
From PG Require Import Model.VS Model.Term Model.Solver Proofs.SolverTrace.
From PG Require Import Proofs.SolverFaults Proofs.SolverInject.
Import ListNotations.

Section C13.
  Context {VS Vr : Type} (O : VSOps VS Vr) (veqb : Vr -> Vr -> bool).

  Theorem resolve_trace_prefix :
    forall fuel r v (tr tr2 : list (event (VS := VS) (Vr := Vr))),
      is_mismatch (fst (fst (fst (resolve O veqb fuel r v tr)))) = false ->
      resolve O veqb fuel r v (tr ++ tr2) = resolve O veqb fuel r v tr.
  Proof. exact (resolve_prefix O veqb). Qed.

  Theorem resolve_error_outcome_explained :
    (forall a b, vs_eqb O a b = true -> a = b) -> (forall a b, veqb a b = true -> a = b) ->
    forall fuel r v (tr : list (event (VS := VS) (Vr := Vr))),
      match fst (fst (fst (resolve O veqb fuel r v tr))) with
      | OErrCancel => In (EvCancel false) tr
      | OErrChoose => exists p s, In (EvChoose p s CErr) tr
      | OErrDeps p v => In (EvDeps p v DErr) tr
      | OFailure FIncompatibleVersion =>
          exists p s v, In (EvChoose p s (CSome v)) tr /\ vs_contains O s v = false
      | _ => True
      end.
  Proof. intros H1 H2 fuel r v tr. exact (resolve_outcome_explained O veqb H1 H2 fuel r v tr). Qed.

  Theorem error_answer_is_last_call :
    forall fuel r v (tr : list (event (VS := VS) (Vr := Vr))) o st log k,
      resolve O veqb fuel r v tr = (o, st, log, k) ->
      forall pre e rest, firstn k tr = pre ++ e :: rest -> is_err e = true -> rest = [].
  Proof. exact (resolve_error_answer_last O veqb). Qed.

  Theorem error_answer_gives_matching_error :
    (forall a b, veqb a b = true -> a = b) ->
    forall fuel r v (tr : list (event (VS := VS) (Vr := Vr))) o st log k,
      resolve O veqb fuel r v tr = (o, st, log, k) ->
      forall e, In e (firstn k tr) -> is_err e = true -> err_outcome e = Some o.
  Proof. exact (resolve_error_answer_outcome O veqb). Qed.

  (* reading of the two definitions *)
  Theorem is_err_iff : forall e : event (VS := VS) (Vr := Vr),
      is_err e = true <-> e = EvCancel false \/ (exists p s, e = EvChoose p s CErr) \/ (exists p v, e = EvDeps p v DErr).
  Proof.
    intros [[|]| |p s [v| |]|p v [d|m|]]; cbn; split; intros H; try discriminate; try reflexivity; eauto;
      destruct H as [H|[(? & ? & H)|(? & ? & H)]]; discriminate.
  Qed.

  Theorem fault_injection_theorem :
    (forall a b, veqb a b = true -> a = b) -> (forall a b, vs_eqb O a b = true -> a = b) ->
    forall fuel r v (pre : list (event (VS := VS) (Vr := Vr))) e rest e' rest',
      fault_of O e e' ->
      length pre < snd (resolve O veqb fuel r v (pre ++ e :: rest)) ->
      (exists st' log',
         resolve O veqb fuel r v (pre ++ e' :: rest') = (fault_outcome e', st', log', S (length pre)))
      /\ firstn (S (length pre)) (pre ++ e' :: rest') = pre ++ [e'].
  Proof.
    intros Hv Hs fuel r v pre e rest e' rest' Hf Hlt. split.
    - exact (fault_injection O veqb Hv Hs fuel r v pre e rest e' rest' Hf Hlt).
    - exact (proj1 (proj2 (fault_injection_same_calls O veqb Hv Hs fuel r v pre e rest e' rest' Hf Hlt))).
  Qed.

  Theorem out_of_set_answer_is_failure :
    (forall a b, veqb a b = true -> a = b) -> (forall a b, vs_eqb O a b = true -> a = b) ->
    forall fuel r v (tr : list (event (VS := VS) (Vr := Vr))) o st log cnt i p s w,
      resolve O veqb fuel r v tr = (o, st, log, cnt) ->
      i < cnt -> nth_error tr i = Some (EvChoose p s (CSome w)) -> vs_contains O s w = false ->
      o = OFailure FIncompatibleVersion /\ cnt = S i.
  Proof. exact (out_of_set_is_failure O veqb). Qed.

  (* reading of [fault_of e e']: e' is a faulty answer to the very call that e answers *)
  Theorem fault_of_unfold : forall e e' : event (VS := VS) (Vr := Vr),
    fault_of O e e' <->
    match e, e' with
    | EvCancel _, EvCancel false => True
    | EvChoose p s _, EvChoose p' s' CErr => p = p' /\ s = s'
    | EvChoose p s _, EvChoose p' s' (CSome w) => p = p' /\ s = s' /\ vs_contains O s w = false
    | EvDeps p v _, EvDeps p' v' DErr => p = p' /\ v = v'
    | _, _ => False
    end.
  Proof. intros e e'. reflexivity. Qed.
End C13.

Print Assumptions resolve_trace_prefix.
Print Assumptions resolve_error_outcome_explained.
Print Assumptions error_answer_is_last_call.
Print Assumptions error_answer_gives_matching_error.
Print Assumptions is_err_iff.
Print Assumptions fault_injection_theorem.
Print Assumptions out_of_set_answer_is_failure.
Print Assumptions fault_of_unfold.

(* C13 end to end (Proofs/SolverFaultsEndToEnd.v): for the GENERATING model against ANY typed provider (it may
   misbehave): an error answer is the last call of the run and the outcome is the matching error variant; an error outcome
   is explained by an error answer that is the last call; a version outside the offered set is refused with Failure and
   no call follows it. *)
From Coq Require Import List NArith ZArith Bool Lia PeanoNat.
From PG Require Import Model.VS Model.Term Model.Heap Model.Solver Proofs.SolverTrace Proofs.SolverDet
  Proofs.SolverGen Proofs.SolverFaults Proofs.SolverInject Proofs.SolverEndToEnd.
From PG Require Import Proofs.SolverFaultsEndToEnd.
Import ListNotations.
Local Open Scope nat_scope.
Section C13_end_to_end.
  Context {VS Vr : Type} (O : VSOps VS Vr) (veqb : Vr -> Vr -> bool).
  Notation event := (@event VS Vr).
  Notation outcome := (@outcome VS Vr).
  Notation result := (@result VS Vr).
  Notation tprovider := (@tprovider VS Vr).

  Theorem provider_error_aborts_the_model_faithfully :
    (forall v, veqb v v = true) -> (forall s, vs_eqb O s s = true) -> (forall a b, veqb a b = true -> a = b) ->
    forall (pg : tprovider) fuel r v res tr, resolve_g O veqb pg fuel r v = (res, tr) ->
      (* an error answer is the LAST call of the run and the outcome is the matching error variant *)
      (forall pre e rest, tr = pre ++ e :: rest -> is_err e = true -> rest = [] /\ err_outcome e = Some (fst (fst (fst res))))
      (* conversely an error outcome is explained by an error answer of the provider, which is the last call *)
      /\ (fst (fst (fst res)) = OErrCancel -> exists pre, tr = pre ++ [EvCancel false])
      /\ (fst (fst (fst res)) = OErrChoose -> exists pre p s, tr = pre ++ [EvChoose p s CErr])
      /\ (forall p w, fst (fst (fst res)) = OErrDeps p w -> exists pre, tr = pre ++ [EvDeps p w DErr])
      (* a version outside the offered set is refused: Failure, and no call is made after that answer *)
      /\ (forall pre p s w rest, tr = pre ++ EvChoose p s (CSome w) :: rest -> vs_contains O s w = false ->
            rest = [] /\ fst (fst (fst res)) = OFailure FIncompatibleVersion).
  Proof. exact (resolve_g_error_aborts_faithfully O veqb). Qed.
End C13_end_to_end.
Print Assumptions provider_error_aborts_the_model_faithfully.
