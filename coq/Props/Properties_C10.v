(* C10 — Range operations are exact set operations with canonical results.
   Statements only, for ANY decidable total order of versions (functor parameter V); [Print
   Assumptions] is run on the instance at Z.  See DESIGN.md 4.1 for [pos], [den], [canonical]. *)
From Coq Require Import Orders List Bool.
From PG Require Import Model.Range Model.Instances Proofs.RangeCtors Proofs.GenEq.

Module C10 (V : UsualOrderedTypeFull).
  Module Import P := RangeCtorsP V.

  (* every range reachable through the public API is in canonical form (sorted, non-empty,
     non-touching segments), so the debug assertion [check_invariants] never fires *)
  Theorem range_built_canonical : forall r, Built r -> canonical r.
  Proof. exact built_canonical. Qed.

  Theorem range_check_invariants : forall r, check_invariants r = true <-> canonical r.
  Proof. exact check_invariants_spec. Qed.

  Theorem range_ops_canonical :
    forall a b, canonical a -> canonical b ->
      canonical (union a b) /\ canonical (intersection a b) /\ canonical (complement a).
  Proof.
    intros a b Ha Hb. split; [exact (union_canonical a b Ha Hb)|].
    split; [exact (intersection_canonical a b Ha Hb)|exact (proj2 (complement_spec a NegInf Ha))].
  Qed.

  (* membership obeys the set laws at every position of the dense completion ... *)
  Theorem range_ops_pointwise :
    forall a b x, canonical a -> canonical b ->
      (den (intersection a b) x <-> den a x /\ den b x)
      /\ (den (union a b) x <-> den a x \/ den b x)
      /\ (den (complement a) x <-> ~ den a x).
  Proof.
    intros a b x Ha Hb. split; [exact (intersection_den a b x Ha Hb)|].
    split; [exact (union_den a b x Ha Hb)|exact (proj1 (complement_spec a x Ha))].
  Qed.

  (* ... and in particular for versions, through [contains] *)
  Theorem range_contains_spec : forall r v, canonical r -> (contains r v = true <-> den r (P v At)).
  Proof. exact contains_spec. Qed.

  Theorem range_ops_contains :
    forall a b v, canonical a -> canonical b ->
      contains (intersection a b) v = contains a v && contains b v
      /\ contains (union a b) v = contains a v || contains b v
      /\ contains (complement a) v = negb (contains a v).
  Proof. exact ops_contains. Qed.

  Theorem range_ctor_contains :
    forall v w,
      contains empty w = false
      /\ contains full w = true
      /\ (contains (singleton v) w = true <-> w = v)
      /\ (contains (higher_than v) w = true <-> V.le v w)
      /\ (contains (strictly_higher_than v) w = true <-> V.lt v w)
      /\ (contains (lower_than v) w = true <-> V.le w v)
      /\ (contains (strictly_lower_than v) w = true <-> V.lt w v).
  Proof. exact ctor_contains. Qed.

  Theorem range_between_contains :
    forall v1 v2 w, V.lt v1 v2 -> (contains (between v1 v2) w = true <-> V.le v1 w /\ V.lt w v2).
  Proof. exact between_contains. Qed.

  (* is_disjoint and subset_of agree with the pointwise definitions *)
  Theorem range_is_disjoint_spec :
    forall a b, canonical a -> canonical b ->
      (is_disjoint a b = true <-> forall x, ~ (den a x /\ den b x)).
  Proof. exact is_disjoint_spec. Qed.

  Theorem range_subset_of_spec :
    forall a b, canonical a -> canonical b ->
      (subset_of a b = true <-> forall x, den a x -> den b x).
  Proof. exact subset_of_spec. Qed.

  (* two ranges are equal exactly when they contain the same points of the dense order *)
  Theorem range_ext_eq :
    forall a b, canonical a -> canonical b -> (forall x, den a x <-> den b x) -> a = b.
  Proof. exact range_ext_eq. Qed.

  Theorem range_eqb_eq : forall a b, range_eqb a b = true <-> a = b.
  Proof. exact range_eqb_spec. Qed.

  (* the two equalities the solver's term reasoning relies on *)
  Theorem range_subset_iff_inter_eq :
    forall a b, canonical a -> canonical b -> (subset_of a b = true <-> intersection a b = a).
  Proof. exact subset_iff_inter_eq. Qed.

  Theorem range_disjoint_iff_inter_empty :
    forall a b, canonical a -> canonical b -> (is_disjoint a b = true <-> intersection a b = []).
  Proof. exact disjoint_iff_inter_empty. Qed.

  (* tie to the source: the tables regenerated from src/range.rs by tools/translate.py on this run are
     the tables of the model *)
  Module GE := GenRangeEq V.
  Theorem range_tables_match_source :
    (forall s e, GE.G.gen_valid_segment s e = GE.M.valid_segment s e)
    /\ (forall e s, GE.G.gen_end_before_start_with_gap e s = GE.M.end_before_start_with_gap e s)
    /\ (forall l r, GE.G.gen_left_start_is_smaller l r = GE.M.left_start_is_smaller l r)
    /\ (forall l r, GE.G.gen_left_end_is_smaller l r = GE.M.left_end_is_smaller l r)
    /\ (forall a s, GE.G.gen_acc_end a s = GE.M.acc_end a s)
    /\ (forall l r, GE.G.gen_inter_start l r = GE.M.inter_start l r).
  Proof. exact GE.range_tables_match_source. Qed.
End C10.

Module C10Z := C10 ZV.

(* non-vacuity: a range with coinciding bounds built through the public API *)
Example c10_example :
  let a := RZ.union (RZ.between 10%Z 20%Z) (RZ.singleton 20%Z) in
  let b := RZ.complement (RZ.strictly_higher_than 20%Z) in
  a = [(Incl 10, Incl 20)]%Z /\ RZ.intersection a b = a /\ RZ.subset_of a b = true
  /\ RZ.union (RZ.strictly_lower_than 20%Z) (RZ.strictly_higher_than 20%Z) = [(Unb, Excl 20); (Excl 20, Unb)]%Z
  /\ RZ.check_invariants (RZ.union a b) = true.
Proof. vm_compute. repeat split. Qed.

Print Assumptions C10Z.range_built_canonical.
Print Assumptions C10Z.range_check_invariants.
Print Assumptions C10Z.range_ops_canonical.
Print Assumptions C10Z.range_ops_pointwise.
Print Assumptions C10Z.range_contains_spec.
Print Assumptions C10Z.range_ops_contains.
Print Assumptions C10Z.range_ctor_contains.
Print Assumptions C10Z.range_between_contains.
Print Assumptions C10Z.range_is_disjoint_spec.
Print Assumptions C10Z.range_subset_of_spec.
Print Assumptions C10Z.range_ext_eq.
Print Assumptions C10Z.range_eqb_eq.
Print Assumptions C10Z.range_subset_iff_inter_eq.
Print Assumptions C10Z.range_disjoint_iff_inter_empty.
Print Assumptions C10Z.range_tables_match_source.

