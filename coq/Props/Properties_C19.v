(* C19 — serialization round trips (serde feature), stated over the JSON model of Model/Json.v.
   Statements only; every proof is [exact lemma].  See DESIGN.md section 6 (C19).

   Scope of these theorems: they are about the *modelled encoding* (the shape serde_json gives to Bound, tuples,
   Option, sequences, maps and strings, and the glue in src/range.rs, src/internal/small_vec.rs, src/version.rs,
   src/solver.rs).  serde, serde_json, ron and the derive macros are not modelled; that the implementation
   produces and accepts exactly this encoding is established by the correspondence check (domain "serde"). *)
From Coq Require Import List NArith ZArith Bool.
From PG Require Import Model.Text Model.SemVer Model.Range Model.Offline Model.Instances Model.Json.
From PG Require Import Proofs.JsonProofs.
Import ListNotations.
Open Scope N_scope.

(* Range<V> -> JSON -> Range<V> is the identity on EVERY segment list (canonical or not), for any version
   payload codec that round-trips.  (DESIGN.md also lists [version_json_not_a_bound] as a hypothesis; it is
   not needed here: the new-format variant B(Bound, Bound) is tried first and succeeds.) *)
Theorem range_json_roundtrip :
  forall (V : Type) (enc_v : V -> json) (dec_v : json -> option V),
    (forall v, dec_v (enc_v v) = Some v) ->
    forall r : list (bound V * bound V), decode_range dec_v (encode_range enc_v r) = Some r.
Proof. exact @decode_encode_range_total. Qed.

(* the same when the payload codec round-trips only on a subset P of the versions (u32 numbers, semantic
   versions with u32 components): all ranges whose bound values are in P *)
Theorem range_json_roundtrip_on :
  forall (V : Type) (enc_v : V -> json) (dec_v : json -> option V) (P : V -> Prop),
    (forall v, P v -> dec_v (enc_v v) = Some v) ->
    forall r, range_all P r -> decode_range dec_v (encode_range enc_v r) = Some r.
Proof. exact @decode_encode_range. Qed.

(* the two executable instances: Range<u32> (numbers) and Range<SemanticVersion> (strings) *)
Theorem range_u32_json_roundtrip :
  forall r : RZ.range, range_all Z_u32 r -> decode_range_u32 (encode_range_u32 r) = Some r.
Proof. exact decode_encode_range_u32. Qed.

Theorem range_semver_json_roundtrip :
  forall r, range_all SV_u32 r -> decode_range_sv (encode_range_sv r) = Some r.
Proof. exact decode_encode_range_sv. Qed.

(* SemanticVersion -> "major.minor.patch" -> SemanticVersion, components <= u32::MAX (uses C20's print/parse) *)
Theorem semver_json_roundtrip :
  forall v, sv_in_u32 v = true -> enc_sv v = JStr (sv_display v) /\ dec_sv (enc_sv v) = Some v.
Proof. intros v H. exact (conj eq_refl (dec_enc_sv v H)). Qed.

(* The legacy interval encoding.  Under the hypothesis that a version's JSON is neither a valid Bound
   encoding nor null, [a, b] decodes to Included(a)..Excluded(b) and [a, null] to Included(a)..Unbounded;
   also for whole lists of legacy intervals. *)
Theorem legacy_decode :
  forall (V : Type) (enc_v : V -> json) (dec_v : json -> option V) (P : V -> Prop),
    (forall v, P v -> dec_v (enc_v v) = Some v) -> version_json_not_a_bound enc_v dec_v ->
    (forall a b, P a -> P b -> decode_range dec_v (JArr [JArr [enc_v a; enc_v b]]) = Some [(Incl a, Excl b)])
    /\ (forall a, P a -> decode_range dec_v (JArr [JArr [enc_v a; JNull]]) = Some [(Incl a, Unb)])
    /\ (forall l, Forall (fun ab => P (fst ab) /\ match snd ab with Some b => P b | None => True end) l ->
          decode_range dec_v (encode_legacy enc_v l) = Some (map legacy_segment l)).
Proof. exact @legacy_shapes. Qed.

(* the hypothesis holds for the two payloads in use: JSON numbers, and "a.b.c" strings (never "Unbounded") *)
Theorem legacy_hypothesis_instances :
  version_json_not_a_bound enc_num dec_u32 /\ version_json_not_a_bound enc_num dec_num
  /\ version_json_not_a_bound enc_sv dec_sv.
Proof. exact (conj (num_not_a_bound dec_u32) (conj (num_not_a_bound dec_num) (sv_not_a_bound dec_sv))). Qed.

(* ... and the decoded ranges are the sets  start <= v < end  /  start <= v  (u32 versions) *)
Theorem legacy_decode_u32_sets :
  forall a b v, Z_u32 a -> Z_u32 b ->
    (exists r, decode_range_u32 (JArr [JArr [JNum a; JNum b]]) = Some r
               /\ RZ.contains r v = ((a <=? v) && (v <? b))%Z)
    /\ (exists r, decode_range_u32 (JArr [JArr [JNum a; JNull]]) = Some r /\ RZ.contains r v = (a <=? v)%Z).
Proof. exact legacy_u32_sets. Qed.

(* integer map keys: written as canonical decimals, and only canonical decimals <= u32::MAX are read back *)
Theorem json_integer_keys :
  (forall n, n <= u32_max -> N_of_key (key_of_N n) = Some n)
  /\ (forall z, Z_u32 z -> Z_of_key (key_of_Z z) = Some z)
  /\ (forall s n, N_of_key s = Some n -> s = key_of_N n /\ n <= u32_max).
Proof. exact key_roundtrip_and_canonical. Qed.

(* OfflineDependencyProvider -> JSON -> provider returns the very same association lists (hence the same
   packages, versions and dependencies, and equal as maps), for every provider whose packages and versions
   are u32 and whose version sets round-trip.  Duplicate keys inside one JSON object are outside the model. *)
Theorem provider_json_roundtrip :
  forall (VS : Type) (enc_vs : VS -> json) (dec_vs : json -> option VS) (PVS : VS -> Prop),
    (forall s, PVS s -> dec_vs (enc_vs s) = Some s) ->
    forall p, provider_ok PVS p -> decode_provider dec_vs (encode_provider enc_vs p) = Some p.
Proof. exact @decode_encode_provider. Qed.

(* in particular for every provider reachable through add_dependencies *)
Theorem provider_json_roundtrip_reachable :
  forall (VS : Type) (enc_vs : VS -> json) (dec_vs : json -> option VS) (PVS : VS -> Prop),
    (forall s, PVS s -> dec_vs (enc_vs s) = Some s) ->
    forall ops : list (@op VS), Forall (op_ok PVS) ops ->
      decode_provider dec_vs (encode_provider enc_vs (run ops)) = Some (run ops).
Proof. exact @decode_encode_run. Qed.

Theorem provider_u32_json_roundtrip :
  forall ops : list (@op RZ.range), Forall (op_ok range_u32) ops ->
    decode_provider_u32 (encode_provider_u32 (run ops)) = Some (run ops).
Proof. exact (decode_encode_run encode_range_u32 decode_range_u32 range_u32 decode_encode_range_u32). Qed.

(* Anything computed from the provider value — every query of C18, and a resolver that is a function of the
   provider value — gives the same answer after the round trip.  NOTE: this is a statement about the model,
   where a provider IS its association lists.  In the implementation the round trip preserves the maps but
   not the iteration order of the FxHashMaps, and pubgrub::resolve depends on that order; see the level_note
   of C19 and the correspondence cases prov-resolve / prov-resolve-identical. *)
Theorem resolve_after_roundtrip :
  forall (VS A : Type) (enc_vs : VS -> json) (dec_vs : json -> option VS) (PVS : VS -> Prop),
    (forall s, PVS s -> dec_vs (enc_vs s) = Some s) ->
    forall (f : @provider VS -> A) p p',
      provider_ok PVS p -> decode_provider dec_vs (encode_provider enc_vs p) = Some p' -> f p' = f p.
Proof. exact @after_roundtrip. Qed.

(* non-vacuity: concrete encodings, the legacy forms, serde's {"Unbounded": null}, and rejections *)
Example c19_example :
  encode_range_u32 [(Unb, Incl 0%Z); (Incl 1%Z, Excl 3%Z)]
    = JArr [JArr [JStr (txt "Unbounded"); JObj [(txt "Included", JNum 0)]];
            JArr [JObj [(txt "Included", JNum 1)]; JObj [(txt "Excluded", JNum 3)]]]
  /\ decode_range_u32 (JArr [JArr [JNum 1; JNum 3]; JArr [JNum 5; JNull]])
       = Some [(Incl 1%Z, Excl 3%Z); (Incl 5%Z, Unb)]
  /\ decode_range_u32 (JArr [JArr [JObj [(txt "Unbounded", JNull)]; JStr (txt "Unbounded")]]) = Some [(Unb, Unb)]
  /\ decode_range_u32 (JArr [JArr [JNum 1; JNum 3; JNum 5]]) = None
  /\ decode_range_u32 (JArr [JArr [JNum 1; JStr (txt "Unbounded")]]) = None
  /\ decode_range_u32 (JArr [JArr [JNum 4294967296; JNull]]) = None
  /\ decode_range_u32 (JArr [JArr [JNum 3; JNum 1]]) = Some [(Incl 3%Z, Excl 1%Z)]
  /\ enc_sv (SV 1 2 4294967295) = JStr (txt "1.2.4294967295")
  /\ decode_range_sv (JArr [JArr [JStr (txt "1.2.3"); JStr (txt "2.0.0")]; JArr [JStr (txt "3.0.0"); JNull]])
       = Some [(Incl (SV 1 2 3), Excl (SV 2 0 0)); (Incl (SV 3 0 0), Unb)]
  /\ N_of_key (txt "10") = Some 10 /\ N_of_key (txt "01") = None /\ N_of_key (txt "+1") = None
  /\ N_of_key (txt "4294967296") = None
  /\ encode_provider_u32 (run [(10, 2%Z, [(1, [(Unb, Unb)])]); (10, 1%Z, [])])
       = JObj [(txt "10", JObj [(txt "1", JObj []); (txt "2", JObj [(txt "1", JArr [JArr [JStr (txt "Unbounded"); JStr (txt "Unbounded")]])])])].
Proof. vm_compute. repeat split. Qed.

Print Assumptions range_json_roundtrip.
Print Assumptions range_json_roundtrip_on.
Print Assumptions range_u32_json_roundtrip.
Print Assumptions range_semver_json_roundtrip.
Print Assumptions semver_json_roundtrip.
Print Assumptions legacy_decode.
Print Assumptions legacy_hypothesis_instances.
Print Assumptions legacy_decode_u32_sets.
Print Assumptions json_integer_keys.
Print Assumptions provider_json_roundtrip.
Print Assumptions provider_json_roundtrip_reachable.
Print Assumptions provider_u32_json_roundtrip.
Print Assumptions resolve_after_roundtrip.
