
(** val negb : bool -> bool **)

let negb = function
| true -> false
| false -> true

type nat =
| O
| S of nat

(** val option_map : ('a1 -> 'a2) -> 'a1 option -> 'a2 option **)

let option_map f = function
| Some a -> Some (f a)
| None -> None

type ('a, 'b) sum =
| Inl of 'a
| Inr of 'b

(** val fst : ('a1 * 'a2) -> 'a1 **)

let fst = function
| (x, _) -> x

(** val snd : ('a1 * 'a2) -> 'a2 **)

let snd = function
| (_, y) -> y

(** val length : 'a1 list -> nat **)

let rec length = function
| [] -> O
| _ :: l' -> S (length l')

(** val app : 'a1 list -> 'a1 list -> 'a1 list **)

let rec app l m =
  match l with
  | [] -> m
  | a :: l1 -> a :: (app l1 m)

type comparison =
| Eq
| Lt
| Gt

(** val compOpp : comparison -> comparison **)

let compOpp = function
| Eq -> Eq
| Lt -> Gt
| Gt -> Lt

type uint =
| Nil
| D0 of uint
| D1 of uint
| D2 of uint
| D3 of uint
| D4 of uint
| D5 of uint
| D6 of uint
| D7 of uint
| D8 of uint
| D9 of uint

(** val revapp : uint -> uint -> uint **)

let rec revapp d d' =
  match d with
  | Nil -> d'
  | D0 d0 -> revapp d0 (D0 d')
  | D1 d0 -> revapp d0 (D1 d')
  | D2 d0 -> revapp d0 (D2 d')
  | D3 d0 -> revapp d0 (D3 d')
  | D4 d0 -> revapp d0 (D4 d')
  | D5 d0 -> revapp d0 (D5 d')
  | D6 d0 -> revapp d0 (D6 d')
  | D7 d0 -> revapp d0 (D7 d')
  | D8 d0 -> revapp d0 (D8 d')
  | D9 d0 -> revapp d0 (D9 d')

(** val rev : uint -> uint **)

let rev d =
  revapp d Nil

module Little =
 struct
  (** val double : uint -> uint **)

  let rec double = function
  | Nil -> Nil
  | D0 d0 -> D0 (double d0)
  | D1 d0 -> D2 (double d0)
  | D2 d0 -> D4 (double d0)
  | D3 d0 -> D6 (double d0)
  | D4 d0 -> D8 (double d0)
  | D5 d0 -> D0 (succ_double d0)
  | D6 d0 -> D2 (succ_double d0)
  | D7 d0 -> D4 (succ_double d0)
  | D8 d0 -> D6 (succ_double d0)
  | D9 d0 -> D8 (succ_double d0)

  (** val succ_double : uint -> uint **)

  and succ_double = function
  | Nil -> D1 Nil
  | D0 d0 -> D1 (double d0)
  | D1 d0 -> D3 (double d0)
  | D2 d0 -> D5 (double d0)
  | D3 d0 -> D7 (double d0)
  | D4 d0 -> D9 (double d0)
  | D5 d0 -> D1 (succ_double d0)
  | D6 d0 -> D3 (succ_double d0)
  | D7 d0 -> D5 (succ_double d0)
  | D8 d0 -> D7 (succ_double d0)
  | D9 d0 -> D9 (succ_double d0)
 end

type positive =
| XI of positive
| XO of positive
| XH

type n =
| N0
| Npos of positive

type z =
| Z0
| Zpos of positive
| Zneg of positive

module type UsualOrderedTypeFull =
 sig
  type t

  val compare : t -> t -> comparison

  val eq_dec : t -> t -> bool
 end

module Nat =
 struct
  (** val compare : nat -> nat -> comparison **)

  let rec compare n0 m =
    match n0 with
    | O -> (match m with
            | O -> Eq
            | S _ -> Lt)
    | S n' -> (match m with
               | O -> Gt
               | S m' -> compare n' m')
 end

module Pos =
 struct
  type mask =
  | IsNul
  | IsPos of positive
  | IsNeg
 end

module Coq_Pos =
 struct
  (** val succ : positive -> positive **)

  let rec succ = function
  | XI p -> XO (succ p)
  | XO p -> XI p
  | XH -> XO XH

  (** val add : positive -> positive -> positive **)

  let rec add x y =
    match x with
    | XI p ->
      (match y with
       | XI q -> XO (add_carry p q)
       | XO q -> XI (add p q)
       | XH -> XO (succ p))
    | XO p ->
      (match y with
       | XI q -> XI (add p q)
       | XO q -> XO (add p q)
       | XH -> XI p)
    | XH -> (match y with
             | XI q -> XO (succ q)
             | XO q -> XI q
             | XH -> XO XH)

  (** val add_carry : positive -> positive -> positive **)

  and add_carry x y =
    match x with
    | XI p ->
      (match y with
       | XI q -> XI (add_carry p q)
       | XO q -> XO (add_carry p q)
       | XH -> XI (succ p))
    | XO p ->
      (match y with
       | XI q -> XO (add_carry p q)
       | XO q -> XI (add p q)
       | XH -> XO (succ p))
    | XH ->
      (match y with
       | XI q -> XI (succ q)
       | XO q -> XO (succ q)
       | XH -> XI XH)

  (** val pred_double : positive -> positive **)

  let rec pred_double = function
  | XI p -> XI (XO p)
  | XO p -> XI (pred_double p)
  | XH -> XH

  (** val pred_N : positive -> n **)

  let pred_N = function
  | XI p -> Npos (XO p)
  | XO p -> Npos (pred_double p)
  | XH -> N0

  type mask = Pos.mask =
  | IsNul
  | IsPos of positive
  | IsNeg

  (** val succ_double_mask : mask -> mask **)

  let succ_double_mask = function
  | IsNul -> IsPos XH
  | IsPos p -> IsPos (XI p)
  | IsNeg -> IsNeg

  (** val double_mask : mask -> mask **)

  let double_mask = function
  | IsPos p -> IsPos (XO p)
  | x0 -> x0

  (** val double_pred_mask : positive -> mask **)

  let double_pred_mask = function
  | XI p -> IsPos (XO (XO p))
  | XO p -> IsPos (XO (pred_double p))
  | XH -> IsNul

  (** val sub_mask : positive -> positive -> mask **)

  let rec sub_mask x y =
    match x with
    | XI p ->
      (match y with
       | XI q -> double_mask (sub_mask p q)
       | XO q -> succ_double_mask (sub_mask p q)
       | XH -> IsPos (XO p))
    | XO p ->
      (match y with
       | XI q -> succ_double_mask (sub_mask_carry p q)
       | XO q -> double_mask (sub_mask p q)
       | XH -> IsPos (pred_double p))
    | XH -> (match y with
             | XH -> IsNul
             | _ -> IsNeg)

  (** val sub_mask_carry : positive -> positive -> mask **)

  and sub_mask_carry x y =
    match x with
    | XI p ->
      (match y with
       | XI q -> succ_double_mask (sub_mask_carry p q)
       | XO q -> double_mask (sub_mask p q)
       | XH -> IsPos (pred_double p))
    | XO p ->
      (match y with
       | XI q -> double_mask (sub_mask_carry p q)
       | XO q -> succ_double_mask (sub_mask_carry p q)
       | XH -> double_pred_mask p)
    | XH -> IsNeg

  (** val mul : positive -> positive -> positive **)

  let rec mul x y =
    match x with
    | XI p -> add y (XO (mul p y))
    | XO p -> XO (mul p y)
    | XH -> y

  (** val iter : ('a1 -> 'a1) -> 'a1 -> positive -> 'a1 **)

  let rec iter f x = function
  | XI n' -> f (iter f (iter f x n') n')
  | XO n' -> iter f (iter f x n') n'
  | XH -> f x

  (** val compare_cont : comparison -> positive -> positive -> comparison **)

  let rec compare_cont r x y =
    match x with
    | XI p ->
      (match y with
       | XI q -> compare_cont r p q
       | XO q -> compare_cont Gt p q
       | XH -> Gt)
    | XO p ->
      (match y with
       | XI q -> compare_cont Lt p q
       | XO q -> compare_cont r p q
       | XH -> Gt)
    | XH -> (match y with
             | XH -> r
             | _ -> Lt)

  (** val compare : positive -> positive -> comparison **)

  let compare =
    compare_cont Eq

  (** val eqb : positive -> positive -> bool **)

  let rec eqb p q =
    match p with
    | XI p0 -> (match q with
                | XI q0 -> eqb p0 q0
                | _ -> false)
    | XO p0 -> (match q with
                | XO q0 -> eqb p0 q0
                | _ -> false)
    | XH -> (match q with
             | XH -> true
             | _ -> false)

  (** val coq_Nsucc_double : n -> n **)

  let coq_Nsucc_double = function
  | N0 -> Npos XH
  | Npos p -> Npos (XI p)

  (** val coq_Ndouble : n -> n **)

  let coq_Ndouble = function
  | N0 -> N0
  | Npos p -> Npos (XO p)

  (** val coq_land : positive -> positive -> n **)

  let rec coq_land p q =
    match p with
    | XI p0 ->
      (match q with
       | XI q0 -> coq_Nsucc_double (coq_land p0 q0)
       | XO q0 -> coq_Ndouble (coq_land p0 q0)
       | XH -> Npos XH)
    | XO p0 ->
      (match q with
       | XI q0 -> coq_Ndouble (coq_land p0 q0)
       | XO q0 -> coq_Ndouble (coq_land p0 q0)
       | XH -> N0)
    | XH -> (match q with
             | XO _ -> N0
             | _ -> Npos XH)

  (** val coq_lxor : positive -> positive -> n **)

  let rec coq_lxor p q =
    match p with
    | XI p0 ->
      (match q with
       | XI q0 -> coq_Ndouble (coq_lxor p0 q0)
       | XO q0 -> coq_Nsucc_double (coq_lxor p0 q0)
       | XH -> Npos (XO p0))
    | XO p0 ->
      (match q with
       | XI q0 -> coq_Nsucc_double (coq_lxor p0 q0)
       | XO q0 -> coq_Ndouble (coq_lxor p0 q0)
       | XH -> Npos (XI p0))
    | XH ->
      (match q with
       | XI q0 -> Npos (XO q0)
       | XO q0 -> Npos (XI q0)
       | XH -> N0)

  (** val shiftl : positive -> n -> positive **)

  let shiftl p = function
  | N0 -> p
  | Npos n1 -> iter (fun x -> XO x) p n1

  (** val testbit : positive -> n -> bool **)

  let rec testbit p n0 =
    match p with
    | XI p0 -> (match n0 with
                | N0 -> true
                | Npos n1 -> testbit p0 (pred_N n1))
    | XO p0 -> (match n0 with
                | N0 -> false
                | Npos n1 -> testbit p0 (pred_N n1))
    | XH -> (match n0 with
             | N0 -> true
             | Npos _ -> false)

  (** val to_little_uint : positive -> uint **)

  let rec to_little_uint = function
  | XI p0 -> Little.succ_double (to_little_uint p0)
  | XO p0 -> Little.double (to_little_uint p0)
  | XH -> D1 Nil

  (** val to_uint : positive -> uint **)

  let to_uint p =
    rev (to_little_uint p)

  (** val eq_dec : positive -> positive -> bool **)

  let rec eq_dec p x0 =
    match p with
    | XI p0 -> (match x0 with
                | XI p1 -> eq_dec p0 p1
                | _ -> false)
    | XO p0 -> (match x0 with
                | XO p1 -> eq_dec p0 p1
                | _ -> false)
    | XH -> (match x0 with
             | XH -> true
             | _ -> false)
 end

module N =
 struct
  (** val add : n -> n -> n **)

  let add n0 m =
    match n0 with
    | N0 -> m
    | Npos p -> (match m with
                 | N0 -> n0
                 | Npos q -> Npos (Coq_Pos.add p q))

  (** val sub : n -> n -> n **)

  let sub n0 m =
    match n0 with
    | N0 -> N0
    | Npos n' ->
      (match m with
       | N0 -> n0
       | Npos m' ->
         (match Coq_Pos.sub_mask n' m' with
          | Coq_Pos.IsPos p -> Npos p
          | _ -> N0))

  (** val mul : n -> n -> n **)

  let mul n0 m =
    match n0 with
    | N0 -> N0
    | Npos p -> (match m with
                 | N0 -> N0
                 | Npos q -> Npos (Coq_Pos.mul p q))

  (** val compare : n -> n -> comparison **)

  let compare n0 m =
    match n0 with
    | N0 -> (match m with
             | N0 -> Eq
             | Npos _ -> Lt)
    | Npos n' -> (match m with
                  | N0 -> Gt
                  | Npos m' -> Coq_Pos.compare n' m')

  (** val eqb : n -> n -> bool **)

  let eqb n0 m =
    match n0 with
    | N0 -> (match m with
             | N0 -> true
             | Npos _ -> false)
    | Npos p -> (match m with
                 | N0 -> false
                 | Npos q -> Coq_Pos.eqb p q)

  (** val leb : n -> n -> bool **)

  let leb x y =
    match compare x y with
    | Gt -> false
    | _ -> true

  (** val ltb : n -> n -> bool **)

  let ltb x y =
    match compare x y with
    | Lt -> true
    | _ -> false

  (** val coq_land : n -> n -> n **)

  let coq_land n0 m =
    match n0 with
    | N0 -> N0
    | Npos p -> (match m with
                 | N0 -> N0
                 | Npos q -> Coq_Pos.coq_land p q)

  (** val coq_lxor : n -> n -> n **)

  let coq_lxor n0 m =
    match n0 with
    | N0 -> m
    | Npos p -> (match m with
                 | N0 -> n0
                 | Npos q -> Coq_Pos.coq_lxor p q)

  (** val shiftl : n -> n -> n **)

  let shiftl a n0 =
    match a with
    | N0 -> N0
    | Npos a0 -> Npos (Coq_Pos.shiftl a0 n0)

  (** val testbit : n -> n -> bool **)

  let testbit a n0 =
    match a with
    | N0 -> false
    | Npos p -> Coq_Pos.testbit p n0

  (** val to_uint : n -> uint **)

  let to_uint = function
  | N0 -> D0 Nil
  | Npos p -> Coq_Pos.to_uint p
 end

type ascii =
| Ascii of bool * bool * bool * bool * bool * bool * bool * bool

(** val n_of_digits : bool list -> n **)

let rec n_of_digits = function
| [] -> N0
| b :: l' ->
  N.add (if b then Npos XH else N0) (N.mul (Npos (XO XH)) (n_of_digits l'))

(** val n_of_ascii : ascii -> n **)

let n_of_ascii = function
| Ascii (a0, a1, a2, a3, a4, a5, a6, a7) ->
  n_of_digits
    (a0 :: (a1 :: (a2 :: (a3 :: (a4 :: (a5 :: (a6 :: (a7 :: []))))))))

(** val hd_error : 'a1 list -> 'a1 option **)

let hd_error = function
| [] -> None
| x :: _ -> Some x

(** val nth : nat -> 'a1 list -> 'a1 -> 'a1 **)

let rec nth n0 l default =
  match n0 with
  | O -> (match l with
          | [] -> default
          | x :: _ -> x)
  | S m -> (match l with
            | [] -> default
            | _ :: t0 -> nth m t0 default)

(** val last : 'a1 list -> 'a1 -> 'a1 **)

let rec last l d =
  match l with
  | [] -> d
  | a :: l0 -> (match l0 with
                | [] -> a
                | _ :: _ -> last l0 d)

(** val rev0 : 'a1 list -> 'a1 list **)

let rec rev0 = function
| [] -> []
| x :: l' -> app (rev0 l') (x :: [])

(** val map : ('a1 -> 'a2) -> 'a1 list -> 'a2 list **)

let rec map f = function
| [] -> []
| a :: t0 -> (f a) :: (map f t0)

(** val fold_left : ('a1 -> 'a2 -> 'a1) -> 'a2 list -> 'a1 -> 'a1 **)

let rec fold_left f l a0 =
  match l with
  | [] -> a0
  | b :: t0 -> fold_left f t0 (f a0 b)

(** val forallb : ('a1 -> bool) -> 'a1 list -> bool **)

let rec forallb f = function
| [] -> true
| a :: l0 -> (&&) (f a) (forallb f l0)

(** val filter : ('a1 -> bool) -> 'a1 list -> 'a1 list **)

let rec filter f = function
| [] -> []
| x :: l0 -> if f x then x :: (filter f l0) else filter f l0

module Z =
 struct
  (** val compare : z -> z -> comparison **)

  let compare x y =
    match x with
    | Z0 -> (match y with
             | Z0 -> Eq
             | Zpos _ -> Lt
             | Zneg _ -> Gt)
    | Zpos x' -> (match y with
                  | Zpos y' -> Coq_Pos.compare x' y'
                  | _ -> Gt)
    | Zneg x' ->
      (match y with
       | Zneg y' -> compOpp (Coq_Pos.compare x' y')
       | _ -> Lt)

  (** val eqb : z -> z -> bool **)

  let eqb x y =
    match x with
    | Z0 -> (match y with
             | Z0 -> true
             | _ -> false)
    | Zpos p -> (match y with
                 | Zpos q -> Coq_Pos.eqb p q
                 | _ -> false)
    | Zneg p -> (match y with
                 | Zneg q -> Coq_Pos.eqb p q
                 | _ -> false)

  (** val eq_dec : z -> z -> bool **)

  let eq_dec x y =
    match x with
    | Z0 -> (match y with
             | Z0 -> true
             | _ -> false)
    | Zpos p -> (match y with
                 | Zpos p0 -> Coq_Pos.eq_dec p p0
                 | _ -> false)
    | Zneg p -> (match y with
                 | Zneg p0 -> Coq_Pos.eq_dec p p0
                 | _ -> false)
 end

type string =
| EmptyString
| String of ascii * string

type text = n list

(** val bytes_of_string : string -> text **)

let rec bytes_of_string = function
| EmptyString -> []
| String (c, r) -> (n_of_ascii c) :: (bytes_of_string r)

(** val txt : string -> text **)

let txt =
  bytes_of_string

(** val uint_bytes : uint -> text **)

let rec uint_bytes = function
| Nil -> []
| D0 r -> (Npos (XO (XO (XO (XO (XI XH)))))) :: (uint_bytes r)
| D1 r -> (Npos (XI (XO (XO (XO (XI XH)))))) :: (uint_bytes r)
| D2 r -> (Npos (XO (XI (XO (XO (XI XH)))))) :: (uint_bytes r)
| D3 r -> (Npos (XI (XI (XO (XO (XI XH)))))) :: (uint_bytes r)
| D4 r -> (Npos (XO (XO (XI (XO (XI XH)))))) :: (uint_bytes r)
| D5 r -> (Npos (XI (XO (XI (XO (XI XH)))))) :: (uint_bytes r)
| D6 r -> (Npos (XO (XI (XI (XO (XI XH)))))) :: (uint_bytes r)
| D7 r -> (Npos (XI (XI (XI (XO (XI XH)))))) :: (uint_bytes r)
| D8 r -> (Npos (XO (XO (XO (XI (XI XH)))))) :: (uint_bytes r)
| D9 r -> (Npos (XI (XO (XO (XI (XI XH)))))) :: (uint_bytes r)

(** val dec_N : n -> text **)

let dec_N n0 =
  uint_bytes (N.to_uint n0)

(** val dec_Z : z -> text **)

let dec_Z = function
| Z0 -> (Npos (XO (XO (XO (XO (XI XH)))))) :: []
| Zpos p -> dec_N (Npos p)
| Zneg p -> (Npos (XI (XO (XI (XI (XO XH)))))) :: (dec_N (Npos p))

(** val is_digit : n -> bool **)

let is_digit c =
  (&&) (N.leb (Npos (XO (XO (XO (XO (XI XH)))))) c)
    (N.leb c (Npos (XI (XO (XO (XI (XI XH)))))))

(** val join : text -> text list -> text **)

let rec join sep = function
| [] -> []
| x :: r -> (match r with
             | [] -> x
             | _ :: _ -> app x (app sep (join sep r)))

type semver = { major : n; minor : n; patch : n }

(** val u32_max : n **)

let u32_max =
  Npos (XI (XI (XI (XI (XI (XI (XI (XI (XI (XI (XI (XI (XI (XI (XI (XI (XI
    (XI (XI (XI (XI (XI (XI (XI (XI (XI (XI (XI (XI (XI (XI
    XH)))))))))))))))))))))))))))))))

(** val in_u32 : n -> bool **)

let in_u32 n0 =
  N.leb n0 u32_max

(** val sv_display : semver -> text **)

let sv_display v =
  app (dec_N v.major)
    (app ((Npos (XO (XI (XI (XI (XO XH)))))) :: [])
      (app (dec_N v.minor)
        (app ((Npos (XO (XI (XI (XI (XO XH)))))) :: []) (dec_N v.patch))))

(** val split_dot_aux : text -> text -> text list **)

let rec split_dot_aux cur = function
| [] -> (rev0 cur) :: []
| c :: r ->
  if N.eqb c (Npos (XO (XI (XI (XI (XO XH))))))
  then (rev0 cur) :: (split_dot_aux [] r)
  else split_dot_aux (c :: cur) r

(** val split_dot : text -> text list **)

let split_dot s =
  split_dot_aux [] s

type int_err =
| IEmpty
| IInvalidDigit
| IPosOverflow

(** val parse_digits : n -> text -> (n, int_err) sum **)

let rec parse_digits acc = function
| [] -> Inl acc
| c :: r ->
  if is_digit c
  then let acc' =
         N.add (N.mul acc (Npos (XO (XI (XO XH)))))
           (N.sub c (Npos (XO (XO (XO (XO (XI XH)))))))
       in
       if in_u32 acc' then parse_digits acc' r else Inr IPosOverflow
  else Inr IInvalidDigit

(** val parse_u32 : text -> (n, int_err) sum **)

let parse_u32 s = match s with
| [] -> Inr IEmpty
| c :: r ->
  (match r with
   | [] ->
     if (||) (N.eqb c (Npos (XI (XI (XO (XI (XO XH)))))))
          (N.eqb c (Npos (XI (XO (XI (XI (XO XH)))))))
     then Inr IInvalidDigit
     else parse_digits N0 s
   | _ :: _ ->
     if N.eqb c (Npos (XI (XI (XO (XI (XO XH))))))
     then parse_digits N0 r
     else parse_digits N0 s)

type sv_parse_result =
| ParseOk of semver
| NotThreeParts of text
| ParseIntError of text * text * int_err

(** val sv_parse : text -> sv_parse_result **)

let sv_parse s =
  match split_dot s with
  | [] -> NotThreeParts s
  | a :: l ->
    (match l with
     | [] -> NotThreeParts s
     | b :: l0 ->
       (match l0 with
        | [] -> NotThreeParts s
        | c :: l1 ->
          (match l1 with
           | [] ->
             (match parse_u32 a with
              | Inl ma ->
                (match parse_u32 b with
                 | Inl mi ->
                   (match parse_u32 c with
                    | Inl pa -> ParseOk { major = ma; minor = mi; patch = pa }
                    | Inr e -> ParseIntError (s, c, e))
                 | Inr e -> ParseIntError (s, b, e))
              | Inr e -> ParseIntError (s, a, e))
           | _ :: _ -> NotThreeParts s)))

(** val sv_compare : semver -> semver -> comparison **)

let sv_compare u v =
  match N.compare u.major v.major with
  | Eq ->
    (match N.compare u.minor v.minor with
     | Eq -> N.compare u.patch v.patch
     | x -> x)
  | x -> x

(** val sv_to_tuple : semver -> (n * n) * n **)

let sv_to_tuple v =
  ((v.major, v.minor), v.patch)

(** val sv_of_tuple : ((n * n) * n) -> semver **)

let sv_of_tuple = function
| (p, c) -> let (a, b) = p in { major = a; minor = b; patch = c }

(** val bump_patch : semver -> semver option **)

let bump_patch v =
  if N.ltb v.patch u32_max
  then Some { major = v.major; minor = v.minor; patch =
         (N.add v.patch (Npos XH)) }
  else None

(** val bump_minor : semver -> semver option **)

let bump_minor v =
  if N.ltb v.minor u32_max
  then Some { major = v.major; minor = (N.add v.minor (Npos XH)); patch = N0 }
  else None

(** val bump_major : semver -> semver option **)

let bump_major v =
  if N.ltb v.major u32_max
  then Some { major = (N.add v.major (Npos XH)); minor = N0; patch = N0 }
  else None

type ('vS, 'vr) vSReq = { rq_eqb : ('vS -> 'vS -> bool); rq_empty : 'vS;
                          rq_singleton : ('vr -> 'vS);
                          rq_complement : ('vS -> 'vS);
                          rq_intersection : ('vS -> 'vS -> 'vS);
                          rq_contains : ('vS -> 'vr -> bool) }

type ('vS, 'vr) vSOps = { vs_eqb : ('vS -> 'vS -> bool); vs_empty : 'vS;
                          vs_singleton : ('vr -> 'vS);
                          vs_complement : ('vS -> 'vS);
                          vs_intersection : ('vS -> 'vS -> 'vS);
                          vs_contains : ('vS -> 'vr -> bool); vs_full : 
                          'vS; vs_union : ('vS -> 'vS -> 'vS);
                          vs_is_disjoint : ('vS -> 'vS -> bool);
                          vs_subset_of : ('vS -> 'vS -> bool) }

(** val full_default : ('a1, 'a2) vSReq -> 'a1 **)

let full_default r =
  r.rq_complement r.rq_empty

(** val union_default : ('a1, 'a2) vSReq -> 'a1 -> 'a1 -> 'a1 **)

let union_default r a b =
  r.rq_complement (r.rq_intersection (r.rq_complement a) (r.rq_complement b))

(** val is_disjoint_default : ('a1, 'a2) vSReq -> 'a1 -> 'a1 -> bool **)

let is_disjoint_default r a b =
  r.rq_eqb (r.rq_intersection a b) r.rq_empty

(** val subset_of_default : ('a1, 'a2) vSReq -> 'a1 -> 'a1 -> bool **)

let subset_of_default r a b =
  r.rq_eqb a (r.rq_intersection a b)

(** val with_defaults : ('a1, 'a2) vSReq -> ('a1, 'a2) vSOps **)

let with_defaults r =
  { vs_eqb = r.rq_eqb; vs_empty = r.rq_empty; vs_singleton = r.rq_singleton;
    vs_complement = r.rq_complement; vs_intersection = r.rq_intersection;
    vs_contains = r.rq_contains; vs_full = (full_default r); vs_union =
    (union_default r); vs_is_disjoint = (is_disjoint_default r);
    vs_subset_of = (subset_of_default r) }

type v8 =
| V0
| V1
| V2
| V3
| V4
| V5
| V6
| V7

(** val v8_idx : v8 -> n **)

let v8_idx = function
| V0 -> N0
| V1 -> Npos XH
| V2 -> Npos (XO XH)
| V3 -> Npos (XI XH)
| V4 -> Npos (XO (XO XH))
| V5 -> Npos (XI (XO XH))
| V6 -> Npos (XO (XI XH))
| V7 -> Npos (XI (XI XH))

(** val v8_of_N : n -> v8 **)

let v8_of_N = function
| N0 -> V0
| Npos p ->
  (match p with
   | XI p0 ->
     (match p0 with
      | XI _ -> V7
      | XO p1 -> (match p1 with
                  | XH -> V5
                  | _ -> V7)
      | XH -> V3)
   | XO p0 ->
     (match p0 with
      | XI p1 -> (match p1 with
                  | XH -> V6
                  | _ -> V7)
      | XO p1 -> (match p1 with
                  | XH -> V4
                  | _ -> V7)
      | XH -> V2)
   | XH -> V1)

(** val all_v8 : v8 list **)

let all_v8 =
  V0 :: (V1 :: (V2 :: (V3 :: (V4 :: (V5 :: (V6 :: (V7 :: [])))))))

(** val bs_mask : n **)

let bs_mask =
  Npos (XI (XI (XI (XI (XI (XI (XI XH)))))))

(** val bitset_req : (n, v8) vSReq **)

let bitset_req =
  { rq_eqb = N.eqb; rq_empty = N0; rq_singleton = (fun v ->
    N.shiftl (Npos XH) (v8_idx v)); rq_complement = (fun a ->
    N.coq_lxor a bs_mask); rq_intersection = N.coq_land; rq_contains =
    (fun a v -> N.testbit a (v8_idx v)) }

(** val bitset_vs : (n, v8) vSOps **)

let bitset_vs =
  with_defaults bitset_req

type 't bound =
| Incl of 't
| Excl of 't
| Unb

module RangeM =
 functor (V:UsualOrderedTypeFull) ->
 struct
  type ver = V.t

  type bnd = V.t bound

  type seg = bnd * bnd

  type range = seg list

  (** val vltb : ver -> ver -> bool **)

  let vltb a b =
    match V.compare a b with
    | Lt -> true
    | _ -> false

  (** val vleb : ver -> ver -> bool **)

  let vleb a b =
    match V.compare a b with
    | Gt -> false
    | _ -> true

  (** val veqb : ver -> ver -> bool **)

  let veqb a b =
    match V.compare a b with
    | Eq -> true
    | _ -> false

  (** val vmax : ver -> ver -> ver **)

  let vmax a b =
    if vleb a b then b else a

  (** val empty : range **)

  let empty =
    []

  (** val full : range **)

  let full =
    (Unb, Unb) :: []

  (** val higher_than : ver -> range **)

  let higher_than v =
    ((Incl v), Unb) :: []

  (** val strictly_higher_than : ver -> range **)

  let strictly_higher_than v =
    ((Excl v), Unb) :: []

  (** val strictly_lower_than : ver -> range **)

  let strictly_lower_than v =
    (Unb, (Excl v)) :: []

  (** val lower_than : ver -> range **)

  let lower_than v =
    (Unb, (Incl v)) :: []

  (** val between : ver -> ver -> range **)

  let between v1 v2 =
    ((Incl v1), (Excl v2)) :: []

  (** val singleton : ver -> range **)

  let singleton v =
    ((Incl v), (Incl v)) :: []

  (** val is_empty : range -> bool **)

  let is_empty = function
  | [] -> true
  | _ :: _ -> false

  (** val valid_segment : bnd -> bnd -> bool **)

  let valid_segment s e =
    match s with
    | Incl s0 ->
      (match e with
       | Incl e0 -> vleb s0 e0
       | Excl e0 -> vltb s0 e0
       | Unb -> true)
    | Excl s0 ->
      (match e with
       | Incl e0 -> vltb s0 e0
       | Excl e0 -> vltb s0 e0
       | Unb -> true)
    | Unb -> true

  (** val end_before_start_with_gap : bnd -> bnd -> bool **)

  let end_before_start_with_gap e s =
    match e with
    | Incl l ->
      (match s with
       | Incl r -> vltb l r
       | Excl r -> vltb l r
       | Unb -> false)
    | Excl l ->
      (match s with
       | Incl r -> vltb l r
       | Excl r -> vleb l r
       | Unb -> false)
    | Unb -> false

  (** val left_start_is_smaller : bnd -> bnd -> bool **)

  let left_start_is_smaller l r =
    match l with
    | Incl l0 ->
      (match r with
       | Incl r0 -> vleb l0 r0
       | Excl r0 -> vleb l0 r0
       | Unb -> false)
    | Excl l0 ->
      (match r with
       | Incl r0 -> vltb l0 r0
       | Excl r0 -> vleb l0 r0
       | Unb -> false)
    | Unb -> true

  (** val left_end_is_smaller : bnd -> bnd -> bool **)

  let left_end_is_smaller l r =
    match l with
    | Incl l0 ->
      (match r with
       | Incl r0 -> vleb l0 r0
       | Excl r0 -> vltb l0 r0
       | Unb -> true)
    | Excl l0 ->
      (match r with
       | Incl r0 -> vleb l0 r0
       | Excl r0 -> vleb l0 r0
       | Unb -> true)
    | Unb -> (match r with
              | Unb -> true
              | _ -> false)

  (** val within_bounds : ver -> seg -> comparison **)

  let within_bounds v sg =
    let below_lower =
      match fst sg with
      | Incl s -> vltb v s
      | Excl s -> vleb v s
      | Unb -> false
    in
    if below_lower
    then Lt
    else let below_upper =
           match snd sg with
           | Incl e -> vleb v e
           | Excl e -> vltb v e
           | Unb -> true
         in
         if below_upper then Eq else Gt

  (** val cmp_bounds_start : bnd -> bnd -> comparison **)

  let cmp_bounds_start l r =
    match l with
    | Incl l0 ->
      (match r with
       | Incl r0 -> V.compare l0 r0
       | Excl r0 -> (match V.compare l0 r0 with
                     | Eq -> Lt
                     | x -> x)
       | Unb -> Gt)
    | Excl l0 ->
      (match r with
       | Incl r0 -> (match V.compare l0 r0 with
                     | Eq -> Gt
                     | x -> x)
       | Excl r0 -> V.compare l0 r0
       | Unb -> Gt)
    | Unb -> (match r with
              | Unb -> Eq
              | _ -> Lt)

  (** val cmp_bounds_end : bnd -> bnd -> comparison **)

  let cmp_bounds_end l r =
    match l with
    | Incl l0 ->
      (match r with
       | Incl r0 -> V.compare l0 r0
       | Excl r0 -> (match V.compare l0 r0 with
                     | Eq -> Gt
                     | x -> x)
       | Unb -> Lt)
    | Excl l0 ->
      (match r with
       | Incl r0 -> (match V.compare l0 r0 with
                     | Eq -> Lt
                     | x -> x)
       | Excl r0 -> V.compare l0 r0
       | Unb -> Lt)
    | Unb -> (match r with
              | Unb -> Eq
              | _ -> Gt)

  (** val acc_end : bnd -> bnd -> bnd **)

  let acc_end a s =
    match a with
    | Incl l ->
      (match s with
       | Incl r -> if veqb l r then a else if vltb r l then a else s
       | Excl r -> if veqb l r then a else if vltb r l then a else s
       | Unb -> Unb)
    | Excl l ->
      (match s with
       | Incl r -> if vltb r l then a else s
       | Excl r -> if vltb r l then a else s
       | Unb -> Unb)
    | Unb -> Unb

  (** val inter_start : bnd -> bnd -> bnd **)

  let inter_start l r =
    match l with
    | Incl i ->
      (match r with
       | Incl r0 -> Incl (vmax i r0)
       | Excl e -> if vleb i e then Excl e else Incl i
       | Unb -> l)
    | Excl e ->
      (match r with
       | Incl i -> if vleb i e then Excl e else Incl i
       | Excl r0 -> Excl (vmax e r0)
       | Unb -> l)
    | Unb -> (match r with
              | Unb -> l
              | _ -> r)

  (** val flip : bnd -> bnd **)

  let flip = function
  | Incl v -> Excl v
  | Excl v -> Incl v
  | Unb -> Unb

  (** val negate_segments : bnd -> range -> range **)

  let rec negate_segments start = function
  | [] -> (match start with
           | Unb -> []
           | _ -> (start, Unb) :: [])
  | s :: rest ->
    let (v1, v2) = s in (start, (flip v1)) :: (negate_segments (flip v2) rest)

  (** val complement : range -> range **)

  let complement r = match r with
  | [] -> full
  | s :: rest ->
    let (b, b0) = s in
    (match b with
     | Incl v ->
       (match b0 with
        | Unb -> strictly_lower_than v
        | _ -> negate_segments Unb r)
     | Excl v ->
       (match b0 with
        | Unb -> lower_than v
        | _ -> negate_segments Unb r)
     | Unb ->
       (match b0 with
        | Incl v -> negate_segments (Excl v) rest
        | Excl v -> negate_segments (Incl v) rest
        | Unb -> empty))

  (** val merge : range -> range -> range **)

  let rec merge l r =
    match l with
    | [] -> r
    | x :: l' ->
      let rec aux r0 = match r0 with
      | [] -> l
      | y :: r' ->
        if left_start_is_smaller (fst x) (fst y)
        then x :: (merge l' r0)
        else y :: (aux r')
      in aux r

  (** val coalesce : seg -> range -> range **)

  let rec coalesce acc = function
  | [] -> acc :: []
  | s :: rest' ->
    if end_before_start_with_gap (snd acc) (fst s)
    then acc :: (coalesce s rest')
    else coalesce ((fst acc), (acc_end (snd acc) (snd s))) rest'

  (** val union : range -> range -> range **)

  let union a b =
    match merge a b with
    | [] -> []
    | s :: rest -> coalesce s rest

  (** val inter_emit : bnd -> bnd -> bnd -> bnd -> range **)

  let inter_emit other_start e ls rs =
    if valid_segment other_start e then ((inter_start ls rs), e) :: [] else []

  (** val intersection : range -> range -> range **)

  let rec intersection l r =
    match l with
    | [] -> []
    | s :: l' ->
      let (ls, le) = s in
      let rec aux r0 = match r0 with
      | [] -> []
      | s0 :: r' ->
        let (rs, re) = s0 in
        if left_end_is_smaller le re
        then app (inter_emit rs le ls rs) (intersection l' r0)
        else app (inter_emit ls re ls rs) (aux r')
      in aux r

  (** val is_disjoint : range -> range -> bool **)

  let rec is_disjoint l r =
    match l with
    | [] -> true
    | s :: l' ->
      let (ls, le) = s in
      let rec aux r0 = match r0 with
      | [] -> true
      | s0 :: r' ->
        let (rs, re) = s0 in
        if negb (valid_segment rs le)
        then is_disjoint l' r0
        else if negb (valid_segment ls re) then aux r' else false
      in aux r

  (** val advance : bnd -> seg -> range -> (seg * range) option **)

  let rec advance sstart c cs =
    if valid_segment sstart (snd c)
    then Some (c, cs)
    else (match cs with
          | [] -> None
          | c' :: cs' -> advance sstart c' cs')

  (** val subset_loop : range -> seg -> range -> bool **)

  let rec subset_loop sub0 c cs =
    match sub0 with
    | [] -> true
    | s :: sub' ->
      (match advance (fst s) c cs with
       | Some p ->
         let (c', cs') = p in
         if negb (left_start_is_smaller (fst c') (fst s))
         then false
         else if negb (left_end_is_smaller (snd s) (snd c'))
              then false
              else subset_loop sub' c' cs'
       | None -> false)

  (** val subset_of : range -> range -> bool **)

  let subset_of a = function
  | [] -> is_empty a
  | c :: cs -> subset_loop a c cs

  (** val cursor : ver -> range -> bool * range **)

  let rec cursor v segs = match segs with
  | [] -> (false, [])
  | s :: rest ->
    (match within_bounds v s with
     | Eq -> (true, segs)
     | Lt -> (false, segs)
     | Gt -> cursor v rest)

  (** val contains : range -> ver -> bool **)

  let contains r v =
    fst (cursor v r)

  (** val contains_many : range -> ver list -> bool list **)

  let rec contains_many segs = function
  | [] -> []
  | v :: vs' ->
    let (b, segs') = cursor v segs in b :: (contains_many segs' vs')

  (** val as_singleton : range -> ver option **)

  let as_singleton = function
  | [] -> None
  | s :: l ->
    let (b, b0) = s in
    (match b with
     | Incl v1 ->
       (match b0 with
        | Incl v2 ->
          (match l with
           | [] -> if veqb v1 v2 then Some v1 else None
           | _ :: _ -> None)
        | _ -> None)
     | _ -> None)

  (** val bounding_range : range -> (bnd * bnd) option **)

  let bounding_range r = match r with
  | [] -> None
  | s0 :: _ -> let (s, _) = s0 in Some (s, (snd (last r (Unb, Unb))))

  (** val from_range_bounds : bnd -> bnd -> range **)

  let from_range_bounds s e =
    if valid_segment s e then (s, e) :: [] else []

  (** val gaps_ok : range -> bool **)

  let rec gaps_ok = function
  | [] -> true
  | s1 :: rest ->
    (match rest with
     | [] -> true
     | s2 :: _ ->
       (&&) (end_before_start_with_gap (snd s1) (fst s2)) (gaps_ok rest))

  (** val check_invariants : range -> bool **)

  let check_invariants r =
    (&&) (gaps_ok r) (forallb (fun sg -> valid_segment (fst sg) (snd sg)) r)

  (** val loc_cursor : ver -> nat -> range -> (nat option * nat) * range **)

  let rec loc_cursor v i segs = match segs with
  | [] -> ((None, i), [])
  | s :: rest ->
    (match within_bounds v s with
     | Eq -> (((Some i), i), segs)
     | Lt -> ((None, i), segs)
     | Gt -> loc_cursor v (S i) rest)

  (** val version_locations : nat -> range -> ver list -> nat option list **)

  let rec version_locations i segs = function
  | [] -> []
  | v :: vs' ->
    let (p, segs') = loc_cursor v i segs in
    let (o, i') = p in o :: (version_locations i' segs' vs')

  type group = nat option * nat option

  (** val gal : group option -> nat option list -> group list **)

  let rec gal sg = function
  | [] ->
    (match sg with
     | Some g -> let (s, _) = g in (s, None) :: []
     | None -> [])
  | o :: rest ->
    (match o with
     | Some ver0 ->
       gal (Some
         ((match sg with
           | Some g -> let (s, _) = g in s
           | None -> Some ver0), (Some ver0))) rest
     | None ->
       (match sg with
        | Some g -> g :: (gal None rest)
        | None -> gal None rest))

  (** val group_adjacent_locations : nat option list -> group list **)

  let group_adjacent_locations = function
  | [] -> []
  | first :: rest ->
    gal
      (match first with
       | Some ver0 -> Some (None, (Some ver0))
       | None -> None) rest

  (** val keep_segments : range -> group list -> range **)

  let keep_segments r kept =
    map (fun g ->
      ((match fst g with
        | Some s -> fst (nth s r (Unb, Unb))
        | None -> Unb),
      (match snd g with
       | Some e -> snd (nth e r (Unb, Unb))
       | None -> Unb))) kept

  (** val simplify : range -> ver list -> range **)

  let simplify r vs =
    match as_singleton r with
    | Some _ -> r
    | None ->
      (match group_adjacent_locations (version_locations O r vs) with
       | [] -> r
       | g :: l -> keep_segments r (g :: l))

  (** val iter : range -> (bnd * bnd) list **)

  let iter r =
    r

  (** val range_cmp : range -> range -> comparison **)

  let rec range_cmp a b =
    match a with
    | [] -> (match b with
             | [] -> Eq
             | _ :: _ -> Lt)
    | s :: a' ->
      let (ls, le) = s in
      (match b with
       | [] -> Gt
       | s0 :: b' ->
         let (rs, re) = s0 in
         (match cmp_bounds_start ls rs with
          | Eq ->
            (match cmp_bounds_end le re with
             | Eq -> range_cmp a' b'
             | x -> x)
          | x -> x))

  (** val range_partial_cmp : range -> range -> comparison option **)

  let range_partial_cmp a b =
    Some (range_cmp a b)

  (** val bound_eqb : bnd -> bnd -> bool **)

  let bound_eqb a b =
    match a with
    | Incl x -> (match b with
                 | Incl y -> veqb x y
                 | _ -> false)
    | Excl x -> (match b with
                 | Excl y -> veqb x y
                 | _ -> false)
    | Unb -> (match b with
              | Unb -> true
              | _ -> false)

  (** val range_eqb : range -> range -> bool **)

  let rec range_eqb a b =
    match a with
    | [] -> (match b with
             | [] -> true
             | _ :: _ -> false)
    | s :: a' ->
      let (s1, e1) = s in
      (match b with
       | [] -> false
       | s0 :: b' ->
         let (s2, e2) = s0 in
         (&&) ((&&) (bound_eqb s1 s2) (bound_eqb e1 e2)) (range_eqb a' b'))

  type token =
  | TStar
  | TVer of ver
  | TLt of ver
  | TLe of ver
  | TGt of ver
  | TGe of ver

  (** val token_rect :
      'a1 -> (ver -> 'a1) -> (ver -> 'a1) -> (ver -> 'a1) -> (ver -> 'a1) ->
      (ver -> 'a1) -> token -> 'a1 **)

  let token_rect f f0 f1 f2 f3 f4 = function
  | TStar -> f
  | TVer v -> f0 v
  | TLt v -> f1 v
  | TLe v -> f2 v
  | TGt v -> f3 v
  | TGe v -> f4 v

  (** val token_rec :
      'a1 -> (ver -> 'a1) -> (ver -> 'a1) -> (ver -> 'a1) -> (ver -> 'a1) ->
      (ver -> 'a1) -> token -> 'a1 **)

  let token_rec f f0 f1 f2 f3 f4 = function
  | TStar -> f
  | TVer v -> f0 v
  | TLt v -> f1 v
  | TLe v -> f2 v
  | TGt v -> f3 v
  | TGe v -> f4 v

  (** val seg_tokens : seg -> token list **)

  let seg_tokens = function
  | (b0, b1) ->
    (match b0 with
     | Incl v ->
       (match b1 with
        | Incl b ->
          if veqb v b then (TVer v) :: [] else (TGe v) :: ((TLe b) :: [])
        | Excl b -> (TGe v) :: ((TLt b) :: [])
        | Unb -> (TGe v) :: [])
     | Excl v ->
       (match b1 with
        | Incl b -> (TGt v) :: ((TLe b) :: [])
        | Excl b -> (TGt v) :: ((TLt b) :: [])
        | Unb -> (TGt v) :: [])
     | Unb ->
       (match b1 with
        | Incl v -> (TLe v) :: []
        | Excl v -> (TLt v) :: []
        | Unb -> TStar :: []))

  (** val display_tokens : range -> token list list **)

  let display_tokens r =
    map seg_tokens r

  (** val display_seg : (ver -> text) -> seg -> text **)

  let display_seg show = function
  | (b0, b1) ->
    (match b0 with
     | Incl v ->
       (match b1 with
        | Incl b ->
          if veqb v b
          then show v
          else app
                 (txt (String ((Ascii (false, true, true, true, true, true,
                   false, false)), (String ((Ascii (true, false, true, true,
                   true, true, false, false)), EmptyString)))))
                 (app (show v)
                   (app
                     (txt (String ((Ascii (false, false, true, true, false,
                       true, false, false)), (String ((Ascii (false, false,
                       false, false, false, true, false, false)), (String
                       ((Ascii (false, false, true, true, true, true, false,
                       false)), (String ((Ascii (true, false, true, true,
                       true, true, false, false)), EmptyString)))))))))
                     (show b)))
        | Excl b ->
          app
            (txt (String ((Ascii (false, true, true, true, true, true, false,
              false)), (String ((Ascii (true, false, true, true, true, true,
              false, false)), EmptyString)))))
            (app (show v)
              (app
                (txt (String ((Ascii (false, false, true, true, false, true,
                  false, false)), (String ((Ascii (false, false, false,
                  false, false, true, false, false)), (String ((Ascii (false,
                  false, true, true, true, true, false, false)),
                  EmptyString))))))) (show b)))
        | Unb ->
          app
            (txt (String ((Ascii (false, true, true, true, true, true, false,
              false)), (String ((Ascii (true, false, true, true, true, true,
              false, false)), EmptyString))))) (show v))
     | Excl v ->
       (match b1 with
        | Incl b ->
          app
            (txt (String ((Ascii (false, true, true, true, true, true, false,
              false)), EmptyString)))
            (app (show v)
              (app
                (txt (String ((Ascii (false, false, true, true, false, true,
                  false, false)), (String ((Ascii (false, false, false,
                  false, false, true, false, false)), (String ((Ascii (false,
                  false, true, true, true, true, false, false)), (String
                  ((Ascii (true, false, true, true, true, true, false,
                  false)), EmptyString))))))))) (show b)))
        | Excl b ->
          app
            (txt (String ((Ascii (false, true, true, true, true, true, false,
              false)), EmptyString)))
            (app (show v)
              (app
                (txt (String ((Ascii (false, false, true, true, false, true,
                  false, false)), (String ((Ascii (false, false, false,
                  false, false, true, false, false)), (String ((Ascii (false,
                  false, true, true, true, true, false, false)),
                  EmptyString))))))) (show b)))
        | Unb ->
          app
            (txt (String ((Ascii (false, true, true, true, true, true, false,
              false)), EmptyString))) (show v))
     | Unb ->
       (match b1 with
        | Incl v ->
          app
            (txt (String ((Ascii (false, false, true, true, true, true,
              false, false)), (String ((Ascii (true, false, true, true, true,
              true, false, false)), EmptyString))))) (show v)
        | Excl v ->
          app
            (txt (String ((Ascii (false, false, true, true, true, true,
              false, false)), EmptyString))) (show v)
        | Unb ->
          txt (String ((Ascii (false, true, false, true, false, true, false,
            false)), EmptyString))))

  (** val display : (ver -> text) -> range -> text **)

  let display show r = match r with
  | [] ->
    txt (String ((Ascii (false, true, false, false, false, true, true,
      true)), (String ((Ascii (false, false, false, true, false, false,
      false, true)), (String ((Ascii (true, false, true, false, false, false,
      false, true)), EmptyString))))))
  | _ :: _ ->
    join
      (txt (String ((Ascii (false, false, false, false, false, true, false,
        false)), (String ((Ascii (false, false, true, true, true, true, true,
        false)), (String ((Ascii (false, false, false, false, false, true,
        false, false)), EmptyString))))))) (map (display_seg show) r)

  (** val render_token : (ver -> text) -> token -> text **)

  let render_token show = function
  | TStar ->
    txt (String ((Ascii (false, true, false, true, false, true, false,
      false)), EmptyString))
  | TVer v -> show v
  | TLt v ->
    app
      (txt (String ((Ascii (false, false, true, true, true, true, false,
        false)), EmptyString))) (show v)
  | TLe v ->
    app
      (txt (String ((Ascii (false, false, true, true, true, true, false,
        false)), (String ((Ascii (true, false, true, true, true, true, false,
        false)), EmptyString))))) (show v)
  | TGt v ->
    app
      (txt (String ((Ascii (false, true, true, true, true, true, false,
        false)), EmptyString))) (show v)
  | TGe v ->
    app
      (txt (String ((Ascii (false, true, true, true, true, true, false,
        false)), (String ((Ascii (true, false, true, true, true, true, false,
        false)), EmptyString))))) (show v)

  (** val render : (ver -> text) -> token list list -> text **)

  let render show tl = match tl with
  | [] ->
    txt (String ((Ascii (false, true, false, false, false, true, true,
      true)), (String ((Ascii (false, false, false, true, false, false,
      false, true)), (String ((Ascii (true, false, true, false, false, false,
      false, true)), EmptyString))))))
  | _ :: _ ->
    join
      (txt (String ((Ascii (false, false, false, false, false, true, false,
        false)), (String ((Ascii (false, false, true, true, true, true, true,
        false)), (String ((Ascii (false, false, false, false, false, true,
        false, false)), EmptyString)))))))
      (map (fun conj ->
        join
          (txt (String ((Ascii (false, false, true, true, false, true, false,
            false)), (String ((Ascii (false, false, false, false, false,
            true, false, false)), EmptyString)))))
          (map (render_token show) conj)) tl)

  (** val range_vs : (range, ver) vSOps **)

  let range_vs =
    { vs_eqb = range_eqb; vs_empty = empty; vs_singleton = singleton;
      vs_complement = complement; vs_intersection = intersection;
      vs_contains = contains; vs_full = full; vs_union = union;
      vs_is_disjoint = is_disjoint; vs_subset_of = subset_of }
 end

module ZV =
 struct
  type t = z

  (** val eq_dec : z -> z -> bool **)

  let eq_dec =
    Z.eq_dec

  (** val compare : z -> z -> comparison **)

  let compare =
    Z.compare
 end

module RZ = RangeM(ZV)

(** val rz_display : RZ.range -> text **)

let rz_display r =
  RZ.display dec_Z r

type 'vS term =
| Pos of 'vS
| Neg of 'vS

type relation =
| Satisfied
| Contradicted
| Inconclusive

(** val t_any : ('a1, 'a2) vSOps -> 'a1 term **)

let t_any o =
  Neg o.vs_empty

(** val t_empty : ('a1, 'a2) vSOps -> 'a1 term **)

let t_empty o =
  Pos o.vs_empty

(** val t_exact : ('a1, 'a2) vSOps -> 'a2 -> 'a1 term **)

let t_exact o v =
  Pos (o.vs_singleton v)

(** val t_is_positive : 'a1 term -> bool **)

let t_is_positive = function
| Pos _ -> true
| Neg _ -> false

(** val t_negate : 'a1 term -> 'a1 term **)

let t_negate = function
| Pos s -> Neg s
| Neg s -> Pos s

(** val t_contains : ('a1, 'a2) vSOps -> 'a1 term -> 'a2 -> bool **)

let t_contains o t0 v =
  match t0 with
  | Pos s -> o.vs_contains s v
  | Neg s -> negb (o.vs_contains s v)

(** val t_intersection :
    ('a1, 'a2) vSOps -> 'a1 term -> 'a1 term -> 'a1 term **)

let t_intersection o t0 u =
  match t0 with
  | Pos p ->
    (match u with
     | Pos r2 -> Pos (o.vs_intersection p r2)
     | Neg n0 -> Pos (o.vs_intersection (o.vs_complement n0) p))
  | Neg r1 ->
    (match u with
     | Pos p -> Pos (o.vs_intersection (o.vs_complement r1) p)
     | Neg r2 -> Neg (o.vs_union r1 r2))

(** val t_is_disjoint : ('a1, 'a2) vSOps -> 'a1 term -> 'a1 term -> bool **)

let t_is_disjoint o t0 u =
  match t0 with
  | Pos p ->
    (match u with
     | Pos r2 -> o.vs_is_disjoint p r2
     | Neg n0 -> o.vs_subset_of p n0)
  | Neg n0 -> (match u with
               | Pos p -> o.vs_subset_of p n0
               | Neg _ -> false)

(** val t_union : ('a1, 'a2) vSOps -> 'a1 term -> 'a1 term -> 'a1 term **)

let t_union o t0 u =
  match t0 with
  | Pos p ->
    (match u with
     | Pos r2 -> Pos (o.vs_union p r2)
     | Neg n0 -> Neg (o.vs_intersection (o.vs_complement p) n0))
  | Neg r1 ->
    (match u with
     | Pos p -> Neg (o.vs_intersection (o.vs_complement p) r1)
     | Neg r2 -> Neg (o.vs_intersection r1 r2))

(** val t_subset_of : ('a1, 'a2) vSOps -> 'a1 term -> 'a1 term -> bool **)

let t_subset_of o t0 u =
  match t0 with
  | Pos r1 ->
    (match u with
     | Pos r2 -> o.vs_subset_of r1 r2
     | Neg r2 -> o.vs_is_disjoint r1 r2)
  | Neg r1 -> (match u with
               | Pos _ -> false
               | Neg r2 -> o.vs_subset_of r2 r1)

(** val t_relation_with :
    ('a1, 'a2) vSOps -> 'a1 term -> 'a1 term -> relation **)

let t_relation_with o t0 other =
  if t_subset_of o other t0
  then Satisfied
  else if t_is_disjoint o t0 other then Contradicted else Inconclusive

(** val t_eqb : ('a1, 'a2) vSOps -> 'a1 term -> 'a1 term -> bool **)

let t_eqb o t0 u =
  match t0 with
  | Pos a -> (match u with
              | Pos b -> o.vs_eqb a b
              | Neg _ -> false)
  | Neg a -> (match u with
              | Pos _ -> false
              | Neg b -> o.vs_eqb a b)

type pkg = n

type 'vS depmap = (pkg * 'vS) list

type 'vS provider = (pkg * (z * 'vS depmap) list) list

(** val empty_provider : 'a1 provider **)

let empty_provider =
  []

(** val dm_insert : pkg -> 'a1 -> 'a1 depmap -> 'a1 depmap **)

let rec dm_insert q s = function
| [] -> (q, s) :: []
| p :: r ->
  let (q', s') = p in
  if N.eqb q q' then (q, s) :: r else (q', s') :: (dm_insert q s r)

(** val collect : (pkg * 'a1) list -> 'a1 depmap **)

let collect l =
  fold_left (fun m qs -> dm_insert (fst qs) (snd qs) m) l []

(** val inner_set :
    z -> 'a1 depmap -> (z * 'a1 depmap) list -> (z * 'a1 depmap) list **)

let rec inner_set v d l = match l with
| [] -> (v, d) :: []
| p :: r ->
  let (w, d') = p in
  (match Z.compare v w with
   | Eq -> (v, d) :: r
   | Lt -> (v, d) :: l
   | Gt -> (w, d') :: (inner_set v d r))

(** val inner_get : z -> (z * 'a1 depmap) list -> 'a1 depmap option **)

let rec inner_get v = function
| [] -> None
| p :: r -> let (w, d) = p in if Z.eqb v w then Some d else inner_get v r

(** val outer_get : pkg -> 'a1 provider -> (z * 'a1 depmap) list option **)

let rec outer_get p = function
| [] -> None
| p0 :: r -> let (p', l) = p0 in if N.eqb p p' then Some l else outer_get p r

(** val outer_set :
    pkg -> (z * 'a1 depmap) list -> 'a1 provider -> 'a1 provider **)

let rec outer_set p l = function
| [] -> (p, l) :: []
| p0 :: r ->
  let (p', l') = p0 in
  if N.eqb p p' then (p, l) :: r else (p', l') :: (outer_set p l r)

(** val add_dependencies :
    'a1 provider -> pkg -> z -> (pkg * 'a1) list -> 'a1 provider **)

let add_dependencies prov p v deps =
  let inner = match outer_get p prov with
              | Some l -> l
              | None -> [] in
  outer_set p (inner_set v (collect deps) inner) prov

(** val packages : 'a1 provider -> pkg list **)

let packages prov =
  map fst prov

(** val versions : 'a1 provider -> pkg -> z list option **)

let versions prov p =
  option_map (map fst) (outer_get p prov)

(** val dependencies : 'a1 provider -> pkg -> z -> 'a1 depmap option **)

let dependencies prov p v =
  match outer_get p prov with
  | Some l -> inner_get v l
  | None -> None

(** val choose_version :
    ('a1 -> z -> bool) -> 'a1 provider -> pkg -> 'a1 -> z option **)

let choose_version contains0 prov p s =
  match versions prov p with
  | Some vs -> hd_error (filter (contains0 s) (rev0 vs))
  | None -> None

(** val prioritize_count :
    ('a1 -> z -> bool) -> 'a1 provider -> pkg -> 'a1 -> nat **)

let prioritize_count contains0 prov p s =
  match versions prov p with
  | Some vs -> length (filter (contains0 s) vs)
  | None -> O

(** val priority_compare : nat -> nat -> comparison **)

let priority_compare a b =
  Nat.compare b a

type 'vS dependencies_result =
| Unavailable
| Available of 'vS depmap

(** val get_dependencies :
    'a1 provider -> pkg -> z -> 'a1 dependencies_result **)

let get_dependencies prov p v =
  match dependencies prov p v with
  | Some d -> Available d
  | None -> Unavailable

type 'vS op = (pkg * z) * (pkg * 'vS) list

(** val run : 'a1 op list -> 'a1 provider **)

let run ops =
  fold_left (fun prov o ->
    add_dependencies prov (fst (fst o)) (snd (fst o)) (snd o)) ops
    empty_provider
