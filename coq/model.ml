
(** val negb : bool -> bool **)

let negb = function
| true -> false
| false -> true

type nat =
| O
| S of nat

(** val option_map : ('a1 -> 'a2) -> 'a1 option -> 'a2 option **)

let option_map f = function
| Some a -> Some (f a)
| None -> None

type ('a, 'b) sum =
| Inl of 'a
| Inr of 'b

(** val fst : ('a1 * 'a2) -> 'a1 **)

let fst = function
| (x, _) -> x

(** val snd : ('a1 * 'a2) -> 'a2 **)

let snd = function
| (_, y) -> y

(** val length : 'a1 list -> nat **)

let rec length = function
| [] -> O
| _ :: l' -> S (length l')

(** val app : 'a1 list -> 'a1 list -> 'a1 list **)

let rec app l m =
  match l with
  | [] -> m
  | a :: l1 -> a :: (app l1 m)

type comparison =
| Eq
| Lt
| Gt

(** val compOpp : comparison -> comparison **)

let compOpp = function
| Eq -> Eq
| Lt -> Gt
| Gt -> Lt

type uint =
| Nil
| D0 of uint
| D1 of uint
| D2 of uint
| D3 of uint
| D4 of uint
| D5 of uint
| D6 of uint
| D7 of uint
| D8 of uint
| D9 of uint

(** val revapp : uint -> uint -> uint **)

let rec revapp d d' =
  match d with
  | Nil -> d'
  | D0 d0 -> revapp d0 (D0 d')
  | D1 d0 -> revapp d0 (D1 d')
  | D2 d0 -> revapp d0 (D2 d')
  | D3 d0 -> revapp d0 (D3 d')
  | D4 d0 -> revapp d0 (D4 d')
  | D5 d0 -> revapp d0 (D5 d')
  | D6 d0 -> revapp d0 (D6 d')
  | D7 d0 -> revapp d0 (D7 d')
  | D8 d0 -> revapp d0 (D8 d')
  | D9 d0 -> revapp d0 (D9 d')

(** val rev : uint -> uint **)

let rev d =
  revapp d Nil

module Little =
 struct
  (** val double : uint -> uint **)

  let rec double = function
  | Nil -> Nil
  | D0 d0 -> D0 (double d0)
  | D1 d0 -> D2 (double d0)
  | D2 d0 -> D4 (double d0)
  | D3 d0 -> D6 (double d0)
  | D4 d0 -> D8 (double d0)
  | D5 d0 -> D0 (succ_double d0)
  | D6 d0 -> D2 (succ_double d0)
  | D7 d0 -> D4 (succ_double d0)
  | D8 d0 -> D6 (succ_double d0)
  | D9 d0 -> D8 (succ_double d0)

  (** val succ_double : uint -> uint **)

  and succ_double = function
  | Nil -> D1 Nil
  | D0 d0 -> D1 (double d0)
  | D1 d0 -> D3 (double d0)
  | D2 d0 -> D5 (double d0)
  | D3 d0 -> D7 (double d0)
  | D4 d0 -> D9 (double d0)
  | D5 d0 -> D1 (succ_double d0)
  | D6 d0 -> D3 (succ_double d0)
  | D7 d0 -> D5 (succ_double d0)
  | D8 d0 -> D7 (succ_double d0)
  | D9 d0 -> D9 (succ_double d0)
 end

(** val add : nat -> nat -> nat **)

let rec add n0 m =
  match n0 with
  | O -> m
  | S p -> S (add p m)

(** val mul : nat -> nat -> nat **)

let rec mul n0 m =
  match n0 with
  | O -> O
  | S p -> add m (mul p m)

(** val sub : nat -> nat -> nat **)

let rec sub n0 m =
  match n0 with
  | O -> n0
  | S k -> (match m with
            | O -> n0
            | S l -> sub k l)

(** val eqb : nat -> nat -> bool **)

let rec eqb n0 m =
  match n0 with
  | O -> (match m with
          | O -> true
          | S _ -> false)
  | S n' -> (match m with
             | O -> false
             | S m' -> eqb n' m')

type positive =
| XI of positive
| XO of positive
| XH

type n =
| N0
| Npos of positive

type z =
| Z0
| Zpos of positive
| Zneg of positive

module type UsualOrderedTypeFull =
 sig
  type t

  val compare : t -> t -> comparison

  val eq_dec : t -> t -> bool
 end

module Nat =
 struct
  (** val pred : nat -> nat **)

  let pred n0 = match n0 with
  | O -> n0
  | S u -> u

  (** val eqb : nat -> nat -> bool **)

  let rec eqb n0 m =
    match n0 with
    | O -> (match m with
            | O -> true
            | S _ -> false)
    | S n' -> (match m with
               | O -> false
               | S m' -> eqb n' m')

  (** val leb : nat -> nat -> bool **)

  let rec leb n0 m =
    match n0 with
    | O -> true
    | S n' -> (match m with
               | O -> false
               | S m' -> leb n' m')

  (** val ltb : nat -> nat -> bool **)

  let ltb n0 m =
    leb (S n0) m

  (** val compare : nat -> nat -> comparison **)

  let rec compare n0 m =
    match n0 with
    | O -> (match m with
            | O -> Eq
            | S _ -> Lt)
    | S n' -> (match m with
               | O -> Gt
               | S m' -> compare n' m')

  (** val max : nat -> nat -> nat **)

  let rec max n0 m =
    match n0 with
    | O -> m
    | S n' -> (match m with
               | O -> n0
               | S m' -> S (max n' m'))

  (** val min : nat -> nat -> nat **)

  let rec min n0 m =
    match n0 with
    | O -> O
    | S n' -> (match m with
               | O -> O
               | S m' -> S (min n' m'))

  (** val div2 : nat -> nat **)

  let rec div2 = function
  | O -> O
  | S n1 -> (match n1 with
             | O -> O
             | S n' -> S (div2 n'))
 end

module Pos =
 struct
  type mask =
  | IsNul
  | IsPos of positive
  | IsNeg
 end

module Coq_Pos =
 struct
  (** val succ : positive -> positive **)

  let rec succ = function
  | XI p -> XO (succ p)
  | XO p -> XI p
  | XH -> XO XH

  (** val add : positive -> positive -> positive **)

  let rec add x y =
    match x with
    | XI p ->
      (match y with
       | XI q -> XO (add_carry p q)
       | XO q -> XI (add p q)
       | XH -> XO (succ p))
    | XO p ->
      (match y with
       | XI q -> XI (add p q)
       | XO q -> XO (add p q)
       | XH -> XI p)
    | XH -> (match y with
             | XI q -> XO (succ q)
             | XO q -> XI q
             | XH -> XO XH)

  (** val add_carry : positive -> positive -> positive **)

  and add_carry x y =
    match x with
    | XI p ->
      (match y with
       | XI q -> XI (add_carry p q)
       | XO q -> XO (add_carry p q)
       | XH -> XI (succ p))
    | XO p ->
      (match y with
       | XI q -> XO (add_carry p q)
       | XO q -> XI (add p q)
       | XH -> XO (succ p))
    | XH ->
      (match y with
       | XI q -> XI (succ q)
       | XO q -> XO (succ q)
       | XH -> XI XH)

  (** val pred_double : positive -> positive **)

  let rec pred_double = function
  | XI p -> XI (XO p)
  | XO p -> XI (pred_double p)
  | XH -> XH

  (** val pred_N : positive -> n **)

  let pred_N = function
  | XI p -> Npos (XO p)
  | XO p -> Npos (pred_double p)
  | XH -> N0

  type mask = Pos.mask =
  | IsNul
  | IsPos of positive
  | IsNeg

  (** val succ_double_mask : mask -> mask **)

  let succ_double_mask = function
  | IsNul -> IsPos XH
  | IsPos p -> IsPos (XI p)
  | IsNeg -> IsNeg

  (** val double_mask : mask -> mask **)

  let double_mask = function
  | IsPos p -> IsPos (XO p)
  | x0 -> x0

  (** val double_pred_mask : positive -> mask **)

  let double_pred_mask = function
  | XI p -> IsPos (XO (XO p))
  | XO p -> IsPos (XO (pred_double p))
  | XH -> IsNul

  (** val sub_mask : positive -> positive -> mask **)

  let rec sub_mask x y =
    match x with
    | XI p ->
      (match y with
       | XI q -> double_mask (sub_mask p q)
       | XO q -> succ_double_mask (sub_mask p q)
       | XH -> IsPos (XO p))
    | XO p ->
      (match y with
       | XI q -> succ_double_mask (sub_mask_carry p q)
       | XO q -> double_mask (sub_mask p q)
       | XH -> IsPos (pred_double p))
    | XH -> (match y with
             | XH -> IsNul
             | _ -> IsNeg)

  (** val sub_mask_carry : positive -> positive -> mask **)

  and sub_mask_carry x y =
    match x with
    | XI p ->
      (match y with
       | XI q -> succ_double_mask (sub_mask_carry p q)
       | XO q -> double_mask (sub_mask p q)
       | XH -> IsPos (pred_double p))
    | XO p ->
      (match y with
       | XI q -> double_mask (sub_mask_carry p q)
       | XO q -> succ_double_mask (sub_mask_carry p q)
       | XH -> double_pred_mask p)
    | XH -> IsNeg

  (** val mul : positive -> positive -> positive **)

  let rec mul x y =
    match x with
    | XI p -> add y (XO (mul p y))
    | XO p -> XO (mul p y)
    | XH -> y

  (** val iter : ('a1 -> 'a1) -> 'a1 -> positive -> 'a1 **)

  let rec iter f x = function
  | XI n' -> f (iter f (iter f x n') n')
  | XO n' -> iter f (iter f x n') n'
  | XH -> f x

  (** val compare_cont : comparison -> positive -> positive -> comparison **)

  let rec compare_cont r x y =
    match x with
    | XI p ->
      (match y with
       | XI q -> compare_cont r p q
       | XO q -> compare_cont Gt p q
       | XH -> Gt)
    | XO p ->
      (match y with
       | XI q -> compare_cont Lt p q
       | XO q -> compare_cont r p q
       | XH -> Gt)
    | XH -> (match y with
             | XH -> r
             | _ -> Lt)

  (** val compare : positive -> positive -> comparison **)

  let compare =
    compare_cont Eq

  (** val eqb : positive -> positive -> bool **)

  let rec eqb p q =
    match p with
    | XI p0 -> (match q with
                | XI q0 -> eqb p0 q0
                | _ -> false)
    | XO p0 -> (match q with
                | XO q0 -> eqb p0 q0
                | _ -> false)
    | XH -> (match q with
             | XH -> true
             | _ -> false)

  (** val coq_Nsucc_double : n -> n **)

  let coq_Nsucc_double = function
  | N0 -> Npos XH
  | Npos p -> Npos (XI p)

  (** val coq_Ndouble : n -> n **)

  let coq_Ndouble = function
  | N0 -> N0
  | Npos p -> Npos (XO p)

  (** val coq_land : positive -> positive -> n **)

  let rec coq_land p q =
    match p with
    | XI p0 ->
      (match q with
       | XI q0 -> coq_Nsucc_double (coq_land p0 q0)
       | XO q0 -> coq_Ndouble (coq_land p0 q0)
       | XH -> Npos XH)
    | XO p0 ->
      (match q with
       | XI q0 -> coq_Ndouble (coq_land p0 q0)
       | XO q0 -> coq_Ndouble (coq_land p0 q0)
       | XH -> N0)
    | XH -> (match q with
             | XO _ -> N0
             | _ -> Npos XH)

  (** val coq_lxor : positive -> positive -> n **)

  let rec coq_lxor p q =
    match p with
    | XI p0 ->
      (match q with
       | XI q0 -> coq_Ndouble (coq_lxor p0 q0)
       | XO q0 -> coq_Nsucc_double (coq_lxor p0 q0)
       | XH -> Npos (XO p0))
    | XO p0 ->
      (match q with
       | XI q0 -> coq_Nsucc_double (coq_lxor p0 q0)
       | XO q0 -> coq_Ndouble (coq_lxor p0 q0)
       | XH -> Npos (XI p0))
    | XH ->
      (match q with
       | XI q0 -> Npos (XO q0)
       | XO q0 -> Npos (XI q0)
       | XH -> N0)

  (** val shiftl : positive -> n -> positive **)

  let shiftl p = function
  | N0 -> p
  | Npos n1 -> iter (fun x -> XO x) p n1

  (** val testbit : positive -> n -> bool **)

  let rec testbit p n0 =
    match p with
    | XI p0 -> (match n0 with
                | N0 -> true
                | Npos n1 -> testbit p0 (pred_N n1))
    | XO p0 -> (match n0 with
                | N0 -> false
                | Npos n1 -> testbit p0 (pred_N n1))
    | XH -> (match n0 with
             | N0 -> true
             | Npos _ -> false)

  (** val to_little_uint : positive -> uint **)

  let rec to_little_uint = function
  | XI p0 -> Little.succ_double (to_little_uint p0)
  | XO p0 -> Little.double (to_little_uint p0)
  | XH -> D1 Nil

  (** val to_uint : positive -> uint **)

  let to_uint p =
    rev (to_little_uint p)

  (** val eq_dec : positive -> positive -> bool **)

  let rec eq_dec p x0 =
    match p with
    | XI p0 -> (match x0 with
                | XI p1 -> eq_dec p0 p1
                | _ -> false)
    | XO p0 -> (match x0 with
                | XO p1 -> eq_dec p0 p1
                | _ -> false)
    | XH -> (match x0 with
             | XH -> true
             | _ -> false)
 end

module N =
 struct
  (** val add : n -> n -> n **)

  let add n0 m =
    match n0 with
    | N0 -> m
    | Npos p -> (match m with
                 | N0 -> n0
                 | Npos q -> Npos (Coq_Pos.add p q))

  (** val sub : n -> n -> n **)

  let sub n0 m =
    match n0 with
    | N0 -> N0
    | Npos n' ->
      (match m with
       | N0 -> n0
       | Npos m' ->
         (match Coq_Pos.sub_mask n' m' with
          | Coq_Pos.IsPos p -> Npos p
          | _ -> N0))

  (** val mul : n -> n -> n **)

  let mul n0 m =
    match n0 with
    | N0 -> N0
    | Npos p -> (match m with
                 | N0 -> N0
                 | Npos q -> Npos (Coq_Pos.mul p q))

  (** val compare : n -> n -> comparison **)

  let compare n0 m =
    match n0 with
    | N0 -> (match m with
             | N0 -> Eq
             | Npos _ -> Lt)
    | Npos n' -> (match m with
                  | N0 -> Gt
                  | Npos m' -> Coq_Pos.compare n' m')

  (** val eqb : n -> n -> bool **)

  let eqb n0 m =
    match n0 with
    | N0 -> (match m with
             | N0 -> true
             | Npos _ -> false)
    | Npos p -> (match m with
                 | N0 -> false
                 | Npos q -> Coq_Pos.eqb p q)

  (** val leb : n -> n -> bool **)

  let leb x y =
    match compare x y with
    | Gt -> false
    | _ -> true

  (** val ltb : n -> n -> bool **)

  let ltb x y =
    match compare x y with
    | Lt -> true
    | _ -> false

  (** val coq_land : n -> n -> n **)

  let coq_land n0 m =
    match n0 with
    | N0 -> N0
    | Npos p -> (match m with
                 | N0 -> N0
                 | Npos q -> Coq_Pos.coq_land p q)

  (** val coq_lxor : n -> n -> n **)

  let coq_lxor n0 m =
    match n0 with
    | N0 -> m
    | Npos p -> (match m with
                 | N0 -> n0
                 | Npos q -> Coq_Pos.coq_lxor p q)

  (** val shiftl : n -> n -> n **)

  let shiftl a n0 =
    match a with
    | N0 -> N0
    | Npos a0 -> Npos (Coq_Pos.shiftl a0 n0)

  (** val testbit : n -> n -> bool **)

  let testbit a n0 =
    match a with
    | N0 -> false
    | Npos p -> Coq_Pos.testbit p n0

  (** val to_uint : n -> uint **)

  let to_uint = function
  | N0 -> D0 Nil
  | Npos p -> Coq_Pos.to_uint p
 end

type ascii =
| Ascii of bool * bool * bool * bool * bool * bool * bool * bool

(** val n_of_digits : bool list -> n **)

let rec n_of_digits = function
| [] -> N0
| b :: l' ->
  N.add (if b then Npos XH else N0) (N.mul (Npos (XO XH)) (n_of_digits l'))

(** val n_of_ascii : ascii -> n **)

let n_of_ascii = function
| Ascii (a0, a1, a2, a3, a4, a5, a6, a7) ->
  n_of_digits
    (a0 :: (a1 :: (a2 :: (a3 :: (a4 :: (a5 :: (a6 :: (a7 :: []))))))))

(** val hd_error : 'a1 list -> 'a1 option **)

let hd_error = function
| [] -> None
| x :: _ -> Some x

(** val nth : nat -> 'a1 list -> 'a1 -> 'a1 **)

let rec nth n0 l default =
  match n0 with
  | O -> (match l with
          | [] -> default
          | x :: _ -> x)
  | S m -> (match l with
            | [] -> default
            | _ :: t0 -> nth m t0 default)

(** val nth_error : 'a1 list -> nat -> 'a1 option **)

let rec nth_error l = function
| O -> (match l with
        | [] -> None
        | x :: _ -> Some x)
| S n1 -> (match l with
           | [] -> None
           | _ :: l0 -> nth_error l0 n1)

(** val last : 'a1 list -> 'a1 -> 'a1 **)

let rec last l d =
  match l with
  | [] -> d
  | a :: l0 -> (match l0 with
                | [] -> a
                | _ :: _ -> last l0 d)

(** val removelast : 'a1 list -> 'a1 list **)

let rec removelast = function
| [] -> []
| a :: l0 -> (match l0 with
              | [] -> []
              | _ :: _ -> a :: (removelast l0))

(** val rev0 : 'a1 list -> 'a1 list **)

let rec rev0 = function
| [] -> []
| x :: l' -> app (rev0 l') (x :: [])

(** val map : ('a1 -> 'a2) -> 'a1 list -> 'a2 list **)

let rec map f = function
| [] -> []
| a :: t0 -> (f a) :: (map f t0)

(** val flat_map : ('a1 -> 'a2 list) -> 'a1 list -> 'a2 list **)

let rec flat_map f = function
| [] -> []
| x :: t0 -> app (f x) (flat_map f t0)

(** val fold_left : ('a1 -> 'a2 -> 'a1) -> 'a2 list -> 'a1 -> 'a1 **)

let rec fold_left f l a0 =
  match l with
  | [] -> a0
  | b :: t0 -> fold_left f t0 (f a0 b)

(** val fold_right : ('a2 -> 'a1 -> 'a1) -> 'a1 -> 'a2 list -> 'a1 **)

let rec fold_right f a0 = function
| [] -> a0
| b :: t0 -> f b (fold_right f a0 t0)

(** val existsb : ('a1 -> bool) -> 'a1 list -> bool **)

let rec existsb f = function
| [] -> false
| a :: l0 -> (||) (f a) (existsb f l0)

(** val forallb : ('a1 -> bool) -> 'a1 list -> bool **)

let rec forallb f = function
| [] -> true
| a :: l0 -> (&&) (f a) (forallb f l0)

(** val filter : ('a1 -> bool) -> 'a1 list -> 'a1 list **)

let rec filter f = function
| [] -> []
| x :: l0 -> if f x then x :: (filter f l0) else filter f l0

(** val combine : 'a1 list -> 'a2 list -> ('a1 * 'a2) list **)

let rec combine l l' =
  match l with
  | [] -> []
  | x :: tl ->
    (match l' with
     | [] -> []
     | y :: tl' -> (x, y) :: (combine tl tl'))

(** val firstn : nat -> 'a1 list -> 'a1 list **)

let rec firstn n0 l =
  match n0 with
  | O -> []
  | S n1 -> (match l with
             | [] -> []
             | a :: l0 -> a :: (firstn n1 l0))

(** val skipn : nat -> 'a1 list -> 'a1 list **)

let rec skipn n0 l =
  match n0 with
  | O -> l
  | S n1 -> (match l with
             | [] -> []
             | _ :: l0 -> skipn n1 l0)

(** val seq : nat -> nat -> nat list **)

let rec seq start = function
| O -> []
| S len0 -> start :: (seq (S start) len0)

module Z =
 struct
  (** val compare : z -> z -> comparison **)

  let compare x y =
    match x with
    | Z0 -> (match y with
             | Z0 -> Eq
             | Zpos _ -> Lt
             | Zneg _ -> Gt)
    | Zpos x' -> (match y with
                  | Zpos y' -> Coq_Pos.compare x' y'
                  | _ -> Gt)
    | Zneg x' ->
      (match y with
       | Zneg y' -> compOpp (Coq_Pos.compare x' y')
       | _ -> Lt)

  (** val leb : z -> z -> bool **)

  let leb x y =
    match compare x y with
    | Gt -> false
    | _ -> true

  (** val ltb : z -> z -> bool **)

  let ltb x y =
    match compare x y with
    | Lt -> true
    | _ -> false

  (** val gtb : z -> z -> bool **)

  let gtb x y =
    match compare x y with
    | Gt -> true
    | _ -> false

  (** val eqb : z -> z -> bool **)

  let eqb x y =
    match x with
    | Z0 -> (match y with
             | Z0 -> true
             | _ -> false)
    | Zpos p -> (match y with
                 | Zpos q -> Coq_Pos.eqb p q
                 | _ -> false)
    | Zneg p -> (match y with
                 | Zneg q -> Coq_Pos.eqb p q
                 | _ -> false)

  (** val max : z -> z -> z **)

  let max n0 m =
    match compare n0 m with
    | Lt -> m
    | _ -> n0

  (** val of_N : n -> z **)

  let of_N = function
  | N0 -> Z0
  | Npos p -> Zpos p

  (** val eq_dec : z -> z -> bool **)

  let eq_dec x y =
    match x with
    | Z0 -> (match y with
             | Z0 -> true
             | _ -> false)
    | Zpos p -> (match y with
                 | Zpos p0 -> Coq_Pos.eq_dec p p0
                 | _ -> false)
    | Zneg p -> (match y with
                 | Zneg p0 -> Coq_Pos.eq_dec p p0
                 | _ -> false)
 end

type string =
| EmptyString
| String of ascii * string

type text = n list

(** val bytes_of_string : string -> text **)

let rec bytes_of_string = function
| EmptyString -> []
| String (c, r) -> (n_of_ascii c) :: (bytes_of_string r)

(** val txt : string -> text **)

let txt =
  bytes_of_string

(** val uint_bytes : uint -> text **)

let rec uint_bytes = function
| Nil -> []
| D0 r -> (Npos (XO (XO (XO (XO (XI XH)))))) :: (uint_bytes r)
| D1 r -> (Npos (XI (XO (XO (XO (XI XH)))))) :: (uint_bytes r)
| D2 r -> (Npos (XO (XI (XO (XO (XI XH)))))) :: (uint_bytes r)
| D3 r -> (Npos (XI (XI (XO (XO (XI XH)))))) :: (uint_bytes r)
| D4 r -> (Npos (XO (XO (XI (XO (XI XH)))))) :: (uint_bytes r)
| D5 r -> (Npos (XI (XO (XI (XO (XI XH)))))) :: (uint_bytes r)
| D6 r -> (Npos (XO (XI (XI (XO (XI XH)))))) :: (uint_bytes r)
| D7 r -> (Npos (XI (XI (XI (XO (XI XH)))))) :: (uint_bytes r)
| D8 r -> (Npos (XO (XO (XO (XI (XI XH)))))) :: (uint_bytes r)
| D9 r -> (Npos (XI (XO (XO (XI (XI XH)))))) :: (uint_bytes r)

(** val dec_N : n -> text **)

let dec_N n0 =
  uint_bytes (N.to_uint n0)

(** val dec_Z : z -> text **)

let dec_Z = function
| Z0 -> (Npos (XO (XO (XO (XO (XI XH)))))) :: []
| Zpos p -> dec_N (Npos p)
| Zneg p -> (Npos (XI (XO (XI (XI (XO XH)))))) :: (dec_N (Npos p))

(** val is_digit : n -> bool **)

let is_digit c =
  (&&) (N.leb (Npos (XO (XO (XO (XO (XI XH)))))) c)
    (N.leb c (Npos (XI (XO (XO (XI (XI XH)))))))

(** val text_eqb : text -> text -> bool **)

let rec text_eqb a b =
  match a with
  | [] -> (match b with
           | [] -> true
           | _ :: _ -> false)
  | x :: a' ->
    (match b with
     | [] -> false
     | y :: b' -> (&&) (N.eqb x y) (text_eqb a' b'))

(** val join : text -> text list -> text **)

let rec join sep = function
| [] -> []
| x :: r -> (match r with
             | [] -> x
             | _ :: _ -> app x (app sep (join sep r)))

type semver = { major : n; minor : n; patch : n }

(** val u32_max : n **)

let u32_max =
  Npos (XI (XI (XI (XI (XI (XI (XI (XI (XI (XI (XI (XI (XI (XI (XI (XI (XI
    (XI (XI (XI (XI (XI (XI (XI (XI (XI (XI (XI (XI (XI (XI
    XH)))))))))))))))))))))))))))))))

(** val in_u32 : n -> bool **)

let in_u32 n0 =
  N.leb n0 u32_max

(** val sv_display : semver -> text **)

let sv_display v =
  app (dec_N v.major)
    (app ((Npos (XO (XI (XI (XI (XO XH)))))) :: [])
      (app (dec_N v.minor)
        (app ((Npos (XO (XI (XI (XI (XO XH)))))) :: []) (dec_N v.patch))))

(** val split_dot_aux : text -> text -> text list **)

let rec split_dot_aux cur = function
| [] -> (rev0 cur) :: []
| c :: r ->
  if N.eqb c (Npos (XO (XI (XI (XI (XO XH))))))
  then (rev0 cur) :: (split_dot_aux [] r)
  else split_dot_aux (c :: cur) r

(** val split_dot : text -> text list **)

let split_dot s =
  split_dot_aux [] s

type int_err =
| IEmpty
| IInvalidDigit
| IPosOverflow

(** val parse_digits : n -> text -> (n, int_err) sum **)

let rec parse_digits acc = function
| [] -> Inl acc
| c :: r ->
  if is_digit c
  then let acc' =
         N.add (N.mul acc (Npos (XO (XI (XO XH)))))
           (N.sub c (Npos (XO (XO (XO (XO (XI XH)))))))
       in
       if in_u32 acc' then parse_digits acc' r else Inr IPosOverflow
  else Inr IInvalidDigit

(** val parse_u32 : text -> (n, int_err) sum **)

let parse_u32 s = match s with
| [] -> Inr IEmpty
| c :: r ->
  (match r with
   | [] ->
     if (||) (N.eqb c (Npos (XI (XI (XO (XI (XO XH)))))))
          (N.eqb c (Npos (XI (XO (XI (XI (XO XH)))))))
     then Inr IInvalidDigit
     else parse_digits N0 s
   | _ :: _ ->
     if N.eqb c (Npos (XI (XI (XO (XI (XO XH))))))
     then parse_digits N0 r
     else parse_digits N0 s)

type sv_parse_result =
| ParseOk of semver
| NotThreeParts of text
| ParseIntError of text * text * int_err

(** val sv_parse : text -> sv_parse_result **)

let sv_parse s =
  match split_dot s with
  | [] -> NotThreeParts s
  | a :: l ->
    (match l with
     | [] -> NotThreeParts s
     | b :: l0 ->
       (match l0 with
        | [] -> NotThreeParts s
        | c :: l1 ->
          (match l1 with
           | [] ->
             (match parse_u32 a with
              | Inl ma ->
                (match parse_u32 b with
                 | Inl mi ->
                   (match parse_u32 c with
                    | Inl pa0 ->
                      ParseOk { major = ma; minor = mi; patch = pa0 }
                    | Inr e -> ParseIntError (s, c, e))
                 | Inr e -> ParseIntError (s, b, e))
              | Inr e -> ParseIntError (s, a, e))
           | _ :: _ -> NotThreeParts s)))

(** val sv_compare : semver -> semver -> comparison **)

let sv_compare u v =
  match N.compare u.major v.major with
  | Eq ->
    (match N.compare u.minor v.minor with
     | Eq -> N.compare u.patch v.patch
     | x -> x)
  | x -> x

(** val sv_to_tuple : semver -> (n * n) * n **)

let sv_to_tuple v =
  ((v.major, v.minor), v.patch)

(** val sv_of_tuple : ((n * n) * n) -> semver **)

let sv_of_tuple = function
| (p, c) -> let (a, b) = p in { major = a; minor = b; patch = c }

(** val bump_patch : semver -> semver option **)

let bump_patch v =
  if N.ltb v.patch u32_max
  then Some { major = v.major; minor = v.minor; patch =
         (N.add v.patch (Npos XH)) }
  else None

(** val bump_minor : semver -> semver option **)

let bump_minor v =
  if N.ltb v.minor u32_max
  then Some { major = v.major; minor = (N.add v.minor (Npos XH)); patch = N0 }
  else None

(** val bump_major : semver -> semver option **)

let bump_major v =
  if N.ltb v.major u32_max
  then Some { major = (N.add v.major (Npos XH)); minor = N0; patch = N0 }
  else None

type ('vS, 'vr) vSReq = { rq_eqb : ('vS -> 'vS -> bool); rq_empty : 'vS;
                          rq_singleton : ('vr -> 'vS);
                          rq_complement : ('vS -> 'vS);
                          rq_intersection : ('vS -> 'vS -> 'vS);
                          rq_contains : ('vS -> 'vr -> bool) }

type ('vS, 'vr) vSOps = { vs_eqb : ('vS -> 'vS -> bool); vs_empty : 'vS;
                          vs_singleton : ('vr -> 'vS);
                          vs_complement : ('vS -> 'vS);
                          vs_intersection : ('vS -> 'vS -> 'vS);
                          vs_contains : ('vS -> 'vr -> bool); vs_full : 
                          'vS; vs_union : ('vS -> 'vS -> 'vS);
                          vs_is_disjoint : ('vS -> 'vS -> bool);
                          vs_subset_of : ('vS -> 'vS -> bool) }

(** val full_default : ('a1, 'a2) vSReq -> 'a1 **)

let full_default r =
  r.rq_complement r.rq_empty

(** val union_default : ('a1, 'a2) vSReq -> 'a1 -> 'a1 -> 'a1 **)

let union_default r a b =
  r.rq_complement (r.rq_intersection (r.rq_complement a) (r.rq_complement b))

(** val is_disjoint_default : ('a1, 'a2) vSReq -> 'a1 -> 'a1 -> bool **)

let is_disjoint_default r a b =
  r.rq_eqb (r.rq_intersection a b) r.rq_empty

(** val subset_of_default : ('a1, 'a2) vSReq -> 'a1 -> 'a1 -> bool **)

let subset_of_default r a b =
  r.rq_eqb a (r.rq_intersection a b)

(** val with_defaults : ('a1, 'a2) vSReq -> ('a1, 'a2) vSOps **)

let with_defaults r =
  { vs_eqb = r.rq_eqb; vs_empty = r.rq_empty; vs_singleton = r.rq_singleton;
    vs_complement = r.rq_complement; vs_intersection = r.rq_intersection;
    vs_contains = r.rq_contains; vs_full = (full_default r); vs_union =
    (union_default r); vs_is_disjoint = (is_disjoint_default r);
    vs_subset_of = (subset_of_default r) }

type v8 =
| V0
| V1
| V2
| V3
| V4
| V5
| V6
| V7

(** val v8_idx : v8 -> n **)

let v8_idx = function
| V0 -> N0
| V1 -> Npos XH
| V2 -> Npos (XO XH)
| V3 -> Npos (XI XH)
| V4 -> Npos (XO (XO XH))
| V5 -> Npos (XI (XO XH))
| V6 -> Npos (XO (XI XH))
| V7 -> Npos (XI (XI XH))

(** val v8_of_N : n -> v8 **)

let v8_of_N = function
| N0 -> V0
| Npos p ->
  (match p with
   | XI p0 ->
     (match p0 with
      | XI _ -> V7
      | XO p1 -> (match p1 with
                  | XH -> V5
                  | _ -> V7)
      | XH -> V3)
   | XO p0 ->
     (match p0 with
      | XI p1 -> (match p1 with
                  | XH -> V6
                  | _ -> V7)
      | XO p1 -> (match p1 with
                  | XH -> V4
                  | _ -> V7)
      | XH -> V2)
   | XH -> V1)

(** val all_v8 : v8 list **)

let all_v8 =
  V0 :: (V1 :: (V2 :: (V3 :: (V4 :: (V5 :: (V6 :: (V7 :: [])))))))

(** val bs_mask : n **)

let bs_mask =
  Npos (XI (XI (XI (XI (XI (XI (XI XH)))))))

(** val bitset_req : (n, v8) vSReq **)

let bitset_req =
  { rq_eqb = N.eqb; rq_empty = N0; rq_singleton = (fun v ->
    N.shiftl (Npos XH) (v8_idx v)); rq_complement = (fun a ->
    N.coq_lxor a bs_mask); rq_intersection = N.coq_land; rq_contains =
    (fun a v -> N.testbit a (v8_idx v)) }

(** val bitset_vs : (n, v8) vSOps **)

let bitset_vs =
  with_defaults bitset_req

type 't bound =
| Incl of 't
| Excl of 't
| Unb

module RangeM =
 functor (V:UsualOrderedTypeFull) ->
 struct
  type ver = V.t

  type bnd = V.t bound

  type seg = bnd * bnd

  type range = seg list

  (** val vltb : ver -> ver -> bool **)

  let vltb a b =
    match V.compare a b with
    | Lt -> true
    | _ -> false

  (** val vleb : ver -> ver -> bool **)

  let vleb a b =
    match V.compare a b with
    | Gt -> false
    | _ -> true

  (** val veqb : ver -> ver -> bool **)

  let veqb a b =
    match V.compare a b with
    | Eq -> true
    | _ -> false

  (** val vmax : ver -> ver -> ver **)

  let vmax a b =
    if vleb a b then b else a

  (** val empty : range **)

  let empty =
    []

  (** val full : range **)

  let full =
    (Unb, Unb) :: []

  (** val higher_than : ver -> range **)

  let higher_than v =
    ((Incl v), Unb) :: []

  (** val strictly_higher_than : ver -> range **)

  let strictly_higher_than v =
    ((Excl v), Unb) :: []

  (** val strictly_lower_than : ver -> range **)

  let strictly_lower_than v =
    (Unb, (Excl v)) :: []

  (** val lower_than : ver -> range **)

  let lower_than v =
    (Unb, (Incl v)) :: []

  (** val between : ver -> ver -> range **)

  let between v1 v2 =
    ((Incl v1), (Excl v2)) :: []

  (** val singleton : ver -> range **)

  let singleton v =
    ((Incl v), (Incl v)) :: []

  (** val is_empty : range -> bool **)

  let is_empty = function
  | [] -> true
  | _ :: _ -> false

  (** val valid_segment : bnd -> bnd -> bool **)

  let valid_segment s e =
    match s with
    | Incl s0 ->
      (match e with
       | Incl e0 -> vleb s0 e0
       | Excl e0 -> vltb s0 e0
       | Unb -> true)
    | Excl s0 ->
      (match e with
       | Incl e0 -> vltb s0 e0
       | Excl e0 -> vltb s0 e0
       | Unb -> true)
    | Unb -> true

  (** val end_before_start_with_gap : bnd -> bnd -> bool **)

  let end_before_start_with_gap e s =
    match e with
    | Incl l ->
      (match s with
       | Incl r -> vltb l r
       | Excl r -> vltb l r
       | Unb -> false)
    | Excl l ->
      (match s with
       | Incl r -> vltb l r
       | Excl r -> vleb l r
       | Unb -> false)
    | Unb -> false

  (** val left_start_is_smaller : bnd -> bnd -> bool **)

  let left_start_is_smaller l r =
    match l with
    | Incl l0 ->
      (match r with
       | Incl r0 -> vleb l0 r0
       | Excl r0 -> vleb l0 r0
       | Unb -> false)
    | Excl l0 ->
      (match r with
       | Incl r0 -> vltb l0 r0
       | Excl r0 -> vleb l0 r0
       | Unb -> false)
    | Unb -> true

  (** val left_end_is_smaller : bnd -> bnd -> bool **)

  let left_end_is_smaller l r =
    match l with
    | Incl l0 ->
      (match r with
       | Incl r0 -> vleb l0 r0
       | Excl r0 -> vltb l0 r0
       | Unb -> true)
    | Excl l0 ->
      (match r with
       | Incl r0 -> vleb l0 r0
       | Excl r0 -> vleb l0 r0
       | Unb -> true)
    | Unb -> (match r with
              | Unb -> true
              | _ -> false)

  (** val within_bounds : ver -> seg -> comparison **)

  let within_bounds v sg =
    let below_lower =
      match fst sg with
      | Incl s -> vltb v s
      | Excl s -> vleb v s
      | Unb -> false
    in
    if below_lower
    then Lt
    else let below_upper =
           match snd sg with
           | Incl e -> vleb v e
           | Excl e -> vltb v e
           | Unb -> true
         in
         if below_upper then Eq else Gt

  (** val cmp_bounds_start : bnd -> bnd -> comparison **)

  let cmp_bounds_start l r =
    match l with
    | Incl l0 ->
      (match r with
       | Incl r0 -> V.compare l0 r0
       | Excl r0 -> (match V.compare l0 r0 with
                     | Eq -> Lt
                     | x -> x)
       | Unb -> Gt)
    | Excl l0 ->
      (match r with
       | Incl r0 -> (match V.compare l0 r0 with
                     | Eq -> Gt
                     | x -> x)
       | Excl r0 -> V.compare l0 r0
       | Unb -> Gt)
    | Unb -> (match r with
              | Unb -> Eq
              | _ -> Lt)

  (** val cmp_bounds_end : bnd -> bnd -> comparison **)

  let cmp_bounds_end l r =
    match l with
    | Incl l0 ->
      (match r with
       | Incl r0 -> V.compare l0 r0
       | Excl r0 -> (match V.compare l0 r0 with
                     | Eq -> Gt
                     | x -> x)
       | Unb -> Lt)
    | Excl l0 ->
      (match r with
       | Incl r0 -> (match V.compare l0 r0 with
                     | Eq -> Lt
                     | x -> x)
       | Excl r0 -> V.compare l0 r0
       | Unb -> Lt)
    | Unb -> (match r with
              | Unb -> Eq
              | _ -> Gt)

  (** val acc_end : bnd -> bnd -> bnd **)

  let acc_end a s =
    match a with
    | Incl l ->
      (match s with
       | Incl r -> if veqb l r then a else if vltb r l then a else s
       | Excl r -> if veqb l r then a else if vltb r l then a else s
       | Unb -> Unb)
    | Excl l ->
      (match s with
       | Incl r -> if vltb r l then a else s
       | Excl r -> if vltb r l then a else s
       | Unb -> Unb)
    | Unb -> Unb

  (** val inter_start : bnd -> bnd -> bnd **)

  let inter_start l r =
    match l with
    | Incl i ->
      (match r with
       | Incl r0 -> Incl (vmax i r0)
       | Excl e -> if vleb i e then Excl e else Incl i
       | Unb -> l)
    | Excl e ->
      (match r with
       | Incl i -> if vleb i e then Excl e else Incl i
       | Excl r0 -> Excl (vmax e r0)
       | Unb -> l)
    | Unb -> (match r with
              | Unb -> l
              | _ -> r)

  (** val flip : bnd -> bnd **)

  let flip = function
  | Incl v -> Excl v
  | Excl v -> Incl v
  | Unb -> Unb

  (** val negate_segments : bnd -> range -> range **)

  let rec negate_segments start = function
  | [] -> (match start with
           | Unb -> []
           | _ -> (start, Unb) :: [])
  | s :: rest ->
    let (v1, v2) = s in (start, (flip v1)) :: (negate_segments (flip v2) rest)

  (** val complement : range -> range **)

  let complement r = match r with
  | [] -> full
  | s :: rest ->
    let (b, b0) = s in
    (match b with
     | Incl v ->
       (match b0 with
        | Unb -> strictly_lower_than v
        | _ -> negate_segments Unb r)
     | Excl v ->
       (match b0 with
        | Unb -> lower_than v
        | _ -> negate_segments Unb r)
     | Unb ->
       (match b0 with
        | Incl v -> negate_segments (Excl v) rest
        | Excl v -> negate_segments (Incl v) rest
        | Unb -> empty))

  (** val merge : range -> range -> range **)

  let rec merge l r =
    match l with
    | [] -> r
    | x :: l' ->
      let rec aux r0 = match r0 with
      | [] -> l
      | y :: r' ->
        if left_start_is_smaller (fst x) (fst y)
        then x :: (merge l' r0)
        else y :: (aux r')
      in aux r

  (** val coalesce : seg -> range -> range **)

  let rec coalesce acc = function
  | [] -> acc :: []
  | s :: rest' ->
    if end_before_start_with_gap (snd acc) (fst s)
    then acc :: (coalesce s rest')
    else coalesce ((fst acc), (acc_end (snd acc) (snd s))) rest'

  (** val union : range -> range -> range **)

  let union a b =
    match merge a b with
    | [] -> []
    | s :: rest -> coalesce s rest

  (** val inter_emit : bnd -> bnd -> bnd -> bnd -> range **)

  let inter_emit other_start e ls rs =
    if valid_segment other_start e then ((inter_start ls rs), e) :: [] else []

  (** val intersection : range -> range -> range **)

  let rec intersection l r =
    match l with
    | [] -> []
    | s :: l' ->
      let (ls, le) = s in
      let rec aux r0 = match r0 with
      | [] -> []
      | s0 :: r' ->
        let (rs, re) = s0 in
        if left_end_is_smaller le re
        then app (inter_emit rs le ls rs) (intersection l' r0)
        else app (inter_emit ls re ls rs) (aux r')
      in aux r

  (** val is_disjoint : range -> range -> bool **)

  let rec is_disjoint l r =
    match l with
    | [] -> true
    | s :: l' ->
      let (ls, le) = s in
      let rec aux r0 = match r0 with
      | [] -> true
      | s0 :: r' ->
        let (rs, re) = s0 in
        if negb (valid_segment rs le)
        then is_disjoint l' r0
        else if negb (valid_segment ls re) then aux r' else false
      in aux r

  (** val advance : bnd -> seg -> range -> (seg * range) option **)

  let rec advance sstart c cs =
    if valid_segment sstart (snd c)
    then Some (c, cs)
    else (match cs with
          | [] -> None
          | c' :: cs' -> advance sstart c' cs')

  (** val subset_loop : range -> seg -> range -> bool **)

  let rec subset_loop sub0 c cs =
    match sub0 with
    | [] -> true
    | s :: sub' ->
      (match advance (fst s) c cs with
       | Some p ->
         let (c', cs') = p in
         if negb (left_start_is_smaller (fst c') (fst s))
         then false
         else if negb (left_end_is_smaller (snd s) (snd c'))
              then false
              else subset_loop sub' c' cs'
       | None -> false)

  (** val subset_of : range -> range -> bool **)

  let subset_of a = function
  | [] -> is_empty a
  | c :: cs -> subset_loop a c cs

  (** val cursor : ver -> range -> bool * range **)

  let rec cursor v segs = match segs with
  | [] -> (false, [])
  | s :: rest ->
    (match within_bounds v s with
     | Eq -> (true, segs)
     | Lt -> (false, segs)
     | Gt -> cursor v rest)

  (** val contains : range -> ver -> bool **)

  let contains r v =
    fst (cursor v r)

  (** val contains_many : range -> ver list -> bool list **)

  let rec contains_many segs = function
  | [] -> []
  | v :: vs' ->
    let (b, segs') = cursor v segs in b :: (contains_many segs' vs')

  (** val as_singleton : range -> ver option **)

  let as_singleton = function
  | [] -> None
  | s :: l ->
    let (b, b0) = s in
    (match b with
     | Incl v1 ->
       (match b0 with
        | Incl v2 ->
          (match l with
           | [] -> if veqb v1 v2 then Some v1 else None
           | _ :: _ -> None)
        | _ -> None)
     | _ -> None)

  (** val bounding_range : range -> (bnd * bnd) option **)

  let bounding_range r = match r with
  | [] -> None
  | s0 :: _ -> let (s, _) = s0 in Some (s, (snd (last r (Unb, Unb))))

  (** val from_range_bounds : bnd -> bnd -> range **)

  let from_range_bounds s e =
    if valid_segment s e then (s, e) :: [] else []

  (** val gaps_ok : range -> bool **)

  let rec gaps_ok = function
  | [] -> true
  | s1 :: rest ->
    (match rest with
     | [] -> true
     | s2 :: _ ->
       (&&) (end_before_start_with_gap (snd s1) (fst s2)) (gaps_ok rest))

  (** val check_invariants : range -> bool **)

  let check_invariants r =
    (&&) (gaps_ok r) (forallb (fun sg -> valid_segment (fst sg) (snd sg)) r)

  (** val loc_cursor : ver -> nat -> range -> (nat option * nat) * range **)

  let rec loc_cursor v i segs = match segs with
  | [] -> ((None, i), [])
  | s :: rest ->
    (match within_bounds v s with
     | Eq -> (((Some i), i), segs)
     | Lt -> ((None, i), segs)
     | Gt -> loc_cursor v (S i) rest)

  (** val version_locations : nat -> range -> ver list -> nat option list **)

  let rec version_locations i segs = function
  | [] -> []
  | v :: vs' ->
    let (p, segs') = loc_cursor v i segs in
    let (o, i') = p in o :: (version_locations i' segs' vs')

  type group = nat option * nat option

  (** val gal : group option -> nat option list -> group list **)

  let rec gal sg = function
  | [] ->
    (match sg with
     | Some g -> let (s, _) = g in (s, None) :: []
     | None -> [])
  | o :: rest ->
    (match o with
     | Some ver0 ->
       gal (Some
         ((match sg with
           | Some g -> let (s, _) = g in s
           | None -> Some ver0), (Some ver0))) rest
     | None ->
       (match sg with
        | Some g -> g :: (gal None rest)
        | None -> gal None rest))

  (** val group_adjacent_locations : nat option list -> group list **)

  let group_adjacent_locations = function
  | [] -> []
  | first :: rest ->
    gal
      (match first with
       | Some ver0 -> Some (None, (Some ver0))
       | None -> None) rest

  (** val keep_segments : range -> group list -> range **)

  let keep_segments r kept =
    map (fun g ->
      ((match fst g with
        | Some s -> fst (nth s r (Unb, Unb))
        | None -> Unb),
      (match snd g with
       | Some e -> snd (nth e r (Unb, Unb))
       | None -> Unb))) kept

  (** val simplify : range -> ver list -> range **)

  let simplify r vs =
    match as_singleton r with
    | Some _ -> r
    | None ->
      (match group_adjacent_locations (version_locations O r vs) with
       | [] -> r
       | g :: l -> keep_segments r (g :: l))

  (** val iter : range -> (bnd * bnd) list **)

  let iter r =
    r

  (** val range_cmp : range -> range -> comparison **)

  let rec range_cmp a b =
    match a with
    | [] -> (match b with
             | [] -> Eq
             | _ :: _ -> Lt)
    | s :: a' ->
      let (ls, le) = s in
      (match b with
       | [] -> Gt
       | s0 :: b' ->
         let (rs, re) = s0 in
         (match cmp_bounds_start ls rs with
          | Eq ->
            (match cmp_bounds_end le re with
             | Eq -> range_cmp a' b'
             | x -> x)
          | x -> x))

  (** val range_partial_cmp : range -> range -> comparison option **)

  let range_partial_cmp a b =
    Some (range_cmp a b)

  (** val bound_eqb : bnd -> bnd -> bool **)

  let bound_eqb a b =
    match a with
    | Incl x -> (match b with
                 | Incl y -> veqb x y
                 | _ -> false)
    | Excl x -> (match b with
                 | Excl y -> veqb x y
                 | _ -> false)
    | Unb -> (match b with
              | Unb -> true
              | _ -> false)

  (** val range_eqb : range -> range -> bool **)

  let rec range_eqb a b =
    match a with
    | [] -> (match b with
             | [] -> true
             | _ :: _ -> false)
    | s :: a' ->
      let (s1, e1) = s in
      (match b with
       | [] -> false
       | s0 :: b' ->
         let (s2, e2) = s0 in
         (&&) ((&&) (bound_eqb s1 s2) (bound_eqb e1 e2)) (range_eqb a' b'))

  type token =
  | TStar
  | TVer of ver
  | TLt of ver
  | TLe of ver
  | TGt of ver
  | TGe of ver

  (** val token_rect :
      'a1 -> (ver -> 'a1) -> (ver -> 'a1) -> (ver -> 'a1) -> (ver -> 'a1) ->
      (ver -> 'a1) -> token -> 'a1 **)

  let token_rect f f0 f1 f2 f3 f4 = function
  | TStar -> f
  | TVer v -> f0 v
  | TLt v -> f1 v
  | TLe v -> f2 v
  | TGt v -> f3 v
  | TGe v -> f4 v

  (** val token_rec :
      'a1 -> (ver -> 'a1) -> (ver -> 'a1) -> (ver -> 'a1) -> (ver -> 'a1) ->
      (ver -> 'a1) -> token -> 'a1 **)

  let token_rec f f0 f1 f2 f3 f4 = function
  | TStar -> f
  | TVer v -> f0 v
  | TLt v -> f1 v
  | TLe v -> f2 v
  | TGt v -> f3 v
  | TGe v -> f4 v

  (** val seg_tokens : seg -> token list **)

  let seg_tokens = function
  | (b0, b1) ->
    (match b0 with
     | Incl v ->
       (match b1 with
        | Incl b ->
          if veqb v b then (TVer v) :: [] else (TGe v) :: ((TLe b) :: [])
        | Excl b -> (TGe v) :: ((TLt b) :: [])
        | Unb -> (TGe v) :: [])
     | Excl v ->
       (match b1 with
        | Incl b -> (TGt v) :: ((TLe b) :: [])
        | Excl b -> (TGt v) :: ((TLt b) :: [])
        | Unb -> (TGt v) :: [])
     | Unb ->
       (match b1 with
        | Incl v -> (TLe v) :: []
        | Excl v -> (TLt v) :: []
        | Unb -> TStar :: []))

  (** val display_tokens : range -> token list list **)

  let display_tokens r =
    map seg_tokens r

  (** val display_seg : (ver -> text) -> seg -> text **)

  let display_seg show = function
  | (b0, b1) ->
    (match b0 with
     | Incl v ->
       (match b1 with
        | Incl b ->
          if veqb v b
          then show v
          else app
                 (txt (String ((Ascii (false, true, true, true, true, true,
                   false, false)), (String ((Ascii (true, false, true, true,
                   true, true, false, false)), EmptyString)))))
                 (app (show v)
                   (app
                     (txt (String ((Ascii (false, false, true, true, false,
                       true, false, false)), (String ((Ascii (false, false,
                       false, false, false, true, false, false)), (String
                       ((Ascii (false, false, true, true, true, true, false,
                       false)), (String ((Ascii (true, false, true, true,
                       true, true, false, false)), EmptyString)))))))))
                     (show b)))
        | Excl b ->
          app
            (txt (String ((Ascii (false, true, true, true, true, true, false,
              false)), (String ((Ascii (true, false, true, true, true, true,
              false, false)), EmptyString)))))
            (app (show v)
              (app
                (txt (String ((Ascii (false, false, true, true, false, true,
                  false, false)), (String ((Ascii (false, false, false,
                  false, false, true, false, false)), (String ((Ascii (false,
                  false, true, true, true, true, false, false)),
                  EmptyString))))))) (show b)))
        | Unb ->
          app
            (txt (String ((Ascii (false, true, true, true, true, true, false,
              false)), (String ((Ascii (true, false, true, true, true, true,
              false, false)), EmptyString))))) (show v))
     | Excl v ->
       (match b1 with
        | Incl b ->
          app
            (txt (String ((Ascii (false, true, true, true, true, true, false,
              false)), EmptyString)))
            (app (show v)
              (app
                (txt (String ((Ascii (false, false, true, true, false, true,
                  false, false)), (String ((Ascii (false, false, false,
                  false, false, true, false, false)), (String ((Ascii (false,
                  false, true, true, true, true, false, false)), (String
                  ((Ascii (true, false, true, true, true, true, false,
                  false)), EmptyString))))))))) (show b)))
        | Excl b ->
          app
            (txt (String ((Ascii (false, true, true, true, true, true, false,
              false)), EmptyString)))
            (app (show v)
              (app
                (txt (String ((Ascii (false, false, true, true, false, true,
                  false, false)), (String ((Ascii (false, false, false,
                  false, false, true, false, false)), (String ((Ascii (false,
                  false, true, true, true, true, false, false)),
                  EmptyString))))))) (show b)))
        | Unb ->
          app
            (txt (String ((Ascii (false, true, true, true, true, true, false,
              false)), EmptyString))) (show v))
     | Unb ->
       (match b1 with
        | Incl v ->
          app
            (txt (String ((Ascii (false, false, true, true, true, true,
              false, false)), (String ((Ascii (true, false, true, true, true,
              true, false, false)), EmptyString))))) (show v)
        | Excl v ->
          app
            (txt (String ((Ascii (false, false, true, true, true, true,
              false, false)), EmptyString))) (show v)
        | Unb ->
          txt (String ((Ascii (false, true, false, true, false, true, false,
            false)), EmptyString))))

  (** val display : (ver -> text) -> range -> text **)

  let display show r = match r with
  | [] ->
    txt (String ((Ascii (false, true, false, false, false, true, true,
      true)), (String ((Ascii (false, false, false, true, false, false,
      false, true)), (String ((Ascii (true, false, true, false, false, false,
      false, true)), EmptyString))))))
  | _ :: _ ->
    join
      (txt (String ((Ascii (false, false, false, false, false, true, false,
        false)), (String ((Ascii (false, false, true, true, true, true, true,
        false)), (String ((Ascii (false, false, false, false, false, true,
        false, false)), EmptyString))))))) (map (display_seg show) r)

  (** val render_token : (ver -> text) -> token -> text **)

  let render_token show = function
  | TStar ->
    txt (String ((Ascii (false, true, false, true, false, true, false,
      false)), EmptyString))
  | TVer v -> show v
  | TLt v ->
    app
      (txt (String ((Ascii (false, false, true, true, true, true, false,
        false)), EmptyString))) (show v)
  | TLe v ->
    app
      (txt (String ((Ascii (false, false, true, true, true, true, false,
        false)), (String ((Ascii (true, false, true, true, true, true, false,
        false)), EmptyString))))) (show v)
  | TGt v ->
    app
      (txt (String ((Ascii (false, true, true, true, true, true, false,
        false)), EmptyString))) (show v)
  | TGe v ->
    app
      (txt (String ((Ascii (false, true, true, true, true, true, false,
        false)), (String ((Ascii (true, false, true, true, true, true, false,
        false)), EmptyString))))) (show v)

  (** val render : (ver -> text) -> token list list -> text **)

  let render show tl = match tl with
  | [] ->
    txt (String ((Ascii (false, true, false, false, false, true, true,
      true)), (String ((Ascii (false, false, false, true, false, false,
      false, true)), (String ((Ascii (true, false, true, false, false, false,
      false, true)), EmptyString))))))
  | _ :: _ ->
    join
      (txt (String ((Ascii (false, false, false, false, false, true, false,
        false)), (String ((Ascii (false, false, true, true, true, true, true,
        false)), (String ((Ascii (false, false, false, false, false, true,
        false, false)), EmptyString)))))))
      (map (fun conj ->
        join
          (txt (String ((Ascii (false, false, true, true, false, true, false,
            false)), (String ((Ascii (false, false, false, false, false,
            true, false, false)), EmptyString)))))
          (map (render_token show) conj)) tl)

  (** val range_vs : (range, ver) vSOps **)

  let range_vs =
    { vs_eqb = range_eqb; vs_empty = empty; vs_singleton = singleton;
      vs_complement = complement; vs_intersection = intersection;
      vs_contains = contains; vs_full = full; vs_union = union;
      vs_is_disjoint = is_disjoint; vs_subset_of = subset_of }
 end

module ZV =
 struct
  type t = z

  (** val eq_dec : z -> z -> bool **)

  let eq_dec =
    Z.eq_dec

  (** val compare : z -> z -> comparison **)

  let compare =
    Z.compare
 end

module RZ = RangeM(ZV)

(** val rz_display : RZ.range -> text **)

let rz_display r =
  RZ.display dec_Z r

type 'vS term =
| Pos of 'vS
| Neg of 'vS

type relation =
| Satisfied
| Contradicted
| Inconclusive

(** val t_any : ('a1, 'a2) vSOps -> 'a1 term **)

let t_any o =
  Neg o.vs_empty

(** val t_empty : ('a1, 'a2) vSOps -> 'a1 term **)

let t_empty o =
  Pos o.vs_empty

(** val t_exact : ('a1, 'a2) vSOps -> 'a2 -> 'a1 term **)

let t_exact o v =
  Pos (o.vs_singleton v)

(** val t_is_positive : 'a1 term -> bool **)

let t_is_positive = function
| Pos _ -> true
| Neg _ -> false

(** val t_negate : 'a1 term -> 'a1 term **)

let t_negate = function
| Pos s -> Neg s
| Neg s -> Pos s

(** val t_contains : ('a1, 'a2) vSOps -> 'a1 term -> 'a2 -> bool **)

let t_contains o t0 v =
  match t0 with
  | Pos s -> o.vs_contains s v
  | Neg s -> negb (o.vs_contains s v)

(** val t_intersection :
    ('a1, 'a2) vSOps -> 'a1 term -> 'a1 term -> 'a1 term **)

let t_intersection o t0 u =
  match t0 with
  | Pos p ->
    (match u with
     | Pos r2 -> Pos (o.vs_intersection p r2)
     | Neg n0 -> Pos (o.vs_intersection (o.vs_complement n0) p))
  | Neg r1 ->
    (match u with
     | Pos p -> Pos (o.vs_intersection (o.vs_complement r1) p)
     | Neg r2 -> Neg (o.vs_union r1 r2))

(** val t_is_disjoint : ('a1, 'a2) vSOps -> 'a1 term -> 'a1 term -> bool **)

let t_is_disjoint o t0 u =
  match t0 with
  | Pos p ->
    (match u with
     | Pos r2 -> o.vs_is_disjoint p r2
     | Neg n0 -> o.vs_subset_of p n0)
  | Neg n0 -> (match u with
               | Pos p -> o.vs_subset_of p n0
               | Neg _ -> false)

(** val t_union : ('a1, 'a2) vSOps -> 'a1 term -> 'a1 term -> 'a1 term **)

let t_union o t0 u =
  match t0 with
  | Pos p ->
    (match u with
     | Pos r2 -> Pos (o.vs_union p r2)
     | Neg n0 -> Neg (o.vs_intersection (o.vs_complement p) n0))
  | Neg r1 ->
    (match u with
     | Pos p -> Neg (o.vs_intersection (o.vs_complement p) r1)
     | Neg r2 -> Neg (o.vs_intersection r1 r2))

(** val t_subset_of : ('a1, 'a2) vSOps -> 'a1 term -> 'a1 term -> bool **)

let t_subset_of o t0 u =
  match t0 with
  | Pos r1 ->
    (match u with
     | Pos r2 -> o.vs_subset_of r1 r2
     | Neg r2 -> o.vs_is_disjoint r1 r2)
  | Neg r1 -> (match u with
               | Pos _ -> false
               | Neg r2 -> o.vs_subset_of r2 r1)

(** val t_relation_with :
    ('a1, 'a2) vSOps -> 'a1 term -> 'a1 term -> relation **)

let t_relation_with o t0 other =
  if t_subset_of o other t0
  then Satisfied
  else if t_is_disjoint o t0 other then Contradicted else Inconclusive

(** val t_eqb : ('a1, 'a2) vSOps -> 'a1 term -> 'a1 term -> bool **)

let t_eqb o t0 u =
  match t0 with
  | Pos a -> (match u with
              | Pos b -> o.vs_eqb a b
              | Neg _ -> false)
  | Neg a -> (match u with
              | Pos _ -> false
              | Neg b -> o.vs_eqb a b)

type pkg = n

type 'vS depmap = (pkg * 'vS) list

type 'vS provider = (pkg * (z * 'vS depmap) list) list

(** val empty_provider : 'a1 provider **)

let empty_provider =
  []

(** val dm_insert : pkg -> 'a1 -> 'a1 depmap -> 'a1 depmap **)

let rec dm_insert q s = function
| [] -> (q, s) :: []
| p :: r ->
  let (q', s') = p in
  if N.eqb q q' then (q, s) :: r else (q', s') :: (dm_insert q s r)

(** val collect : (pkg * 'a1) list -> 'a1 depmap **)

let collect l =
  fold_left (fun m qs -> dm_insert (fst qs) (snd qs) m) l []

(** val inner_set :
    z -> 'a1 depmap -> (z * 'a1 depmap) list -> (z * 'a1 depmap) list **)

let rec inner_set v d l = match l with
| [] -> (v, d) :: []
| p :: r ->
  let (w, d') = p in
  (match Z.compare v w with
   | Eq -> (v, d) :: r
   | Lt -> (v, d) :: l
   | Gt -> (w, d') :: (inner_set v d r))

(** val inner_get : z -> (z * 'a1 depmap) list -> 'a1 depmap option **)

let rec inner_get v = function
| [] -> None
| p :: r -> let (w, d) = p in if Z.eqb v w then Some d else inner_get v r

(** val outer_get : pkg -> 'a1 provider -> (z * 'a1 depmap) list option **)

let rec outer_get p = function
| [] -> None
| p0 :: r -> let (p', l) = p0 in if N.eqb p p' then Some l else outer_get p r

(** val outer_set :
    pkg -> (z * 'a1 depmap) list -> 'a1 provider -> 'a1 provider **)

let rec outer_set p l = function
| [] -> (p, l) :: []
| p0 :: r ->
  let (p', l') = p0 in
  if N.eqb p p' then (p, l) :: r else (p', l') :: (outer_set p l r)

(** val add_dependencies :
    'a1 provider -> pkg -> z -> (pkg * 'a1) list -> 'a1 provider **)

let add_dependencies prov p v deps =
  let inner = match outer_get p prov with
              | Some l -> l
              | None -> [] in
  outer_set p (inner_set v (collect deps) inner) prov

(** val packages : 'a1 provider -> pkg list **)

let packages prov =
  map fst prov

(** val versions : 'a1 provider -> pkg -> z list option **)

let versions prov p =
  option_map (map fst) (outer_get p prov)

(** val dependencies : 'a1 provider -> pkg -> z -> 'a1 depmap option **)

let dependencies prov p v =
  match outer_get p prov with
  | Some l -> inner_get v l
  | None -> None

(** val choose_version :
    ('a1 -> z -> bool) -> 'a1 provider -> pkg -> 'a1 -> z option **)

let choose_version contains0 prov p s =
  match versions prov p with
  | Some vs -> hd_error (filter (contains0 s) (rev0 vs))
  | None -> None

(** val prioritize_count :
    ('a1 -> z -> bool) -> 'a1 provider -> pkg -> 'a1 -> nat **)

let prioritize_count contains0 prov p s =
  match versions prov p with
  | Some vs -> length (filter (contains0 s) vs)
  | None -> O

(** val priority_compare : nat -> nat -> comparison **)

let priority_compare a b =
  Nat.compare b a

type 'vS dependencies_result =
| Unavailable
| Available of 'vS depmap

(** val get_dependencies :
    'a1 provider -> pkg -> z -> 'a1 dependencies_result **)

let get_dependencies prov p v =
  match dependencies prov p v with
  | Some d -> Available d
  | None -> Unavailable

type 'vS op = (pkg * z) * (pkg * 'vS) list

(** val run : 'a1 op list -> 'a1 provider **)

let run ops =
  fold_left (fun prov o ->
    add_dependencies prov (fst (fst o)) (snd (fst o)) (snd o)) ops
    empty_provider

type 'i heap = ('i * z) list

(** val set_nth : nat -> 'a1 -> 'a1 list -> 'a1 list **)

let rec set_nth n0 a = function
| [] -> []
| x :: r -> (match n0 with
             | O -> a :: r
             | S n' -> x :: (set_nth n' a r))

(** val swap_pos : 'a1 heap -> nat -> nat -> 'a1 heap **)

let swap_pos h i j =
  match nth_error h i with
  | Some a ->
    (match nth_error h j with
     | Some b -> set_nth j a (set_nth i b h)
     | None -> h)
  | None -> h

(** val find_pos : ('a1 -> 'a1 -> bool) -> 'a1 -> 'a1 heap -> nat option **)

let rec find_pos ieqb p = function
| [] -> None
| p0 :: r ->
  let (q, _) = p0 in
  if ieqb p q then Some O else option_map (fun x -> S x) (find_pos ieqb p r)

(** val bubble_up : nat -> 'a1 heap -> nat -> ('a1 * z) -> 'a1 heap * nat **)

let rec bubble_up fuel h pos it =
  match fuel with
  | O -> ((set_nth pos it h), pos)
  | S f ->
    (match pos with
     | O -> ((set_nth pos it h), pos)
     | S _ ->
       let pp = Nat.div2 (sub pos (S O)) in
       (match nth_error h pp with
        | Some par ->
          if Z.ltb (snd par) (snd it)
          then bubble_up f (set_nth pos par h) pp it
          else ((set_nth pos it h), pos)
        | None -> ((set_nth pos it h), pos)))

(** val heapify : nat -> 'a1 heap -> nat -> 'a1 heap **)

let rec heapify fuel h i =
  match fuel with
  | O -> h
  | S f ->
    (match nth_error h i with
     | Some ei ->
       (match nth_error h (add (mul (S (S O)) i) (S O)) with
        | Some el ->
          let largest =
            if Z.gtb (snd el) (snd ei) then add (mul (S (S O)) i) (S O) else i
          in
          let largestp = if Z.gtb (snd el) (snd ei) then snd el else snd ei in
          let largest' =
            match nth_error h (add (mul (S (S O)) i) (S (S O))) with
            | Some er ->
              if Z.gtb (snd er) largestp
              then add (mul (S (S O)) i) (S (S O))
              else largest
            | None -> largest
          in
          if Nat.eqb largest' i
          then h
          else heapify f (swap_pos h i largest') largest'
        | None -> h)
     | None -> h)

(** val heap_push :
    ('a1 -> 'a1 -> bool) -> 'a1 heap -> 'a1 -> z -> 'a1 heap **)

let heap_push ieqb h p z0 =
  match find_pos ieqb p h with
  | Some pos ->
    let (h1, pos1) = bubble_up (S pos) h pos (p, z0) in
    heapify (S (length h1)) h1 pos1
  | None ->
    fst (bubble_up (S (length h)) (app h ((p, z0) :: [])) (length h) (p, z0))

(** val heap_pop : 'a1 heap -> (('a1 * z) * 'a1 heap) option **)

let heap_pop = function
| [] -> None
| e :: r ->
  (match r with
   | [] -> Some (e, [])
   | _ :: _ ->
     let h1 = (last r e) :: (removelast r) in
     Some (e, (heapify (S (length h1)) h1 O)))

type 'i hop =
| HPush of 'i * z
| HPop
| HClear

(** val heap_step :
    ('a1 -> 'a1 -> bool) -> 'a1 heap -> 'a1 hop -> 'a1 heap * ('a1 * z) option **)

let heap_step ieqb h = function
| HPush (p, z0) -> ((heap_push ieqb h p z0), None)
| HPop ->
  (match heap_pop h with
   | Some p -> let (e, h') = p in (h', (Some e))
   | None -> (h, None))
| HClear -> ([], None)

(** val heap_run :
    ('a1 -> 'a1 -> bool) -> 'a1 heap -> 'a1 hop list -> ('a1 * z) option list **)

let rec heap_run ieqb h = function
| [] -> []
| o :: r ->
  let (h', out) = heap_step ieqb h o in
  (match o with
   | HPop -> out :: (heap_run ieqb h' r)
   | _ -> heap_run ieqb h' r)

type pkg0 = n

type ('vS, 'vr) kind =
| KNotRoot of pkg0 * 'vr
| KNoVersions of pkg0 * 'vS
| KFromDep of pkg0 * 'vS * pkg0 * 'vS
| KDerived of nat * nat
| KCustom of pkg0 * 'vS * n

type ('vS, 'vr) incompat = { terms : (pkg0 * 'vS term) list;
                             ikind : ('vS, 'vr) kind }

(** val get : pkg0 -> (pkg0 * 'a1) list -> 'a1 option **)

let rec get p = function
| [] -> None
| p0 :: r -> let (q, a) = p0 in if N.eqb p q then Some a else get p r

(** val remove : pkg0 -> (pkg0 * 'a1) list -> (pkg0 * 'a1) list **)

let rec remove p = function
| [] -> []
| p0 :: r ->
  let (q, a) = p0 in if N.eqb p q then remove p r else (q, a) :: (remove p r)

(** val set : pkg0 -> 'a1 -> (pkg0 * 'a1) list -> (pkg0 * 'a1) list **)

let rec set p a = function
| [] -> (p, a) :: []
| p0 :: r ->
  let (q, b) = p0 in if N.eqb p q then (p, a) :: r else (q, b) :: (set p a r)

(** val not_root : ('a1, 'a2) vSOps -> pkg0 -> 'a2 -> ('a1, 'a2) incompat **)

let not_root o p v =
  { terms = ((p, (Neg (o.vs_singleton v))) :: []); ikind = (KNotRoot (p, v)) }

(** val no_versions : pkg0 -> 'a1 term -> ('a1, 'a2) incompat option **)

let no_versions p t0 = match t0 with
| Pos r -> Some { terms = ((p, t0) :: []); ikind = (KNoVersions (p, r)) }
| Neg _ -> None

(** val custom_version :
    ('a1, 'a2) vSOps -> pkg0 -> 'a2 -> n -> ('a1, 'a2) incompat **)

let custom_version o p v m =
  let s = o.vs_singleton v in
  { terms = ((p, (Pos s)) :: []); ikind = (KCustom (p, s, m)) }

(** val from_dependency :
    ('a1, 'a2) vSOps -> pkg0 -> 'a1 -> (pkg0 * 'a1) -> ('a1, 'a2) incompat **)

let from_dependency o p versions0 = function
| (p2, set3) ->
  { terms =
    (if o.vs_eqb set3 o.vs_empty
     then (p, (Pos versions0)) :: []
     else if N.eqb p p2
          then (p, (Pos
                 (o.vs_intersection versions0 (o.vs_complement set3)))) :: []
          else (p, (Pos versions0)) :: ((p2, (Neg set3)) :: [])); ikind =
    (KFromDep (p, versions0, p2, set3)) }

(** val as_dependency : ('a1, 'a2) incompat -> (pkg0 * pkg0) option **)

let as_dependency i =
  match i.ikind with
  | KFromDep (p1, _, p2, _) -> Some (p1, p2)
  | _ -> None

(** val opt_term_eqb :
    ('a1, 'a2) vSOps -> 'a1 term option -> 'a1 term option -> bool **)

let opt_term_eqb o a b =
  match a with
  | Some x -> (match b with
               | Some y -> t_eqb o x y
               | None -> false)
  | None -> (match b with
             | Some _ -> false
             | None -> true)

type panic_site =
| PIndexMissing
| PGetUnwrap
| PSatisfierUnreachable
| PSatisfierCauseNone
| PMustBeDecision
| PMustExist
| PDerivationAfterDecision
| PDecisionNoDerivations
| PDecisionAlready
| PDecisionNotContained
| PDecisionChangedAssert
| PExtractDerivation
| PNoVersionsNegative
| PSplitOne
| PUnwrapPositive
| PUnwrapNegative
| PTreeMissing
| PBacktrackEmpty
| PAnyTerm

type 'a res =
| Good of 'a
| Panic of panic_site

(** val bind : 'a1 res -> ('a1 -> 'a2 res) -> 'a2 res **)

let bind r f =
  match r with
  | Good a -> f a
  | Panic s -> Panic s

(** val unwrap_positive : 'a1 term -> 'a1 res **)

let unwrap_positive = function
| Pos s -> Good s
| Neg _ -> Panic PUnwrapPositive

(** val unwrap_negative : 'a1 term -> 'a1 res **)

let unwrap_negative = function
| Pos _ -> Panic PUnwrapNegative
| Neg s -> Good s

(** val req : 'a1 option -> panic_site -> 'a1 res **)

let req o s =
  match o with
  | Some a -> Good a
  | None -> Panic s

(** val merge_dependents :
    ('a1, 'a2) vSOps -> ('a1, 'a2) incompat -> ('a1, 'a2) incompat -> ('a1,
    'a2) incompat option res **)

let merge_dependents o self other =
  match as_dependency self with
  | Some p ->
    let (p1, p2) = p in
    (match as_dependency other with
     | Some p0 ->
       let (q1, q2) = p0 in
       if negb ((&&) (N.eqb p1 q1) (N.eqb p2 q2))
       then Good None
       else if N.eqb p1 p2
            then Good None
            else let dep_term = get p2 self.terms in
                 if negb (opt_term_eqb o dep_term (get p2 other.terms))
                 then Good None
                 else bind (req (get p1 self.terms) PGetUnwrap) (fun t1 ->
                        bind (req (get p1 other.terms) PGetUnwrap) (fun t2 ->
                          bind (unwrap_positive t1) (fun s1 ->
                            bind (unwrap_positive t2) (fun s2 ->
                              bind
                                (match dep_term with
                                 | Some t0 -> unwrap_negative t0
                                 | None -> Good o.vs_empty) (fun dset -> Good
                                (Some
                                (from_dependency o p1 (o.vs_union s1 s2) (p2,
                                  dset))))))))
     | None -> Good None)
  | None -> Good None

(** val merge_terms :
    ('a1, 'a2) vSOps -> (pkg0 * 'a1 term) list -> (pkg0 * 'a1 term) list ->
    (pkg0 * 'a1 term) list **)

let rec merge_terms o m = function
| [] -> m
| p :: r ->
  let (q, t2) = p in
  merge_terms o
    (match get q m with
     | Some t1 -> set q (t_intersection o t1 t2) m
     | None -> app m ((q, t2) :: [])) r

(** val prior_cause :
    ('a1, 'a2) vSOps -> nat -> nat -> (pkg0 * 'a1 term) list -> (pkg0 * 'a1
    term) list -> pkg0 -> ('a1, 'a2) incompat res **)

let prior_cause o i j ti tj p =
  bind (req (get p ti) PSplitOne) (fun t1 ->
    bind (req (get p tj) PGetUnwrap) (fun t2 ->
      let rest = merge_terms o (remove p ti) (remove p tj) in
      let t0 = t_union o t1 t2 in
      Good { terms = (if t_eqb o t0 (t_any o) then rest else set p t0 rest);
      ikind = (KDerived (i, j)) }))

(** val is_terminal :
    ('a1, 'a2) vSOps -> ('a1, 'a2) incompat -> pkg0 -> 'a2 -> bool **)

let is_terminal o i root0 rootv0 =
  match i.terms with
  | [] -> true
  | p0 :: l ->
    let (p, t0) = p0 in
    (match l with
     | [] -> (&&) (N.eqb p root0) (t_contains o t0 rootv0)
     | _ :: _ -> false)

type 'vS dated = { d_gidx : nat; d_level : nat; d_cause : nat;
                   d_accum : 'vS term }

type ('vS, 'vr) assign_inter =
| ADecision of nat * 'vr * 'vS term
| ADerivations of 'vS term

type ('vS, 'vr) pa = { smallest : nat; highest : nat;
                       derivs : 'vS dated list; ai : ('vS, 'vr) assign_inter }

(** val ai_term : ('a1, 'a2) assign_inter -> 'a1 term **)

let ai_term = function
| ADecision (_, _, t0) -> t0
| ADerivations t0 -> t0

type ('vS, 'vr) psol = { next_gidx : nat; level : nat;
                         assignments : (pkg0 * ('vS, 'vr) pa) list;
                         queue : (pkg0 * (z * 'vS)) list; changed : nat;
                         backtracked : bool }

(** val ps_empty : ('a1, 'a2) psol **)

let ps_empty =
  { next_gidx = O; level = O; assignments = []; queue = []; changed = O;
    backtracked = false }

(** val term_for : ('a1, 'a2) psol -> pkg0 -> 'a1 term option **)

let term_for ps0 p =
  option_map (fun a -> ai_term a.ai) (get p ps0.assignments)

(** val index_of :
    pkg0 -> (pkg0 * ('a1, 'a2) pa) list -> nat -> nat option **)

let rec index_of p m i =
  match m with
  | [] -> None
  | p0 :: r ->
    let (q, _) = p0 in if N.eqb p q then Some i else index_of p r (S i)

(** val swap_indices : 'a1 list -> nat -> nat -> 'a1 list **)

let swap_indices l i j =
  match nth_error l i with
  | Some a ->
    (match nth_error l j with
     | Some b ->
       map (fun pat ->
         let (k, x) = pat in
         if Nat.eqb k i then b else if Nat.eqb k j then a else x)
         (combine (seq O (length l)) l)
     | None -> l)
  | None -> l

type rel =
| RSatisfied
| RContradicted
| RAlmost of pkg0
| RInconclusive

(** val relation_scan :
    ('a1, 'a2) vSOps -> (pkg0 * 'a1 term) list -> (pkg0 -> 'a1 term option)
    -> pkg0 list -> pkg0 list option **)

let rec relation_scan o ts lookup0 incs =
  match ts with
  | [] -> Some incs
  | p0 :: r ->
    let (p, t0) = p0 in
    (match option_map (t_relation_with o t0) (lookup0 p) with
     | Some r0 ->
       (match r0 with
        | Satisfied -> relation_scan o r lookup0 incs
        | Contradicted -> None
        | Inconclusive -> relation_scan o r lookup0 (app incs (p :: [])))
     | None -> relation_scan o r lookup0 (app incs (p :: [])))

(** val relation0 :
    ('a1, 'a2) vSOps -> (pkg0 * 'a1 term) list -> (pkg0 -> 'a1 term option)
    -> rel **)

let relation0 o ts lookup0 =
  match relation_scan o ts lookup0 [] with
  | Some l ->
    (match l with
     | [] -> RSatisfied
     | p :: l0 -> (match l0 with
                   | [] -> RAlmost p
                   | _ :: _ -> RInconclusive))
  | None -> RContradicted

(** val add_decision :
    ('a1, 'a2) vSOps -> ('a1, 'a2) psol -> pkg0 -> 'a2 -> ('a1, 'a2) psol res **)

let add_decision o ps0 p v =
  match index_of p ps0.assignments O with
  | Some old_idx ->
    (match get p ps0.assignments with
     | Some a ->
       (match a.ai with
        | ADecision (_, _, _) -> Panic PDecisionAlready
        | ADerivations t0 ->
          if negb (t_contains o t0 v)
          then Panic PDecisionNotContained
          else if negb (Nat.eqb ps0.changed (length ps0.assignments))
               then Panic PDecisionChangedAssert
               else let new_idx = ps0.level in
                    let lvl = S ps0.level in
                    let a' = { smallest = a.smallest; highest = lvl; derivs =
                      a.derivs; ai = (ADecision (ps0.next_gidx, v,
                      (t_exact o v))) }
                    in
                    let asg = set p a' ps0.assignments in
                    Good { next_gidx = (S ps0.next_gidx); level = lvl;
                    assignments =
                    (if Nat.eqb new_idx old_idx
                     then asg
                     else swap_indices asg new_idx old_idx); queue =
                    ps0.queue; changed = ps0.changed; backtracked =
                    ps0.backtracked })
     | None -> Panic PDecisionNoDerivations)
  | None -> Panic PDecisionNoDerivations

(** val add_derivation :
    ('a1, 'a2) vSOps -> ('a1, 'a2) psol -> pkg0 -> nat -> (pkg0 * 'a1 term)
    list -> ('a1, 'a2) psol res **)

let add_derivation o ps0 p cause cause_terms =
  bind (req (get p cause_terms) PGetUnwrap) (fun ct ->
    let t0 = t_negate ct in
    let gi = ps0.next_gidx in
    let pa_last = Nat.pred (length ps0.assignments) in
    (match index_of p ps0.assignments O with
     | Some idx ->
       (match get p ps0.assignments with
        | Some a ->
          (match a.ai with
           | ADecision (_, _, _) -> Panic PDerivationAfterDecision
           | ADerivations t1 ->
             let t' = t_intersection o t1 t0 in
             let dd = { d_gidx = gi; d_level = ps0.level; d_cause = cause;
               d_accum = t' }
             in
             let a' = { smallest = a.smallest; highest = ps0.level; derivs =
               (app a.derivs (dd :: [])); ai = (ADerivations t') }
             in
             Good { next_gidx = (S gi); level = ps0.level; assignments =
             (set p a' ps0.assignments); queue = ps0.queue; changed =
             (if t_is_positive t'
              then Nat.min ps0.changed idx
              else ps0.changed); backtracked = ps0.backtracked })
        | None ->
          let dd = { d_gidx = gi; d_level = ps0.level; d_cause = cause;
            d_accum = t0 }
          in
          let a' = { smallest = ps0.level; highest = ps0.level; derivs =
            (dd :: []); ai = (ADerivations t0) }
          in
          Good { next_gidx = (S gi); level = ps0.level; assignments =
          (app ps0.assignments ((p, a') :: [])); queue = ps0.queue; changed =
          (if t_is_positive t0
           then Nat.min ps0.changed pa_last
           else ps0.changed); backtracked = ps0.backtracked })
     | None ->
       let dd = { d_gidx = gi; d_level = ps0.level; d_cause = cause;
         d_accum = t0 }
       in
       let a' = { smallest = ps0.level; highest = ps0.level; derivs =
         (dd :: []); ai = (ADerivations t0) }
       in
       Good { next_gidx = (S gi); level = ps0.level; assignments =
       (app ps0.assignments ((p, a') :: [])); queue = ps0.queue; changed =
       (if t_is_positive t0 then Nat.min ps0.changed pa_last else ps0.changed);
       backtracked = ps0.backtracked }))

(** val pick_candidates : ('a1, 'a2) psol -> (pkg0 * 'a1) list **)

let pick_candidates ps0 =
  let check_all = Nat.eqb ps0.changed (Nat.pred ps0.level) in
  flat_map (fun pat ->
    let (p, a) = pat in
    if (||) check_all (Nat.eqb a.highest ps0.level)
    then (match a.ai with
          | ADecision (_, _, _) -> []
          | ADerivations t0 ->
            (match t0 with
             | Pos s -> (p, s) :: []
             | Neg _ -> []))
    else []) (skipn ps0.changed ps0.assignments)

(** val queue_max : (pkg0 * (z * 'a1)) list -> z option **)

let queue_max = function
| [] -> None
| p :: r ->
  let (_, p1) = p in
  let (z0, _) = p1 in
  Some (fold_left (fun m pz -> Z.max m (fst (snd pz))) r z0)

(** val drop_while_gt : nat -> 'a1 dated list -> 'a1 dated list **)

let rec drop_while_gt l l0 = match l0 with
| [] -> []
| dd :: r -> if Nat.ltb l dd.d_level then drop_while_gt l r else l0

(** val backtrack_pa : nat -> ('a1, 'a2) pa -> ('a1, 'a2) pa option res **)

let backtrack_pa l a =
  if Nat.ltb l a.smallest
  then Good None
  else if Nat.leb a.highest l
       then Good (Some a)
       else let kept = rev0 (drop_while_gt l (rev0 a.derivs)) in
            (match rev0 kept with
             | [] -> Panic PBacktrackEmpty
             | last0 :: _ ->
               Good (Some { smallest = a.smallest; highest = last0.d_level;
                 derivs = kept; ai = (ADerivations last0.d_accum) }))

(** val backtrack_asg :
    nat -> (pkg0 * ('a1, 'a2) pa) list -> (pkg0 * ('a1, 'a2) pa) list res **)

let rec backtrack_asg l = function
| [] -> Good []
| p0 :: r ->
  let (p, a) = p0 in
  bind (backtrack_pa l a) (fun a' ->
    bind (backtrack_asg l r) (fun r' -> Good
      (match a' with
       | Some x -> (p, x) :: r'
       | None -> r')))

(** val ps_backtrack : ('a1, 'a2) psol -> nat -> ('a1, 'a2) psol res **)

let ps_backtrack ps0 l =
  bind (backtrack_asg l ps0.assignments) (fun asg -> Good { next_gidx =
    ps0.next_gidx; level = l; assignments = asg; queue = []; changed =
    (Nat.pred l); backtracked = true })

(** val first_disjoint :
    ('a1, 'a2) vSOps -> 'a1 dated list -> 'a1 term -> 'a1 dated option **)

let rec first_disjoint o ds start =
  match ds with
  | [] -> None
  | dd :: r ->
    if t_is_disjoint o dd.d_accum start
    then Some dd
    else first_disjoint o r start

(** val satisfier :
    ('a1, 'a2) vSOps -> ('a1, 'a2) pa -> 'a1 term -> ((nat
    option * nat) * nat) res **)

let satisfier o a start =
  match first_disjoint o a.derivs start with
  | Some dd -> Good (((Some dd.d_cause), dd.d_gidx), dd.d_level)
  | None ->
    (match a.ai with
     | ADecision (gi, _, _) -> Good ((None, gi), a.highest)
     | ADerivations _ -> Panic PSatisfierUnreachable)

type sat_entry = pkg0 * ((nat option * nat) * nat)

(** val find_satisfier :
    ('a1, 'a2) vSOps -> (pkg0 * 'a1 term) list -> (pkg0 * ('a1, 'a2) pa) list
    -> sat_entry list res **)

let rec find_satisfier o ts asg =
  match ts with
  | [] -> Good []
  | p0 :: r ->
    let (p, t0) = p0 in
    bind (req (get p asg) PMustExist) (fun a ->
      bind (satisfier o a (t_negate t0)) (fun s ->
        bind (find_satisfier o r asg) (fun rest -> Good ((p, s) :: rest))))

(** val max_by_gidx : sat_entry list -> sat_entry option **)

let max_by_gidx m =
  fold_left (fun acc e ->
    match acc with
    | Some b ->
      if Nat.leb (snd (fst (snd b))) (snd (fst (snd e)))
      then Some e
      else Some b
    | None -> Some e) m None

type search =
| SDifferent of nat
| SSame of nat

(** val satisfier_search :
    ('a1, 'a2) vSOps -> (pkg0 * 'a1 term) list -> ('a1, 'a2) psol -> ('a1,
    'a2) incompat list -> (pkg0 * search) res **)

let satisfier_search o ts ps0 store0 =
  bind (find_satisfier o ts ps0.assignments) (fun m ->
    bind (req (max_by_gidx m) PMustExist) (fun top ->
      let (sp, p) = top in
      let (p0, slevel) = p in
      let (scause, _) = p0 in
      bind (req (get sp ps0.assignments) PGetUnwrap) (fun spa ->
        bind
          (match scause with
           | Some c ->
             bind (req (nth_error store0 c) PGetUnwrap) (fun ci ->
               bind (req (get sp ci.terms) PGetUnwrap) (fun ct -> Good
                 (t_negate ct)))
           | None ->
             (match spa.ai with
              | ADecision (_, _, t0) -> Good t0
              | ADerivations _ -> Panic PMustBeDecision)) (fun accum ->
          bind (req (get sp ts) PGetUnwrap) (fun it ->
            bind (satisfier o spa (t_intersection o accum (t_negate it)))
              (fun s2 ->
              let m' = set sp s2 m in
              bind (req (max_by_gidx m') PMustExist) (fun top2 ->
                let prev = Nat.max (snd (snd top2)) (S O) in
                if Nat.leb slevel prev
                then bind (req scause PSatisfierCauseNone) (fun c -> Good
                       (sp, (SSame c)))
                else Good (sp, (SDifferent prev)))))))))

type ('vS, 'vr) state = { root : pkg0; rootv : 'vr;
                          index : (pkg0 * nat list) list;
                          contradicted : (nat * nat) list;
                          merged : ((pkg0 * pkg0) * nat list) list;
                          ps : ('vS, 'vr) psol;
                          store : ('vS, 'vr) incompat list }

(** val upd_ps : ('a1, 'a2) state -> ('a1, 'a2) psol -> ('a1, 'a2) state **)

let upd_ps st p =
  { root = st.root; rootv = st.rootv; index = st.index; contradicted =
    st.contradicted; merged = st.merged; ps = p; store = st.store }

(** val state_init : ('a1, 'a2) vSOps -> pkg0 -> 'a2 -> ('a1, 'a2) state **)

let state_init o r v =
  { root = r; rootv = v; index = ((r, (O :: [])) :: []); contradicted = [];
    merged = []; ps = ps_empty; store = ((not_root o r v) :: []) }

(** val pair_eqb : (pkg0 * pkg0) -> (pkg0 * pkg0) -> bool **)

let pair_eqb a b =
  (&&) (N.eqb (fst a) (fst b)) (N.eqb (snd a) (snd b))

(** val get2 :
    (pkg0 * pkg0) -> ((pkg0 * pkg0) * nat list) list -> nat list option **)

let rec get2 k = function
| [] -> None
| p :: r -> let (k', l) = p in if pair_eqb k k' then Some l else get2 k r

(** val set2 :
    (pkg0 * pkg0) -> nat list -> ((pkg0 * pkg0) * nat list) list ->
    ((pkg0 * pkg0) * nat list) list **)

let rec set2 k l = function
| [] -> (k, l) :: []
| p :: r ->
  let (k', l') = p in
  if pair_eqb k k' then (k, l) :: r else (k', l') :: (set2 k l r)

(** val index_get : pkg0 -> (pkg0 * nat list) list -> nat list **)

let index_get p ix =
  match get p ix with
  | Some l -> l
  | None -> []

(** val find_merge :
    ('a1, 'a2) vSOps -> ('a1, 'a2) incompat -> nat list -> ('a1, 'a2)
    incompat list -> (nat * ('a1, 'a2) incompat) option res **)

let rec find_merge o cur pasts st =
  match pasts with
  | [] -> Good None
  | past :: r ->
    bind (req (nth_error st past) PGetUnwrap) (fun pi ->
      bind (merge_dependents o cur pi) (fun m ->
        match m with
        | Some mi -> Good (Some (past, mi))
        | None -> find_merge o cur r st))

(** val index_push :
    nat -> (pkg0 * 'a1 term) list -> (pkg0 * nat list) list -> (pkg0 * nat
    list) list **)

let index_push id ts ix =
  fold_left (fun ix0 pt ->
    set (fst pt) (app (index_get (fst pt) ix0) (id :: [])) ix0) ts ix

(** val index_drop :
    nat -> (pkg0 * 'a1 term) list -> (pkg0 * nat list) list -> (pkg0 * nat
    list) list **)

let index_drop past ts ix =
  fold_left (fun ix0 pt ->
    set (fst pt)
      (filter (fun i -> negb (Nat.eqb i past)) (index_get (fst pt) ix0)) ix0)
    ts ix

(** val has_any : ('a1, 'a2) vSOps -> (pkg0 * 'a1 term) list -> bool **)

let has_any o ts =
  existsb (fun pt -> t_eqb o (snd pt) (t_any o)) ts

(** val merge_incompatibility :
    ('a1, 'a2) vSOps -> ('a1, 'a2) state -> nat -> ('a1, 'a2) state res **)

let merge_incompatibility o st id =
  bind (req (nth_error st.store id) PGetUnwrap) (fun cur ->
    match as_dependency cur with
    | Some key ->
      let lookup0 = match get2 key st.merged with
                    | Some l -> l
                    | None -> [] in
      bind (find_merge o cur lookup0 st.store) (fun fm ->
        match fm with
        | Some p ->
          let (past, mi) = p in
          let new0 = length st.store in
          if has_any o mi.terms
          then Panic PAnyTerm
          else Good { root = st.root; rootv = st.rootv; index =
                 (index_push new0 mi.terms
                   (index_drop past mi.terms st.index)); contradicted =
                 st.contradicted; merged =
                 (set2 key
                   (map (fun i -> if Nat.eqb i past then new0 else i) lookup0)
                   st.merged); ps = st.ps; store = (app st.store (mi :: [])) }
        | None ->
          if has_any o cur.terms
          then Panic PAnyTerm
          else Good { root = st.root; rootv = st.rootv; index =
                 (index_push id cur.terms st.index); contradicted =
                 st.contradicted; merged =
                 (set2 key (app lookup0 (id :: [])) st.merged); ps = st.ps;
                 store = st.store })
    | None ->
      if has_any o cur.terms
      then Panic PAnyTerm
      else Good { root = st.root; rootv = st.rootv; index =
             (index_push id cur.terms st.index); contradicted =
             st.contradicted; merged = st.merged; ps = st.ps; store =
             st.store })

(** val alloc :
    ('a1, 'a2) state -> ('a1, 'a2) incompat -> ('a1, 'a2) state * nat **)

let alloc st i =
  ({ root = st.root; rootv = st.rootv; index = st.index; contradicted =
    st.contradicted; merged = st.merged; ps = st.ps; store =
    (app st.store (i :: [])) }, (length st.store))

(** val add_incompatibility :
    ('a1, 'a2) vSOps -> ('a1, 'a2) state -> ('a1, 'a2) incompat -> ('a1, 'a2)
    state res **)

let add_incompatibility o st i =
  let (st', id) = alloc st i in merge_incompatibility o st' id

(** val merge_range :
    ('a1, 'a2) vSOps -> ('a1, 'a2) state -> nat list -> ('a1, 'a2) state res **)

let rec merge_range o st = function
| [] -> Good st
| id :: r ->
  bind (merge_incompatibility o st id) (fun st' -> merge_range o st' r)

(** val add_incompatibility_from_dependencies :
    ('a1, 'a2) vSOps -> ('a1, 'a2) state -> pkg0 -> 'a2 -> (pkg0 * 'a1) list
    -> (('a1, 'a2) state * (nat * nat)) res **)

let add_incompatibility_from_dependencies o st p v deps =
  let start = length st.store in
  let news = map (fun d -> from_dependency o p (o.vs_singleton v) d) deps in
  let st1 = { root = st.root; rootv = st.rootv; index = st.index;
    contradicted = st.contradicted; merged = st.merged; ps = st.ps; store =
    (app st.store news) }
  in
  let stop = add start (length news) in
  bind (merge_range o st1 (seq start (length news))) (fun st2 -> Good (st2,
    (start, stop)))

(** val add_version :
    ('a1, 'a2) vSOps -> ('a1, 'a2) psol -> pkg0 -> 'a2 -> (nat * nat) ->
    ('a1, 'a2) incompat list -> ('a1, 'a2) psol res **)

let add_version o pso p v range0 st =
  if negb pso.backtracked
  then add_decision o pso p v
  else let exact = t_exact o v in
       let lookup0 = fun q -> if N.eqb q p then Some exact else term_for pso q
       in
       let news =
         firstn (sub (snd range0) (fst range0)) (skipn (fst range0) st)
       in
       if forallb (fun i ->
            match relation0 o i.terms lookup0 with
            | RSatisfied -> false
            | _ -> true) news
       then add_decision o pso p v
       else Good pso

(** val backtrack :
    ('a1, 'a2) vSOps -> ('a1, 'a2) state -> nat -> bool -> nat -> ('a1, 'a2)
    state res **)

let backtrack o st inc inc_changed l =
  bind (ps_backtrack st.ps l) (fun p' ->
    let st' = { root = st.root; rootv = st.rootv; index = st.index;
      contradicted = (filter (fun e -> Nat.leb (snd e) l) st.contradicted);
      merged = st.merged; ps = p'; store = st.store }
    in
    if inc_changed then merge_incompatibility o st' inc else Good st')

type ('vS, 'vr) cr_result =
| CROk of ('vS, 'vr) state * pkg0 * nat
| CRTerminal of ('vS, 'vr) state * nat

type outcome_err =
| EFuel
| EPanic of panic_site

(** val conflict_resolution :
    ('a1, 'a2) vSOps -> nat -> ('a1, 'a2) state -> nat -> bool -> (('a1, 'a2)
    cr_result, outcome_err) sum **)

let rec conflict_resolution o fuel st cur cur_changed =
  match fuel with
  | O -> Inr EFuel
  | S fuel' ->
    (match nth_error st.store cur with
     | Some ci ->
       if is_terminal o ci st.root st.rootv
       then Inl (CRTerminal (st, cur))
       else (match satisfier_search o ci.terms st.ps st.store with
             | Good a ->
               let (p, s) = a in
               (match s with
                | SDifferent l ->
                  (match backtrack o st cur cur_changed l with
                   | Good st' -> Inl (CROk (st', p, cur))
                   | Panic s0 -> Inr (EPanic s0))
                | SSame cause ->
                  (match nth_error st.store cause with
                   | Some cj ->
                     (match prior_cause o cur cause ci.terms cj.terms p with
                      | Good pc ->
                        let (st', id) = alloc st pc in
                        conflict_resolution o fuel' st' id true
                      | Panic s0 -> Inr (EPanic s0))
                   | None -> Inr (EPanic PGetUnwrap)))
             | Panic s -> Inr (EPanic s))
     | None -> Inr (EPanic PGetUnwrap))

(** val cache_set : nat -> nat -> (nat * nat) list -> (nat * nat) list **)

let cache_set id lvl c =
  (id, lvl) :: (filter (fun e -> negb (Nat.eqb (fst e) id)) c)

(** val cached : nat -> (nat * nat) list -> bool **)

let cached id c =
  existsb (fun e -> Nat.eqb (fst e) id) c

(** val upd_cache :
    ('a1, 'a2) state -> (nat * nat) list -> ('a1, 'a2) state **)

let upd_cache st c =
  { root = st.root; rootv = st.rootv; index = st.index; contradicted = c;
    merged = st.merged; ps = st.ps; store = st.store }

(** val scan_incompats :
    ('a1, 'a2) vSOps -> nat list -> ('a1, 'a2) state -> pkg0 list -> ((('a1,
    'a2) state * pkg0 list) * nat option) res **)

let rec scan_incompats o ids st buffer =
  match ids with
  | [] -> Good ((st, buffer), None)
  | id :: r ->
    if cached id st.contradicted
    then scan_incompats o r st buffer
    else bind (req (nth_error st.store id) PGetUnwrap) (fun ci ->
           match relation0 o ci.terms (term_for st.ps) with
           | RSatisfied -> Good ((st, buffer), (Some id))
           | RContradicted ->
             scan_incompats o r
               (upd_cache st (cache_set id st.ps.level st.contradicted))
               buffer
           | RAlmost q ->
             let buffer' =
               if existsb (N.eqb q) buffer
               then buffer
               else app buffer (q :: [])
             in
             bind (add_derivation o st.ps q id ci.terms) (fun p' ->
               let st' =
                 upd_cache (upd_ps st p')
                   (cache_set id p'.level st.contradicted)
               in
               scan_incompats o r st' buffer')
           | RInconclusive -> scan_incompats o r st buffer)

type ('vS, 'vr) up_result =
| UPOk of ('vS, 'vr) state
| UPConflict of ('vS, 'vr) state * nat

(** val unit_propagation :
    ('a1, 'a2) vSOps -> nat -> ('a1, 'a2) state -> pkg0 list -> (('a1, 'a2)
    up_result, outcome_err) sum **)

let rec unit_propagation o fuel st buffer =
  match fuel with
  | O -> Inr EFuel
  | S fuel' ->
    (match rev0 buffer with
     | [] -> Inl (UPOk st)
     | cur :: rest_rev ->
       let buffer1 = rev0 rest_rev in
       (match get cur st.index with
        | Some ids ->
          (match scan_incompats o (rev0 ids) st buffer1 with
           | Good a ->
             let (p, o0) = a in
             let (st1, buffer2) = p in
             (match o0 with
              | Some conflict ->
                (match conflict_resolution o fuel' st1 conflict false with
                 | Inl c ->
                   (match c with
                    | CROk (st2, q, root_cause) ->
                      (match nth_error st2.store root_cause with
                       | Some rc ->
                         (match add_derivation o st2.ps q root_cause rc.terms with
                          | Good p' ->
                            let st3 =
                              upd_cache (upd_ps st2 p')
                                (cache_set root_cause p'.level
                                  st2.contradicted)
                            in
                            unit_propagation o fuel' st3 (q :: [])
                          | Panic s -> Inr (EPanic s))
                       | None -> Inr (EPanic PGetUnwrap))
                    | CRTerminal (st2, id) -> Inl (UPConflict (st2, id)))
                 | Inr e -> Inr e)
              | None -> unit_propagation o fuel' st1 buffer2)
           | Panic s -> Inr (EPanic s))
        | None -> Inr (EPanic PIndexMissing)))

type ('vS, 'vr) external0 =
| XNotRoot of pkg0 * 'vr
| XNoVersions of pkg0 * 'vS
| XFromDep of pkg0 * 'vS * pkg0 * 'vS
| XCustom of pkg0 * 'vS * n

type ('vS, 'vr) tree =
| TExternal of ('vS, 'vr) external0
| TDerived of (pkg0 * 'vS term) list * nat option * ('vS, 'vr) tree
   * ('vS, 'vr) tree

(** val tree_dfs :
    nat -> ('a1, 'a2) incompat list -> nat list -> nat list -> nat list ->
    (nat list * nat list) option **)

let rec tree_dfs fuel st stack all shared =
  match fuel with
  | O -> None
  | S fuel' ->
    (match stack with
     | [] -> Some (all, shared)
     | i :: rest ->
       (match nth_error st i with
        | Some ci ->
          (match ci.ikind with
           | KDerived (id1, id2) ->
             if existsb (Nat.eqb i) all
             then tree_dfs fuel' st rest all
                    (if existsb (Nat.eqb i) shared
                     then shared
                     else i :: shared)
             else tree_dfs fuel' st (id2 :: (id1 :: rest)) (i :: all) shared
           | _ ->
             tree_dfs fuel' st rest
               (if existsb (Nat.eqb i) all then all else i :: all) shared)
        | None -> None))

(** val tree_of :
    nat -> ('a1, 'a2) incompat list -> nat list -> nat -> ('a1, 'a2) tree
    option **)

let rec tree_of fuel st shared id =
  match fuel with
  | O -> None
  | S fuel' ->
    (match nth_error st id with
     | Some ci ->
       (match ci.ikind with
        | KNotRoot (p, v) -> Some (TExternal (XNotRoot (p, v)))
        | KNoVersions (p, s) -> Some (TExternal (XNoVersions (p, s)))
        | KFromDep (p, s, q, t0) -> Some (TExternal (XFromDep (p, s, q, t0)))
        | KDerived (id1, id2) ->
          (match tree_of fuel' st shared id1 with
           | Some t1 ->
             (match tree_of fuel' st shared id2 with
              | Some t2 ->
                Some (TDerived (ci.terms,
                  (if existsb (Nat.eqb id) shared then Some id else None),
                  t1, t2))
              | None -> None)
           | None -> None)
        | KCustom (p, s, m) -> Some (TExternal (XCustom (p, s, m))))
     | None -> None)

(** val build_derivation_tree :
    ('a1, 'a2) incompat list -> nat -> ('a1, 'a2) tree option **)

let build_derivation_tree st id =
  match tree_dfs
          (mul (mul (S (S (S (S O)))) (S (length st))) (S (length st))) st
          (id :: []) [] [] with
  | Some p -> let (_, shared) = p in tree_of (S (length st)) st shared id
  | None -> None

type 'vr choose_ans =
| CSome of 'vr
| CNone
| CErr

type 'vS deps_ans =
| DAvail of (pkg0 * 'vS) list
| DUnavail of n
| DErr

type ('vS, 'vr) event =
| EvCancel of bool
| EvPrioritize of pkg0 * 'vS * z
| EvChoose of pkg0 * 'vS * 'vr choose_ans
| EvDeps of pkg0 * 'vr * 'vS deps_ans

type failure =
| FNoTerm
| FIncompatibleVersion

type ('vS, 'vr) outcome =
| OSolution of (pkg0 * 'vr) list
| ONoSolution of ('vS, 'vr) tree
| OErrCancel
| OErrChoose
| OErrDeps of pkg0 * 'vr
| OFailure of failure
| OPanic of panic_site
| OOutOfFuel
| OMismatch of nat * n
| OPickNotMax of nat * pkg0

(** val do_prioritize :
    ('a1, 'a2) vSOps -> (pkg0 * 'a1) list -> (pkg0 * (z * 'a1)) list -> ('a1,
    'a2) event list -> nat -> (((pkg0 * (z * 'a1)) list * ('a1, 'a2) event
    list) * nat, ('a1, 'a2) outcome) sum **)

let rec do_prioritize o cands q tr n0 =
  match cands with
  | [] -> Inl ((q, tr), n0)
  | p0 :: r ->
    let (p, s) = p0 in
    (match tr with
     | [] -> Inr (OMismatch (n0, (Npos XH)))
     | e :: tr' ->
       (match e with
        | EvPrioritize (p', s', prio) ->
          if (&&) (N.eqb p p') (o.vs_eqb s s')
          then do_prioritize o r (set p (prio, s) q) tr' (S n0)
          else Inr (OMismatch (n0, (Npos XH)))
        | _ -> Inr (OMismatch (n0, (Npos XH)))))

(** val extract_solution : ('a1, 'a2) psol -> (pkg0 * 'a2) list res **)

let extract_solution p =
  fold_right (fun pat acc ->
    let (q, a) = pat in
    bind acc (fun l ->
      match a.ai with
      | ADecision (_, v, _) -> Good ((q, v) :: l)
      | ADerivations _ -> Panic PExtractDerivation)) (Good [])
    (firstn p.level p.assignments)

(** val added_has :
    ('a1 -> 'a1 -> bool) -> (pkg0 * 'a1) list -> pkg0 -> 'a1 -> bool **)

let added_has veqb0 added p v =
  existsb (fun e -> (&&) (N.eqb (fst e) p) (veqb0 (snd e) v)) added

type 'vS pick_info = ((pkg0 * 'vS) list * (pkg0 * (z * 'vS)) list) * nat

(** val undecided_positive : ('a1, 'a2) psol -> (pkg0 * 'a1) list **)

let undecided_positive p =
  flat_map (fun pat ->
    let (q, a) = pat in
    (match a.ai with
     | ADecision (_, _, _) -> []
     | ADerivations t0 -> (match t0 with
                           | Pos s -> (q, s) :: []
                           | Neg _ -> []))) p.assignments

type ('vS, 'vr) result =
  ((('vS, 'vr) outcome * ('vS, 'vr) state) * 'vS pick_info list) * nat

(** val res_out :
    'a1 pick_info list -> nat -> 'a3 res -> ('a3 -> ('a1, 'a2) result) ->
    ('a1, 'a2) state -> ('a1, 'a2) result **)

let res_out log cnt r k st =
  match r with
  | Good a -> k a
  | Panic s -> ((((OPanic s), st), log), cnt)

(** val resolve_loop :
    ('a1, 'a2) vSOps -> ('a2 -> 'a2 -> bool) -> nat -> ('a1, 'a2) state ->
    pkg0 -> (pkg0 * 'a2) list -> ('a1, 'a2) event list -> nat -> 'a1
    pick_info list -> ('a1, 'a2) result **)

let rec resolve_loop o veqb0 fuel st next added tr n0 log =
  match fuel with
  | O -> (((OOutOfFuel, st), log), n0)
  | S fuel' ->
    (match tr with
     | [] -> ((((OMismatch (n0, (Npos (XI (XO XH))))), st), log), n0)
     | e :: tr1 ->
       (match e with
        | EvCancel ok ->
          if negb ok
          then (((OErrCancel, st), log), (S n0))
          else (match unit_propagation o fuel st (next :: []) with
                | Inl u ->
                  (match u with
                   | UPOk st1 ->
                     (match do_prioritize o (pick_candidates st1.ps)
                              st1.ps.queue tr1 (S n0) with
                      | Inl p ->
                        let (p0, n2) = p in
                        let (q, tr2) = p0 in
                        let p1 = st1.ps in
                        let log1 =
                          app log ((((undecided_positive p1), q), n2) :: [])
                        in
                        let with_queue = fun q' -> { next_gidx =
                          p1.next_gidx; level = p1.level; assignments =
                          p1.assignments; queue = q'; changed =
                          (length p1.assignments); backtracked =
                          p1.backtracked }
                        in
                        (match queue_max q with
                         | Some mx ->
                           (match tr2 with
                            | [] ->
                              ((((OMismatch (n2, (Npos (XO (XO XH))))), st1),
                                log1), n2)
                            | e0 :: tr3 ->
                              (match e0 with
                               | EvChoose (p2, s, ans) ->
                                 (match get p2 q with
                                  | Some p3 ->
                                    let (prio, _) = p3 in
                                    if negb (Z.eqb prio mx)
                                    then ((((OPickNotMax (n2, p2)), st1),
                                           log1), n2)
                                    else let st2 =
                                           upd_ps st1
                                             (with_queue (remove p2 q))
                                         in
                                         (match term_for st2.ps p2 with
                                          | Some ti ->
                                            (match ti with
                                             | Pos cur_set ->
                                               if negb (o.vs_eqb s cur_set)
                                               then ((((OMismatch (n2, (Npos
                                                      (XO XH)))), st2),
                                                      log1), n2)
                                               else (match ans with
                                                     | CSome v ->
                                                       if negb
                                                            (t_contains o ti
                                                              v)
                                                       then ((((OFailure
                                                              FIncompatibleVersion),
                                                              st2), log1), (S
                                                              n2))
                                                       else if added_has
                                                                 veqb0 added
                                                                 p2 v
                                                            then res_out log1
                                                                   (S n2)
                                                                   (add_decision
                                                                    o st2.ps
                                                                    p2 v)
                                                                   (fun p' ->
                                                                   resolve_loop
                                                                    o veqb0
                                                                    fuel'
                                                                    (upd_ps
                                                                    st2 p')
                                                                    p2 added
                                                                    tr3 (S
                                                                    n2) log1)
                                                                   st2
                                                            else let added' =
                                                                   (p2,
                                                                   v) :: added
                                                                 in
                                                                 (match tr3 with
                                                                  | [] ->
                                                                    ((((OMismatch
                                                                    ((S n2),
                                                                    (Npos (XI
                                                                    XH)))),
                                                                    st2),
                                                                    log1), (S
                                                                    n2))
                                                                  | e1 :: tr4 ->
                                                                    (match e1 with
                                                                    | EvDeps (
                                                                    p', v',
                                                                    dans) ->
                                                                    if 
                                                                    negb
                                                                    ((&&)
                                                                    (N.eqb p2
                                                                    p')
                                                                    (veqb0 v
                                                                    v'))
                                                                    then 
                                                                    ((((OMismatch
                                                                    ((S n2),
                                                                    (Npos (XI
                                                                    XH)))),
                                                                    st2),
                                                                    log1), (S
                                                                    n2))
                                                                    else 
                                                                    (match dans with
                                                                    | DAvail deps ->
                                                                    res_out
                                                                    log1 (S
                                                                    (S n2))
                                                                    (add_incompatibility_from_dependencies
                                                                    o st2 p2
                                                                    v deps)
                                                                    (fun pat ->
                                                                    let (
                                                                    st3,
                                                                    range0) =
                                                                    pat
                                                                    in
                                                                    res_out
                                                                    log1 (S
                                                                    (S n2))
                                                                    (add_version
                                                                    o st3.ps
                                                                    p2 v
                                                                    range0
                                                                    st3.store)
                                                                    (fun p'0 ->
                                                                    resolve_loop
                                                                    o veqb0
                                                                    fuel'
                                                                    (upd_ps
                                                                    st3 p'0)
                                                                    p2 added'
                                                                    tr4 (S (S
                                                                    n2)) log1)
                                                                    st3) st2
                                                                    | DUnavail m ->
                                                                    res_out
                                                                    log1 (S
                                                                    (S n2))
                                                                    (add_incompatibility
                                                                    o st2
                                                                    (custom_version
                                                                    o p2 v m))
                                                                    (fun st3 ->
                                                                    resolve_loop
                                                                    o veqb0
                                                                    fuel' st3
                                                                    p2 added'
                                                                    tr4 (S (S
                                                                    n2)) log1)
                                                                    st2
                                                                    | DErr ->
                                                                    ((((OErrDeps
                                                                    (p2, v)),
                                                                    st2),
                                                                    log1), (S
                                                                    (S n2))))
                                                                    | _ ->
                                                                    ((((OMismatch
                                                                    ((S n2),
                                                                    (Npos (XI
                                                                    XH)))),
                                                                    st2),
                                                                    log1), (S
                                                                    n2))))
                                                     | CNone ->
                                                       (match no_versions p2
                                                                ti with
                                                        | Some inc ->
                                                          res_out log1 (S n2)
                                                            (add_incompatibility
                                                              o st2 inc)
                                                            (fun st3 ->
                                                            resolve_loop o
                                                              veqb0 fuel' st3
                                                              p2 added tr3 (S
                                                              n2) log1) st2
                                                        | None ->
                                                          ((((OPanic
                                                            PNoVersionsNegative),
                                                            st2), log1), (S
                                                            n2)))
                                                     | CErr ->
                                                       (((OErrChoose, st2),
                                                         log1), (S n2)))
                                             | Neg _ ->
                                               ((((OPanic PUnwrapPositive),
                                                 st2), log1), n2))
                                          | None ->
                                            ((((OFailure FNoTerm), st2),
                                              log1), n2))
                                  | None ->
                                    ((((OPickNotMax (n2, p2)), st1), log1),
                                      n2))
                               | _ ->
                                 ((((OMismatch (n2, (Npos (XO (XO XH))))),
                                   st1), log1), n2)))
                         | None ->
                           res_out log1 n2 (extract_solution p1) (fun sol ->
                             ((((OSolution sol),
                             (upd_ps st1 (with_queue q))), log1), n2)) st1)
                      | Inr o0 -> (((o0, st1), log), (S n0)))
                   | UPConflict (st1, id) ->
                     (match build_derivation_tree st1.store id with
                      | Some t0 -> ((((ONoSolution t0), st1), log), (S n0))
                      | None -> ((((OPanic PTreeMissing), st1), log), (S n0))))
                | Inr o0 ->
                  (match o0 with
                   | EFuel -> (((OOutOfFuel, st), log), (S n0))
                   | EPanic s -> ((((OPanic s), st), log), (S n0))))
        | _ -> ((((OMismatch (n0, (Npos (XI (XO XH))))), st), log), n0)))

(** val resolve :
    ('a1, 'a2) vSOps -> ('a2 -> 'a2 -> bool) -> nat -> pkg0 -> 'a2 -> ('a1,
    'a2) event list -> ('a1, 'a2) result **)

let resolve o veqb0 fuel r v tr =
  resolve_loop o veqb0 fuel (state_init o r v) r [] tr O []

(** val heap_after_propagation :
    (pkg0 * (z * 'a1)) list -> pkg0 heap -> pkg0 heap **)

let heap_after_propagation q hp =
  match q with
  | [] -> []
  | _ :: _ -> hp

(** val heap_pushes : pkg0 heap -> ('a1, 'a2) event list -> pkg0 heap **)

let rec heap_pushes hp = function
| [] -> hp
| e :: r ->
  (match e with
   | EvPrioritize (p, _, prio) -> heap_pushes (heap_push N.eqb hp p prio) r
   | _ -> heap_pushes hp r)

(** val resolve_loop_h :
    ('a1, 'a2) vSOps -> ('a2 -> 'a2 -> bool) -> nat -> ('a1, 'a2) state ->
    pkg0 -> (pkg0 * 'a2) list -> pkg0 heap -> ('a1, 'a2) event list -> nat ->
    'a1 pick_info list -> ('a1, 'a2) result **)

let rec resolve_loop_h o veqb0 fuel st next added hp tr n0 log =
  match fuel with
  | O -> (((OOutOfFuel, st), log), n0)
  | S fuel' ->
    (match tr with
     | [] -> ((((OMismatch (n0, (Npos (XI (XO XH))))), st), log), n0)
     | e :: tr1 ->
       (match e with
        | EvCancel ok ->
          if negb ok
          then (((OErrCancel, st), log), (S n0))
          else (match unit_propagation o fuel st (next :: []) with
                | Inl u ->
                  (match u with
                   | UPOk st1 ->
                     (match do_prioritize o (pick_candidates st1.ps)
                              st1.ps.queue tr1 (S n0) with
                      | Inl p ->
                        let (p0, n2) = p in
                        let (q, tr2) = p0 in
                        let hp1 = heap_after_propagation st1.ps.queue hp in
                        let hp2 = heap_pushes hp1 (firstn (sub n2 (S n0)) tr1)
                        in
                        let p1 = st1.ps in
                        let log1 =
                          app log ((((undecided_positive p1), q), n2) :: [])
                        in
                        let with_queue = fun q' -> { next_gidx =
                          p1.next_gidx; level = p1.level; assignments =
                          p1.assignments; queue = q'; changed =
                          (length p1.assignments); backtracked =
                          p1.backtracked }
                        in
                        (match queue_max q with
                         | Some mx ->
                           (match tr2 with
                            | [] ->
                              ((((OMismatch (n2, (Npos (XO (XO XH))))), st1),
                                log1), n2)
                            | e0 :: tr3 ->
                              (match e0 with
                               | EvChoose (p2, s, ans) ->
                                 (match heap_pop hp2 with
                                  | Some p3 ->
                                    let (p4, hp3) = p3 in
                                    let (hpk, _) = p4 in
                                    if negb (N.eqb p2 hpk)
                                    then ((((OMismatch (n2, (Npos (XO (XI
                                           XH))))), st1), log1), n2)
                                    else (match get p2 q with
                                          | Some p5 ->
                                            let (prio, _) = p5 in
                                            if negb (Z.eqb prio mx)
                                            then ((((OPickNotMax (n2, p2)),
                                                   st1), log1), n2)
                                            else let st2 =
                                                   upd_ps st1
                                                     (with_queue
                                                       (remove p2 q))
                                                 in
                                                 (match term_for st2.ps p2 with
                                                  | Some ti ->
                                                    (match ti with
                                                     | Pos cur_set ->
                                                       if negb
                                                            (o.vs_eqb s
                                                              cur_set)
                                                       then ((((OMismatch
                                                              (n2, (Npos (XO
                                                              XH)))), st2),
                                                              log1), n2)
                                                       else (match ans with
                                                             | CSome v ->
                                                               if negb
                                                                    (t_contains
                                                                    o ti v)
                                                               then ((((OFailure
                                                                    FIncompatibleVersion),
                                                                    st2),
                                                                    log1), (S
                                                                    n2))
                                                               else if 
                                                                    added_has
                                                                    veqb0
                                                                    added p2 v
                                                                    then 
                                                                    res_out
                                                                    log1 (S
                                                                    n2)
                                                                    (add_decision
                                                                    o st2.ps
                                                                    p2 v)
                                                                    (fun p' ->
                                                                    resolve_loop_h
                                                                    o veqb0
                                                                    fuel'
                                                                    (upd_ps
                                                                    st2 p')
                                                                    p2 added
                                                                    hp3 tr3
                                                                    (S n2)
                                                                    log1) st2
                                                                    else 
                                                                    let added' =
                                                                    (p2,
                                                                    v) :: added
                                                                    in
                                                                    (
                                                                    match tr3 with
                                                                    | [] ->
                                                                    ((((OMismatch
                                                                    ((S n2),
                                                                    (Npos (XI
                                                                    XH)))),
                                                                    st2),
                                                                    log1), (S
                                                                    n2))
                                                                    | e1 :: tr4 ->
                                                                    (match e1 with
                                                                    | EvDeps (
                                                                    p', v',
                                                                    dans) ->
                                                                    if 
                                                                    negb
                                                                    ((&&)
                                                                    (N.eqb p2
                                                                    p')
                                                                    (veqb0 v
                                                                    v'))
                                                                    then 
                                                                    ((((OMismatch
                                                                    ((S n2),
                                                                    (Npos (XI
                                                                    XH)))),
                                                                    st2),
                                                                    log1), (S
                                                                    n2))
                                                                    else 
                                                                    (match dans with
                                                                    | DAvail deps ->
                                                                    res_out
                                                                    log1 (S
                                                                    (S n2))
                                                                    (add_incompatibility_from_dependencies
                                                                    o st2 p2
                                                                    v deps)
                                                                    (fun pat ->
                                                                    let (
                                                                    st3,
                                                                    range0) =
                                                                    pat
                                                                    in
                                                                    res_out
                                                                    log1 (S
                                                                    (S n2))
                                                                    (add_version
                                                                    o st3.ps
                                                                    p2 v
                                                                    range0
                                                                    st3.store)
                                                                    (fun p'0 ->
                                                                    resolve_loop_h
                                                                    o veqb0
                                                                    fuel'
                                                                    (upd_ps
                                                                    st3 p'0)
                                                                    p2 added'
                                                                    hp3 tr4
                                                                    (S (S
                                                                    n2)) log1)
                                                                    st3) st2
                                                                    | DUnavail m ->
                                                                    res_out
                                                                    log1 (S
                                                                    (S n2))
                                                                    (add_incompatibility
                                                                    o st2
                                                                    (custom_version
                                                                    o p2 v m))
                                                                    (fun st3 ->
                                                                    resolve_loop_h
                                                                    o veqb0
                                                                    fuel' st3
                                                                    p2 added'
                                                                    hp3 tr4
                                                                    (S (S
                                                                    n2)) log1)
                                                                    st2
                                                                    | DErr ->
                                                                    ((((OErrDeps
                                                                    (p2, v)),
                                                                    st2),
                                                                    log1), (S
                                                                    (S n2))))
                                                                    | _ ->
                                                                    ((((OMismatch
                                                                    ((S n2),
                                                                    (Npos (XI
                                                                    XH)))),
                                                                    st2),
                                                                    log1), (S
                                                                    n2))))
                                                             | CNone ->
                                                               (match 
                                                                no_versions
                                                                  p2 ti with
                                                                | Some inc ->
                                                                  res_out
                                                                    log1 (S
                                                                    n2)
                                                                    (add_incompatibility
                                                                    o st2 inc)
                                                                    (fun st3 ->
                                                                    resolve_loop_h
                                                                    o veqb0
                                                                    fuel' st3
                                                                    p2 added
                                                                    hp3 tr3
                                                                    (S n2)
                                                                    log1) st2
                                                                | None ->
                                                                  ((((OPanic
                                                                    PNoVersionsNegative),
                                                                    st2),
                                                                    log1), (S
                                                                    n2)))
                                                             | CErr ->
                                                               (((OErrChoose,
                                                                 st2), log1),
                                                                 (S n2)))
                                                     | Neg _ ->
                                                       ((((OPanic
                                                         PUnwrapPositive),
                                                         st2), log1), n2))
                                                  | None ->
                                                    ((((OFailure FNoTerm),
                                                      st2), log1), n2))
                                          | None ->
                                            ((((OPickNotMax (n2, p2)), st1),
                                              log1), n2))
                                  | None ->
                                    ((((OMismatch (n2, (Npos (XO (XI XH))))),
                                      st1), log1), n2))
                               | _ ->
                                 ((((OMismatch (n2, (Npos (XO (XO XH))))),
                                   st1), log1), n2)))
                         | None ->
                           res_out log1 n2 (extract_solution p1) (fun sol ->
                             ((((OSolution sol),
                             (upd_ps st1 (with_queue q))), log1), n2)) st1)
                      | Inr o0 -> (((o0, st1), log), (S n0)))
                   | UPConflict (st1, id) ->
                     (match build_derivation_tree st1.store id with
                      | Some t0 -> ((((ONoSolution t0), st1), log), (S n0))
                      | None -> ((((OPanic PTreeMissing), st1), log), (S n0))))
                | Inr o0 ->
                  (match o0 with
                   | EFuel -> (((OOutOfFuel, st), log), (S n0))
                   | EPanic s -> ((((OPanic s), st), log), (S n0))))
        | _ -> ((((OMismatch (n0, (Npos (XI (XO XH))))), st), log), n0)))

(** val resolve_h :
    ('a1, 'a2) vSOps -> ('a2 -> 'a2 -> bool) -> nat -> pkg0 -> 'a2 -> ('a1,
    'a2) event list -> ('a1, 'a2) result **)

let resolve_h o veqb0 fuel r v tr =
  resolve_loop_h o veqb0 fuel (state_init o r v) r [] [] tr O []

type json =
| JNull
| JBool of bool
| JNum of z
| JStr of text
| JArr of json list
| JObj of (text * json) list

(** val s_unbounded : text **)

let s_unbounded =
  txt (String ((Ascii (true, false, true, false, true, false, true, false)),
    (String ((Ascii (false, true, true, true, false, true, true, false)),
    (String ((Ascii (false, true, false, false, false, true, true, false)),
    (String ((Ascii (true, true, true, true, false, true, true, false)),
    (String ((Ascii (true, false, true, false, true, true, true, false)),
    (String ((Ascii (false, true, true, true, false, true, true, false)),
    (String ((Ascii (false, false, true, false, false, true, true, false)),
    (String ((Ascii (true, false, true, false, false, true, true, false)),
    (String ((Ascii (false, false, true, false, false, true, true, false)),
    EmptyString))))))))))))))))))

(** val s_included : text **)

let s_included =
  txt (String ((Ascii (true, false, false, true, false, false, true, false)),
    (String ((Ascii (false, true, true, true, false, true, true, false)),
    (String ((Ascii (true, true, false, false, false, true, true, false)),
    (String ((Ascii (false, false, true, true, false, true, true, false)),
    (String ((Ascii (true, false, true, false, true, true, true, false)),
    (String ((Ascii (false, false, true, false, false, true, true, false)),
    (String ((Ascii (true, false, true, false, false, true, true, false)),
    (String ((Ascii (false, false, true, false, false, true, true, false)),
    EmptyString))))))))))))))))

(** val s_excluded : text **)

let s_excluded =
  txt (String ((Ascii (true, false, true, false, false, false, true, false)),
    (String ((Ascii (false, false, false, true, true, true, true, false)),
    (String ((Ascii (true, true, false, false, false, true, true, false)),
    (String ((Ascii (false, false, true, true, false, true, true, false)),
    (String ((Ascii (true, false, true, false, true, true, true, false)),
    (String ((Ascii (false, false, true, false, false, true, true, false)),
    (String ((Ascii (true, false, true, false, false, true, true, false)),
    (String ((Ascii (false, false, true, false, false, true, true, false)),
    EmptyString))))))))))))))))

(** val map_opt : ('a1 -> 'a2 option) -> 'a1 list -> 'a2 list option **)

let rec map_opt f = function
| [] -> Some []
| x :: r ->
  (match f x with
   | Some y ->
     (match map_opt f r with
      | Some ys -> Some (y :: ys)
      | None -> None)
   | None -> None)

(** val encode_bound : ('a1 -> json) -> 'a1 bound -> json **)

let encode_bound enc_v = function
| Incl v -> JObj ((s_included, (enc_v v)) :: [])
| Excl v -> JObj ((s_excluded, (enc_v v)) :: [])
| Unb -> JStr s_unbounded

(** val decode_bound : (json -> 'a1 option) -> json -> 'a1 bound option **)

let decode_bound dec_v = function
| JStr s -> if text_eqb s s_unbounded then Some Unb else None
| JObj l ->
  (match l with
   | [] -> None
   | p :: l0 ->
     let (k, x) = p in
     (match l0 with
      | [] ->
        if text_eqb k s_included
        then option_map (fun x0 -> Incl x0) (dec_v x)
        else if text_eqb k s_excluded
             then option_map (fun x0 -> Excl x0) (dec_v x)
             else if text_eqb k s_unbounded
                  then (match x with
                        | JNull -> Some Unb
                        | _ -> None)
                  else None
      | _ :: _ -> None))
| _ -> None

(** val decode_opt : (json -> 'a1 option) -> json -> 'a1 option option **)

let decode_opt dec_v j = match j with
| JNull -> Some None
| _ -> option_map (fun x -> Some x) (dec_v j)

(** val decode_legacy :
    (json -> 'a1 option) -> json -> json -> ('a1 bound * 'a1 bound) option **)

let decode_legacy dec_v a b =
  match dec_v a with
  | Some va ->
    (match decode_opt dec_v b with
     | Some o ->
       (match o with
        | Some vb -> Some ((Incl va), (Excl vb))
        | None -> Some ((Incl va), Unb))
     | None -> None)
  | None -> None

(** val decode_interval :
    (json -> 'a1 option) -> json -> ('a1 bound * 'a1 bound) option **)

let decode_interval dec_v = function
| JArr l ->
  (match l with
   | [] -> None
   | a :: l0 ->
     (match l0 with
      | [] -> None
      | b :: l1 ->
        (match l1 with
         | [] ->
           (match decode_bound dec_v a with
            | Some x ->
              (match decode_bound dec_v b with
               | Some y -> Some (x, y)
               | None -> decode_legacy dec_v a b)
            | None -> decode_legacy dec_v a b)
         | _ :: _ -> None)))
| _ -> None

(** val encode_interval : ('a1 -> json) -> ('a1 bound * 'a1 bound) -> json **)

let encode_interval enc_v se =
  JArr
    ((encode_bound enc_v (fst se)) :: ((encode_bound enc_v (snd se)) :: []))

(** val encode_range :
    ('a1 -> json) -> ('a1 bound * 'a1 bound) list -> json **)

let encode_range enc_v r =
  JArr (map (encode_interval enc_v) r)

(** val decode_range :
    (json -> 'a1 option) -> json -> ('a1 bound * 'a1 bound) list option **)

let decode_range dec_v = function
| JArr l -> map_opt (decode_interval dec_v) l
| _ -> None

(** val enc_num : z -> json **)

let enc_num z0 =
  JNum z0

(** val z_in_u32 : z -> bool **)

let z_in_u32 z0 =
  (&&) (Z.leb Z0 z0)
    (Z.leb z0 (Zpos (XI (XI (XI (XI (XI (XI (XI (XI (XI (XI (XI (XI (XI (XI
      (XI (XI (XI (XI (XI (XI (XI (XI (XI (XI (XI (XI (XI (XI (XI (XI (XI
      XH)))))))))))))))))))))))))))))))))

(** val dec_u32 : json -> z option **)

let dec_u32 = function
| JNum z0 -> if z_in_u32 z0 then Some z0 else None
| _ -> None

(** val enc_sv : semver -> json **)

let enc_sv v =
  JStr (sv_display v)

(** val dec_sv : json -> semver option **)

let dec_sv = function
| JStr s -> (match sv_parse s with
             | ParseOk v -> Some v
             | _ -> None)
| _ -> None

(** val key_of_N : n -> text **)

let key_of_N =
  dec_N

(** val n_of_key : text -> n option **)

let n_of_key s =
  match parse_u32 s with
  | Inl n0 -> if text_eqb (dec_N n0) s then Some n0 else None
  | Inr _ -> None

(** val key_of_Z : z -> text **)

let key_of_Z =
  dec_Z

(** val z_of_key : text -> z option **)

let z_of_key s =
  option_map Z.of_N (n_of_key s)

(** val encode_entries :
    ('a1 -> text) -> ('a2 -> json) -> ('a1 * 'a2) list -> json **)

let encode_entries ek ex m =
  JObj (map (fun kx -> ((ek (fst kx)), (ex (snd kx)))) m)

(** val decode_entry :
    (text -> 'a1 option) -> (json -> 'a2 option) -> (text * json) ->
    ('a1 * 'a2) option **)

let decode_entry dk dx kv =
  match dk (fst kv) with
  | Some k -> (match dx (snd kv) with
               | Some x -> Some (k, x)
               | None -> None)
  | None -> None

(** val decode_entries :
    (text -> 'a1 option) -> (json -> 'a2 option) -> json -> ('a1 * 'a2) list
    option **)

let decode_entries dk dx = function
| JObj l -> map_opt (decode_entry dk dx) l
| _ -> None

(** val encode_depmap : ('a1 -> json) -> 'a1 depmap -> json **)

let encode_depmap enc_vs m =
  encode_entries key_of_N enc_vs m

(** val decode_depmap : (json -> 'a1 option) -> json -> 'a1 depmap option **)

let decode_depmap dec_vs j =
  decode_entries n_of_key dec_vs j

(** val encode_inner : ('a1 -> json) -> (z * 'a1 depmap) list -> json **)

let encode_inner enc_vs l =
  encode_entries key_of_Z (encode_depmap enc_vs) l

(** val decode_inner :
    (json -> 'a1 option) -> json -> (z * 'a1 depmap) list option **)

let decode_inner dec_vs j =
  decode_entries z_of_key (decode_depmap dec_vs) j

(** val encode_provider : ('a1 -> json) -> 'a1 provider -> json **)

let encode_provider enc_vs p =
  encode_entries key_of_N (encode_inner enc_vs) p

(** val decode_provider :
    (json -> 'a1 option) -> json -> 'a1 provider option **)

let decode_provider dec_vs j =
  decode_entries n_of_key (decode_inner dec_vs) j

(** val encode_range_u32 : RZ.range -> json **)

let encode_range_u32 r =
  encode_range enc_num r

(** val decode_range_u32 : json -> RZ.range option **)

let decode_range_u32 j =
  decode_range dec_u32 j

(** val encode_range_sv : (semver bound * semver bound) list -> json **)

let encode_range_sv r =
  encode_range enc_sv r

(** val decode_range_sv :
    json -> (semver bound * semver bound) list option **)

let decode_range_sv j =
  decode_range dec_sv j

(** val encode_provider_u32 : RZ.range provider -> json **)

let encode_provider_u32 p =
  encode_provider encode_range_u32 p

(** val decode_provider_u32 : json -> RZ.range provider option **)

let decode_provider_u32 j =
  decode_provider decode_range_u32 j

type ('vS, 'vr) merge_res =
| MMerged of ('vS, 'vr) tree
| MNotMergeable
| MPanic

(** val merge_no_versions :
    ('a1, 'a2) vSOps -> ('a1, 'a2) tree -> pkg0 -> 'a1 -> ('a1, 'a2) merge_res **)

let merge_no_versions o t0 package set0 =
  match t0 with
  | TExternal e ->
    (match e with
     | XNotRoot (_, _) -> MPanic
     | XFromDep (p1, r1, p2, r2) ->
       if N.eqb p1 package
       then MMerged (TExternal (XFromDep (p1, (o.vs_union r1 set0), p2, r2)))
       else MMerged (TExternal (XFromDep (p1, r1, p2, (o.vs_union r2 set0))))
     | _ -> MNotMergeable)
  | TDerived (_, _, _, _) -> MMerged t0

type ('vS, 'vr) collapse_res =
| CTree of ('vS, 'vr) tree
| CPanic

(** val merge_or_keep :
    ('a1, 'a2) vSOps -> ('a1, 'a2) tree -> pkg0 -> 'a1 -> ('a1, 'a2) tree ->
    ('a1, 'a2) collapse_res **)

let merge_or_keep o other p r self_now =
  match merge_no_versions o other p r with
  | MMerged t' -> CTree t'
  | MNotMergeable -> CTree self_now
  | MPanic -> CPanic

(** val collapse_no_versions :
    ('a1, 'a2) vSOps -> ('a1, 'a2) tree -> ('a1, 'a2) collapse_res **)

let rec collapse_no_versions o t0 = match t0 with
| TExternal _ -> CTree t0
| TDerived (ts, sh, c1, c2) ->
  (match c1 with
   | TExternal e ->
     (match e with
      | XNoVersions (p, r) ->
        (match collapse_no_versions o c2 with
         | CTree c2' -> merge_or_keep o c2' p r (TDerived (ts, sh, c1, c2'))
         | CPanic -> CPanic)
      | _ ->
        (match c2 with
         | TExternal e0 ->
           (match e0 with
            | XNoVersions (p, r) ->
              (match collapse_no_versions o c1 with
               | CTree c1' ->
                 merge_or_keep o c1' p r (TDerived (ts, sh, c1', c2))
               | CPanic -> CPanic)
            | _ ->
              (match collapse_no_versions o c1 with
               | CTree c1' ->
                 (match collapse_no_versions o c2 with
                  | CTree c2' -> CTree (TDerived (ts, sh, c1', c2'))
                  | CPanic -> CPanic)
               | CPanic -> CPanic))
         | TDerived (_, _, _, _) ->
           (match collapse_no_versions o c1 with
            | CTree c1' ->
              (match collapse_no_versions o c2 with
               | CTree c2' -> CTree (TDerived (ts, sh, c1', c2'))
               | CPanic -> CPanic)
            | CPanic -> CPanic)))
   | TDerived (_, _, _, _) ->
     (match c2 with
      | TExternal e ->
        (match e with
         | XNoVersions (p, r) ->
           (match collapse_no_versions o c1 with
            | CTree c1' ->
              merge_or_keep o c1' p r (TDerived (ts, sh, c1', c2))
            | CPanic -> CPanic)
         | _ ->
           (match collapse_no_versions o c1 with
            | CTree c1' ->
              (match collapse_no_versions o c2 with
               | CTree c2' -> CTree (TDerived (ts, sh, c1', c2'))
               | CPanic -> CPanic)
            | CPanic -> CPanic))
      | TDerived (_, _, _, _) ->
        (match collapse_no_versions o c1 with
         | CTree c1' ->
           (match collapse_no_versions o c2 with
            | CTree c2' -> CTree (TDerived (ts, sh, c1', c2'))
            | CPanic -> CPanic)
         | CPanic -> CPanic)))

type ('vS, 'vr) step_kind =
| KBothExternal of ('vS, 'vr) external0 * ('vS, 'vr) external0
| KBothRef of nat * (pkg0 * 'vS term) list * nat * (pkg0 * 'vS term) list
| KRefAndExternal of nat * (pkg0 * 'vS term) list * ('vS, 'vr) external0
| KAndExternal of ('vS, 'vr) external0
| KAndRef of nat * (pkg0 * 'vS term) list
| KAndPriorAndExternal of ('vS, 'vr) external0 * ('vS, 'vr) external0
| KBlank
| KOnlyExternal of ('vS, 'vr) external0

type ('vS, 'vr) step = { s_kind : ('vS, 'vr) step_kind;
                         s_concl : (pkg0 * 'vS term) list; s_nums : nat list }

type ('vS, 'vr) rstate = { ref_count : nat;
                           shared_with_ref : (nat * nat) list;
                           lines : ('vS, 'vr) step list }

(** val rstate_new : ('a1, 'a2) rstate **)

let rstate_new =
  { ref_count = O; shared_with_ref = []; lines = [] }

(** val lookup : nat -> (nat * nat) list -> nat option **)

let rec lookup id = function
| [] -> None
| p :: r -> let (k, v) = p in if eqb id k then Some v else lookup id r

(** val line_ref_of : ('a1, 'a2) rstate -> nat option -> nat option **)

let line_ref_of st = function
| Some id -> lookup id st.shared_with_ref
| None -> None

(** val push :
    ('a1, 'a2) rstate -> ('a1, 'a2) step_kind -> (pkg0 * 'a1 term) list ->
    ('a1, 'a2) rstate **)

let push st k concl =
  { ref_count = st.ref_count; shared_with_ref = st.shared_with_ref; lines =
    ({ s_kind = k; s_concl = concl; s_nums = [] } :: st.lines) }

(** val add_num : ('a1, 'a2) step -> nat -> ('a1, 'a2) step **)

let add_num s n0 =
  { s_kind = s.s_kind; s_concl = s.s_concl; s_nums =
    (app s.s_nums (n0 :: [])) }

(** val add_line_ref : ('a1, 'a2) rstate -> ('a1, 'a2) rstate **)

let add_line_ref st =
  let n0 = S st.ref_count in
  { ref_count = n0; shared_with_ref = st.shared_with_ref; lines =
  (match st.lines with
   | [] -> []
   | l :: r -> (add_num l n0) :: r) }

(** val insert_shared :
    ('a1, 'a2) rstate -> nat -> nat -> ('a1, 'a2) rstate **)

let insert_shared st id n0 =
  { ref_count = st.ref_count; shared_with_ref = ((id,
    n0) :: st.shared_with_ref); lines = st.lines }

(** val bind0 :
    ('a1, 'a2) rstate option -> (('a1, 'a2) rstate -> ('a1, 'a2) rstate
    option) -> ('a1, 'a2) rstate option **)

let bind0 x f =
  match x with
  | Some s -> f s
  | None -> None

(** val report_recurse_one_each :
    ((pkg0 * 'a1 term) list -> nat option -> ('a1, 'a2) tree -> ('a1, 'a2)
    tree -> ('a1, 'a2) rstate -> ('a1, 'a2) rstate option) -> (pkg0 * 'a1
    term) list -> nat option -> ('a1, 'a2) tree -> ('a1, 'a2) tree -> ('a1,
    'a2) external0 -> (pkg0 * 'a1 term) list -> ('a1, 'a2) rstate -> ('a1,
    'a2) rstate option **)

let report_recurse_one_each rec0 dts dsh dc1 dc2 e cur st =
  match dc1 with
  | TExternal prior ->
    (match dc2 with
     | TExternal _ ->
       bind0 (rec0 dts dsh dc1 dc2 st) (fun st0 -> Some
         (push st0 (KAndExternal e) cur))
     | TDerived (pts, psh, pc1, pc2) ->
       bind0 (rec0 pts psh pc1 pc2 st) (fun st0 -> Some
         (push st0 (KAndPriorAndExternal (prior, e)) cur)))
  | TDerived (pts, psh, pc1, pc2) ->
    (match dc2 with
     | TExternal prior ->
       bind0 (rec0 pts psh pc1 pc2 st) (fun st0 -> Some
         (push st0 (KAndPriorAndExternal (prior, e)) cur))
     | TDerived (_, _, _, _) ->
       bind0 (rec0 dts dsh dc1 dc2 st) (fun st0 -> Some
         (push st0 (KAndExternal e) cur)))

(** val report_one_each :
    ((pkg0 * 'a1 term) list -> nat option -> ('a1, 'a2) tree -> ('a1, 'a2)
    tree -> ('a1, 'a2) rstate -> ('a1, 'a2) rstate option) -> (pkg0 * 'a1
    term) list -> nat option -> ('a1, 'a2) tree -> ('a1, 'a2) tree -> ('a1,
    'a2) external0 -> (pkg0 * 'a1 term) list -> ('a1, 'a2) rstate -> ('a1,
    'a2) rstate option **)

let report_one_each rec0 dts dsh dc1 dc2 e cur st =
  match line_ref_of st dsh with
  | Some ref_id -> Some (push st (KRefAndExternal (ref_id, dts, e)) cur)
  | None -> report_recurse_one_each rec0 dts dsh dc1 dc2 e cur st

(** val build_recursive_helper :
    ((pkg0 * 'a1 term) list -> nat option -> ('a1, 'a2) tree -> ('a1, 'a2)
    tree -> ('a1, 'a2) rstate -> ('a1, 'a2) rstate option) -> (pkg0 * 'a1
    term) list -> nat option -> ('a1, 'a2) tree -> ('a1, 'a2) tree -> ('a1,
    'a2) rstate -> ('a1, 'a2) rstate option **)

let build_recursive_helper rec0 ts sh c1 c2 st =
  match c1 with
  | TExternal e ->
    (match c2 with
     | TExternal e2 -> Some (push st (KBothExternal (e, e2)) ts)
     | TDerived (dts, dsh, dc1, dc2) ->
       report_one_each rec0 dts dsh dc1 dc2 e ts st)
  | TDerived (ts1, sh1, a1, b1) ->
    (match c2 with
     | TExternal e -> report_one_each rec0 ts1 sh1 a1 b1 e ts st
     | TDerived (ts2, sh2, a2, b2) ->
       (match line_ref_of st sh1 with
        | Some ref1 ->
          (match line_ref_of st sh2 with
           | Some ref2 -> Some (push st (KBothRef (ref1, ts1, ref2, ts2)) ts)
           | None ->
             bind0 (rec0 ts2 sh2 a2 b2 st) (fun st0 -> Some
               (push st0 (KAndRef (ref1, ts1)) ts)))
        | None ->
          (match line_ref_of st sh2 with
           | Some ref2 ->
             bind0 (rec0 ts1 sh1 a1 b1 st) (fun st0 -> Some
               (push st0 (KAndRef (ref2, ts2)) ts))
           | None ->
             bind0 (rec0 ts1 sh1 a1 b1 st) (fun st0 ->
               match sh1 with
               | Some _ -> rec0 ts sh c1 c2 (push st0 KBlank [])
               | None ->
                 let st1 = add_line_ref st0 in
                 let ref1 = st1.ref_count in
                 let st2 = push st1 KBlank [] in
                 bind0 (rec0 ts2 sh2 a2 b2 st2) (fun st3 -> Some
                   (push st3 (KAndRef (ref1, ts1)) ts))))))

(** val build_recursive :
    nat -> (pkg0 * 'a1 term) list -> nat option -> ('a1, 'a2) tree -> ('a1,
    'a2) tree -> ('a1, 'a2) rstate -> ('a1, 'a2) rstate option **)

let rec build_recursive fuel ts sh c1 c2 st =
  match fuel with
  | O -> None
  | S fuel' ->
    bind0 (build_recursive_helper (build_recursive fuel') ts sh c1 c2 st)
      (fun st0 ->
      match sh with
      | Some id ->
        (match lookup id st0.shared_with_ref with
         | Some _ -> Some st0
         | None ->
           let st1 = add_line_ref st0 in
           Some (insert_shared st1 id st1.ref_count))
      | None -> Some st0)

(** val tree_size : ('a1, 'a2) tree -> nat **)

let rec tree_size = function
| TExternal _ -> S O
| TDerived (_, _, c1, c2) -> S (add (tree_size c1) (tree_size c2))

type ('vS, 'vr) report_res =
| RSteps of ('vS, 'vr) step list
| ROutOfFuel

(** val report_with_fuel : nat -> ('a1, 'a2) tree -> ('a1, 'a2) report_res **)

let report_with_fuel fuel = function
| TExternal e ->
  RSteps ({ s_kind = (KOnlyExternal e); s_concl = []; s_nums = [] } :: [])
| TDerived (ts, sh, c1, c2) ->
  (match build_recursive fuel ts sh c1 c2 rstate_new with
   | Some st -> RSteps (rev0 st.lines)
   | None -> ROutOfFuel)

(** val report_steps : ('a1, 'a2) tree -> ('a1, 'a2) report_res **)

let report_steps t0 =
  report_with_fuel (add (mul (S (S O)) (tree_size t0)) (S (S O))) t0

type ('vS, 'vr) tprovider = { p_cancel : (('vS, 'vr) event list -> bool);
                              p_prio : (('vS, 'vr) event list -> pkg0 -> 'vS
                                       -> z);
                              p_choose : (('vS, 'vr) event list -> pkg0 ->
                                         'vS -> 'vr choose_ans);
                              p_deps : (('vS, 'vr) event list -> pkg0 -> 'vr
                                       -> 'vS deps_ans) }

(** val gen_prioritize :
    ('a1, 'a2) tprovider -> (pkg0 * 'a1) list -> (pkg0 * (z * 'a1)) list ->
    ('a1, 'a2) event list -> (pkg0 * (z * 'a1)) list * ('a1, 'a2) event list **)

let rec gen_prioritize pg cands q hist =
  match cands with
  | [] -> (q, [])
  | p0 :: r ->
    let (p, s) = p0 in
    let e = EvPrioritize (p, s, (pg.p_prio hist p s)) in
    let (q', evs) =
      gen_prioritize pg r (set p ((pg.p_prio hist p s), s) q)
        (app hist (e :: []))
    in
    (q', (e :: evs))

(** val res_out_g :
    'a1 pick_info list -> nat -> 'a3 res -> ('a3 -> ('a1, 'a2) result * ('a1,
    'a2) event list) -> ('a1, 'a2) state -> ('a1, 'a2) event list -> ('a1,
    'a2) result * ('a1, 'a2) event list **)

let res_out_g log cnt r k st hist =
  match r with
  | Good a -> k a
  | Panic s -> (((((OPanic s), st), log), cnt), hist)

(** val resolve_loop_g :
    ('a1, 'a2) vSOps -> ('a2 -> 'a2 -> bool) -> ('a1, 'a2) tprovider -> nat
    -> ('a1, 'a2) state -> pkg0 -> (pkg0 * 'a2) list -> pkg0 heap -> ('a1,
    'a2) event list -> 'a1 pick_info list -> ('a1, 'a2) result * ('a1, 'a2)
    event list **)

let rec resolve_loop_g o veqb0 pg fuel st next added hp hist log =
  match fuel with
  | O -> ((((OOutOfFuel, st), log), (length hist)), hist)
  | S fuel' ->
    let ok = pg.p_cancel hist in
    let hist1 = app hist ((EvCancel ok) :: []) in
    if negb ok
    then ((((OErrCancel, st), log), (length hist1)), hist1)
    else (match unit_propagation o fuel st (next :: []) with
          | Inl u ->
            (match u with
             | UPOk st1 ->
               let (q, evs) =
                 gen_prioritize pg (pick_candidates st1.ps) st1.ps.queue hist1
               in
               let hist2 = app hist1 evs in
               let hp1 = heap_after_propagation st1.ps.queue hp in
               let hp2 = heap_pushes hp1 evs in
               let p1 = st1.ps in
               let log1 =
                 app log ((((undecided_positive p1), q),
                   (length hist2)) :: [])
               in
               let with_queue = fun q' -> { next_gidx = p1.next_gidx; level =
                 p1.level; assignments = p1.assignments; queue = q';
                 changed = (length p1.assignments); backtracked =
                 p1.backtracked }
               in
               (match queue_max q with
                | Some mx ->
                  (match heap_pop hp2 with
                   | Some p0 ->
                     let (p2, hp3) = p0 in
                     let (p, _) = p2 in
                     (match get p q with
                      | Some p3 ->
                        let (prio, _) = p3 in
                        if negb (Z.eqb prio mx)
                        then (((((OPickNotMax ((length hist2), p)), st1),
                               log1), (length hist2)), hist2)
                        else let st2 = upd_ps st1 (with_queue (remove p q)) in
                             (match term_for st2.ps p with
                              | Some ti ->
                                (match ti with
                                 | Pos cur_set ->
                                   let ans = pg.p_choose hist2 p cur_set in
                                   let hist3 =
                                     app hist2 ((EvChoose (p, cur_set,
                                       ans)) :: [])
                                   in
                                   (match ans with
                                    | CSome v ->
                                      if negb (t_contains o ti v)
                                      then (((((OFailure
                                             FIncompatibleVersion), st2),
                                             log1), (length hist3)), hist3)
                                      else if added_has veqb0 added p v
                                           then res_out_g log1 (length hist3)
                                                  (add_decision o st2.ps p v)
                                                  (fun p' ->
                                                  resolve_loop_g o veqb0 pg
                                                    fuel' (upd_ps st2 p') p
                                                    added hp3 hist3 log1) st2
                                                  hist3
                                           else let added' = (p, v) :: added
                                                in
                                                let dans = pg.p_deps hist3 p v
                                                in
                                                let hist4 =
                                                  app hist3 ((EvDeps (p, v,
                                                    dans)) :: [])
                                                in
                                                (match dans with
                                                 | DAvail deps ->
                                                   res_out_g log1
                                                     (length hist4)
                                                     (add_incompatibility_from_dependencies
                                                       o st2 p v deps)
                                                     (fun pat ->
                                                     let (st3, range0) = pat
                                                     in
                                                     res_out_g log1
                                                       (length hist4)
                                                       (add_version o st3.ps
                                                         p v range0 st3.store)
                                                       (fun p' ->
                                                       resolve_loop_g o veqb0
                                                         pg fuel'
                                                         (upd_ps st3 p') p
                                                         added' hp3 hist4 log1)
                                                       st3 hist4) st2 hist4
                                                 | DUnavail m ->
                                                   res_out_g log1
                                                     (length hist4)
                                                     (add_incompatibility o
                                                       st2
                                                       (custom_version o p v
                                                         m)) (fun st3 ->
                                                     resolve_loop_g o veqb0
                                                       pg fuel' st3 p added'
                                                       hp3 hist4 log1) st2
                                                     hist4
                                                 | DErr ->
                                                   (((((OErrDeps (p, v)),
                                                     st2), log1),
                                                     (length hist4)), hist4))
                                    | CNone ->
                                      (match no_versions p ti with
                                       | Some inc ->
                                         res_out_g log1 (length hist3)
                                           (add_incompatibility o st2 inc)
                                           (fun st3 ->
                                           resolve_loop_g o veqb0 pg fuel'
                                             st3 p added hp3 hist3 log1) st2
                                           hist3
                                       | None ->
                                         (((((OPanic PNoVersionsNegative),
                                           st2), log1), (length hist3)),
                                           hist3))
                                    | CErr ->
                                      ((((OErrChoose, st2), log1),
                                        (length hist3)), hist3))
                                 | Neg _ ->
                                   (((((OPanic PUnwrapPositive), st2), log1),
                                     (length hist2)), hist2))
                              | None ->
                                (((((OFailure FNoTerm), st2), log1),
                                  (length hist2)), hist2))
                      | None ->
                        (((((OPickNotMax ((length hist2), p)), st1), log1),
                          (length hist2)), hist2))
                   | None ->
                     (((((OMismatch ((length hist2), (Npos (XO (XI XH))))),
                       st1), log1), (length hist2)), hist2))
                | None ->
                  ((res_out log1 (length hist2) (extract_solution p1)
                     (fun sol -> ((((OSolution sol),
                     (upd_ps st1 (with_queue q))), log1), (length hist2)))
                     st1), hist2))
             | UPConflict (st1, id) ->
               (match build_derivation_tree st1.store id with
                | Some t0 ->
                  (((((ONoSolution t0), st1), log), (length hist1)), hist1)
                | None ->
                  (((((OPanic PTreeMissing), st1), log), (length hist1)),
                    hist1)))
          | Inr o0 ->
            (match o0 with
             | EFuel -> ((((OOutOfFuel, st), log), (length hist1)), hist1)
             | EPanic s -> (((((OPanic s), st), log), (length hist1)), hist1)))

(** val resolve_g :
    ('a1, 'a2) vSOps -> ('a2 -> 'a2 -> bool) -> ('a1, 'a2) tprovider -> nat
    -> pkg0 -> 'a2 -> ('a1, 'a2) result * ('a1, 'a2) event list **)

let resolve_g o veqb0 pg fuel r v =
  resolve_loop_g o veqb0 pg fuel (state_init o r v) r [] [] [] []
