
type ('a, 'b) sum =
| Inl of 'a
| Inr of 'b

(** val app : 'a1 list -> 'a1 list -> 'a1 list **)

let rec app l m =
  match l with
  | [] -> m
  | a :: l1 -> a :: (app l1 m)

type comparison =
| Eq
| Lt
| Gt

type uint =
| Nil
| D0 of uint
| D1 of uint
| D2 of uint
| D3 of uint
| D4 of uint
| D5 of uint
| D6 of uint
| D7 of uint
| D8 of uint
| D9 of uint

(** val revapp : uint -> uint -> uint **)

let rec revapp d d' =
  match d with
  | Nil -> d'
  | D0 d0 -> revapp d0 (D0 d')
  | D1 d0 -> revapp d0 (D1 d')
  | D2 d0 -> revapp d0 (D2 d')
  | D3 d0 -> revapp d0 (D3 d')
  | D4 d0 -> revapp d0 (D4 d')
  | D5 d0 -> revapp d0 (D5 d')
  | D6 d0 -> revapp d0 (D6 d')
  | D7 d0 -> revapp d0 (D7 d')
  | D8 d0 -> revapp d0 (D8 d')
  | D9 d0 -> revapp d0 (D9 d')

(** val rev : uint -> uint **)

let rev d =
  revapp d Nil

module Little =
 struct
  (** val double : uint -> uint **)

  let rec double = function
  | Nil -> Nil
  | D0 d0 -> D0 (double d0)
  | D1 d0 -> D2 (double d0)
  | D2 d0 -> D4 (double d0)
  | D3 d0 -> D6 (double d0)
  | D4 d0 -> D8 (double d0)
  | D5 d0 -> D0 (succ_double d0)
  | D6 d0 -> D2 (succ_double d0)
  | D7 d0 -> D4 (succ_double d0)
  | D8 d0 -> D6 (succ_double d0)
  | D9 d0 -> D8 (succ_double d0)

  (** val succ_double : uint -> uint **)

  and succ_double = function
  | Nil -> D1 Nil
  | D0 d0 -> D1 (double d0)
  | D1 d0 -> D3 (double d0)
  | D2 d0 -> D5 (double d0)
  | D3 d0 -> D7 (double d0)
  | D4 d0 -> D9 (double d0)
  | D5 d0 -> D1 (succ_double d0)
  | D6 d0 -> D3 (succ_double d0)
  | D7 d0 -> D5 (succ_double d0)
  | D8 d0 -> D7 (succ_double d0)
  | D9 d0 -> D9 (succ_double d0)
 end

type positive =
| XI of positive
| XO of positive
| XH

type n =
| N0
| Npos of positive

type z =
| Z0
| Zpos of positive
| Zneg of positive

module Pos =
 struct
  type mask =
  | IsNul
  | IsPos of positive
  | IsNeg
 end

module Coq_Pos =
 struct
  (** val succ : positive -> positive **)

  let rec succ = function
  | XI p -> XO (succ p)
  | XO p -> XI p
  | XH -> XO XH

  (** val add : positive -> positive -> positive **)

  let rec add x y =
    match x with
    | XI p ->
      (match y with
       | XI q -> XO (add_carry p q)
       | XO q -> XI (add p q)
       | XH -> XO (succ p))
    | XO p ->
      (match y with
       | XI q -> XI (add p q)
       | XO q -> XO (add p q)
       | XH -> XI p)
    | XH -> (match y with
             | XI q -> XO (succ q)
             | XO q -> XI q
             | XH -> XO XH)

  (** val add_carry : positive -> positive -> positive **)

  and add_carry x y =
    match x with
    | XI p ->
      (match y with
       | XI q -> XI (add_carry p q)
       | XO q -> XO (add_carry p q)
       | XH -> XI (succ p))
    | XO p ->
      (match y with
       | XI q -> XO (add_carry p q)
       | XO q -> XI (add p q)
       | XH -> XO (succ p))
    | XH ->
      (match y with
       | XI q -> XI (succ q)
       | XO q -> XO (succ q)
       | XH -> XI XH)

  (** val pred_double : positive -> positive **)

  let rec pred_double = function
  | XI p -> XI (XO p)
  | XO p -> XI (pred_double p)
  | XH -> XH

  type mask = Pos.mask =
  | IsNul
  | IsPos of positive
  | IsNeg

  (** val succ_double_mask : mask -> mask **)

  let succ_double_mask = function
  | IsNul -> IsPos XH
  | IsPos p -> IsPos (XI p)
  | IsNeg -> IsNeg

  (** val double_mask : mask -> mask **)

  let double_mask = function
  | IsPos p -> IsPos (XO p)
  | x0 -> x0

  (** val double_pred_mask : positive -> mask **)

  let double_pred_mask = function
  | XI p -> IsPos (XO (XO p))
  | XO p -> IsPos (XO (pred_double p))
  | XH -> IsNul

  (** val sub_mask : positive -> positive -> mask **)

  let rec sub_mask x y =
    match x with
    | XI p ->
      (match y with
       | XI q -> double_mask (sub_mask p q)
       | XO q -> succ_double_mask (sub_mask p q)
       | XH -> IsPos (XO p))
    | XO p ->
      (match y with
       | XI q -> succ_double_mask (sub_mask_carry p q)
       | XO q -> double_mask (sub_mask p q)
       | XH -> IsPos (pred_double p))
    | XH -> (match y with
             | XH -> IsNul
             | _ -> IsNeg)

  (** val sub_mask_carry : positive -> positive -> mask **)

  and sub_mask_carry x y =
    match x with
    | XI p ->
      (match y with
       | XI q -> succ_double_mask (sub_mask_carry p q)
       | XO q -> double_mask (sub_mask p q)
       | XH -> IsPos (pred_double p))
    | XO p ->
      (match y with
       | XI q -> double_mask (sub_mask_carry p q)
       | XO q -> succ_double_mask (sub_mask_carry p q)
       | XH -> double_pred_mask p)
    | XH -> IsNeg

  (** val mul : positive -> positive -> positive **)

  let rec mul x y =
    match x with
    | XI p -> add y (XO (mul p y))
    | XO p -> XO (mul p y)
    | XH -> y

  (** val compare_cont : comparison -> positive -> positive -> comparison **)

  let rec compare_cont r x y =
    match x with
    | XI p ->
      (match y with
       | XI q -> compare_cont r p q
       | XO q -> compare_cont Gt p q
       | XH -> Gt)
    | XO p ->
      (match y with
       | XI q -> compare_cont Lt p q
       | XO q -> compare_cont r p q
       | XH -> Gt)
    | XH -> (match y with
             | XH -> r
             | _ -> Lt)

  (** val compare : positive -> positive -> comparison **)

  let compare =
    compare_cont Eq

  (** val eqb : positive -> positive -> bool **)

  let rec eqb p q =
    match p with
    | XI p0 -> (match q with
                | XI q0 -> eqb p0 q0
                | _ -> false)
    | XO p0 -> (match q with
                | XO q0 -> eqb p0 q0
                | _ -> false)
    | XH -> (match q with
             | XH -> true
             | _ -> false)

  (** val to_little_uint : positive -> uint **)

  let rec to_little_uint = function
  | XI p0 -> Little.succ_double (to_little_uint p0)
  | XO p0 -> Little.double (to_little_uint p0)
  | XH -> D1 Nil

  (** val to_uint : positive -> uint **)

  let to_uint p =
    rev (to_little_uint p)
 end

module N =
 struct
  (** val add : n -> n -> n **)

  let add n0 m =
    match n0 with
    | N0 -> m
    | Npos p -> (match m with
                 | N0 -> n0
                 | Npos q -> Npos (Coq_Pos.add p q))

  (** val sub : n -> n -> n **)

  let sub n0 m =
    match n0 with
    | N0 -> N0
    | Npos n' ->
      (match m with
       | N0 -> n0
       | Npos m' ->
         (match Coq_Pos.sub_mask n' m' with
          | Coq_Pos.IsPos p -> Npos p
          | _ -> N0))

  (** val mul : n -> n -> n **)

  let mul n0 m =
    match n0 with
    | N0 -> N0
    | Npos p -> (match m with
                 | N0 -> N0
                 | Npos q -> Npos (Coq_Pos.mul p q))

  (** val compare : n -> n -> comparison **)

  let compare n0 m =
    match n0 with
    | N0 -> (match m with
             | N0 -> Eq
             | Npos _ -> Lt)
    | Npos n' -> (match m with
                  | N0 -> Gt
                  | Npos m' -> Coq_Pos.compare n' m')

  (** val eqb : n -> n -> bool **)

  let eqb n0 m =
    match n0 with
    | N0 -> (match m with
             | N0 -> true
             | Npos _ -> false)
    | Npos p -> (match m with
                 | N0 -> false
                 | Npos q -> Coq_Pos.eqb p q)

  (** val leb : n -> n -> bool **)

  let leb x y =
    match compare x y with
    | Gt -> false
    | _ -> true

  (** val ltb : n -> n -> bool **)

  let ltb x y =
    match compare x y with
    | Lt -> true
    | _ -> false

  (** val to_uint : n -> uint **)

  let to_uint = function
  | N0 -> D0 Nil
  | Npos p -> Coq_Pos.to_uint p
 end

type ascii =
| Ascii of bool * bool * bool * bool * bool * bool * bool * bool

(** val n_of_digits : bool list -> n **)

let rec n_of_digits = function
| [] -> N0
| b :: l' ->
  N.add (if b then Npos XH else N0) (N.mul (Npos (XO XH)) (n_of_digits l'))

(** val n_of_ascii : ascii -> n **)

let n_of_ascii = function
| Ascii (a0, a1, a2, a3, a4, a5, a6, a7) ->
  n_of_digits
    (a0 :: (a1 :: (a2 :: (a3 :: (a4 :: (a5 :: (a6 :: (a7 :: []))))))))

(** val rev0 : 'a1 list -> 'a1 list **)

let rec rev0 = function
| [] -> []
| x :: l' -> app (rev0 l') (x :: [])

type string =
| EmptyString
| String of ascii * string

type text = n list

(** val bytes_of_string : string -> text **)

let rec bytes_of_string = function
| EmptyString -> []
| String (c, r) -> (n_of_ascii c) :: (bytes_of_string r)

(** val txt : string -> text **)

let txt =
  bytes_of_string

(** val uint_bytes : uint -> text **)

let rec uint_bytes = function
| Nil -> []
| D0 r -> (Npos (XO (XO (XO (XO (XI XH)))))) :: (uint_bytes r)
| D1 r -> (Npos (XI (XO (XO (XO (XI XH)))))) :: (uint_bytes r)
| D2 r -> (Npos (XO (XI (XO (XO (XI XH)))))) :: (uint_bytes r)
| D3 r -> (Npos (XI (XI (XO (XO (XI XH)))))) :: (uint_bytes r)
| D4 r -> (Npos (XO (XO (XI (XO (XI XH)))))) :: (uint_bytes r)
| D5 r -> (Npos (XI (XO (XI (XO (XI XH)))))) :: (uint_bytes r)
| D6 r -> (Npos (XO (XI (XI (XO (XI XH)))))) :: (uint_bytes r)
| D7 r -> (Npos (XI (XI (XI (XO (XI XH)))))) :: (uint_bytes r)
| D8 r -> (Npos (XO (XO (XO (XI (XI XH)))))) :: (uint_bytes r)
| D9 r -> (Npos (XI (XO (XO (XI (XI XH)))))) :: (uint_bytes r)

(** val dec_N : n -> text **)

let dec_N n0 =
  uint_bytes (N.to_uint n0)

(** val dec_Z : z -> text **)

let dec_Z = function
| Z0 -> (Npos (XO (XO (XO (XO (XI XH)))))) :: []
| Zpos p -> dec_N (Npos p)
| Zneg p -> (Npos (XI (XO (XI (XI (XO XH)))))) :: (dec_N (Npos p))

(** val is_digit : n -> bool **)

let is_digit c =
  (&&) (N.leb (Npos (XO (XO (XO (XO (XI XH)))))) c)
    (N.leb c (Npos (XI (XO (XO (XI (XI XH)))))))

type semver = { major : n; minor : n; patch : n }

(** val u32_max : n **)

let u32_max =
  Npos (XI (XI (XI (XI (XI (XI (XI (XI (XI (XI (XI (XI (XI (XI (XI (XI (XI
    (XI (XI (XI (XI (XI (XI (XI (XI (XI (XI (XI (XI (XI (XI
    XH)))))))))))))))))))))))))))))))

(** val in_u32 : n -> bool **)

let in_u32 n0 =
  N.leb n0 u32_max

(** val sv_display : semver -> text **)

let sv_display v =
  app (dec_N v.major)
    (app ((Npos (XO (XI (XI (XI (XO XH)))))) :: [])
      (app (dec_N v.minor)
        (app ((Npos (XO (XI (XI (XI (XO XH)))))) :: []) (dec_N v.patch))))

(** val split_dot_aux : text -> text -> text list **)

let rec split_dot_aux cur = function
| [] -> (rev0 cur) :: []
| c :: r ->
  if N.eqb c (Npos (XO (XI (XI (XI (XO XH))))))
  then (rev0 cur) :: (split_dot_aux [] r)
  else split_dot_aux (c :: cur) r

(** val split_dot : text -> text list **)

let split_dot s =
  split_dot_aux [] s

type int_err =
| IEmpty
| IInvalidDigit
| IPosOverflow

(** val parse_digits : n -> text -> (n, int_err) sum **)

let rec parse_digits acc = function
| [] -> Inl acc
| c :: r ->
  if is_digit c
  then let acc' =
         N.add (N.mul acc (Npos (XO (XI (XO XH)))))
           (N.sub c (Npos (XO (XO (XO (XO (XI XH)))))))
       in
       if in_u32 acc' then parse_digits acc' r else Inr IPosOverflow
  else Inr IInvalidDigit

(** val parse_u32 : text -> (n, int_err) sum **)

let parse_u32 s = match s with
| [] -> Inr IEmpty
| c :: r ->
  (match r with
   | [] ->
     if (||) (N.eqb c (Npos (XI (XI (XO (XI (XO XH)))))))
          (N.eqb c (Npos (XI (XO (XI (XI (XO XH)))))))
     then Inr IInvalidDigit
     else parse_digits N0 s
   | _ :: _ ->
     if N.eqb c (Npos (XI (XI (XO (XI (XO XH))))))
     then parse_digits N0 r
     else parse_digits N0 s)

type sv_parse_result =
| ParseOk of semver
| NotThreeParts of text
| ParseIntError of text * text * int_err

(** val sv_parse : text -> sv_parse_result **)

let sv_parse s =
  match split_dot s with
  | [] -> NotThreeParts s
  | a :: l ->
    (match l with
     | [] -> NotThreeParts s
     | b :: l0 ->
       (match l0 with
        | [] -> NotThreeParts s
        | c :: l1 ->
          (match l1 with
           | [] ->
             (match parse_u32 a with
              | Inl ma ->
                (match parse_u32 b with
                 | Inl mi ->
                   (match parse_u32 c with
                    | Inl pa -> ParseOk { major = ma; minor = mi; patch = pa }
                    | Inr e -> ParseIntError (s, c, e))
                 | Inr e -> ParseIntError (s, b, e))
              | Inr e -> ParseIntError (s, a, e))
           | _ :: _ -> NotThreeParts s)))

(** val sv_compare : semver -> semver -> comparison **)

let sv_compare u v =
  match N.compare u.major v.major with
  | Eq ->
    (match N.compare u.minor v.minor with
     | Eq -> N.compare u.patch v.patch
     | x -> x)
  | x -> x

(** val sv_to_tuple : semver -> (n * n) * n **)

let sv_to_tuple v =
  ((v.major, v.minor), v.patch)

(** val sv_of_tuple : ((n * n) * n) -> semver **)

let sv_of_tuple = function
| (p, c) -> let (a, b) = p in { major = a; minor = b; patch = c }

(** val bump_patch : semver -> semver option **)

let bump_patch v =
  if N.ltb v.patch u32_max
  then Some { major = v.major; minor = v.minor; patch =
         (N.add v.patch (Npos XH)) }
  else None

(** val bump_minor : semver -> semver option **)

let bump_minor v =
  if N.ltb v.minor u32_max
  then Some { major = v.major; minor = (N.add v.minor (Npos XH)); patch = N0 }
  else None

(** val bump_major : semver -> semver option **)

let bump_major v =
  if N.ltb v.major u32_max
  then Some { major = (N.add v.major (Npos XH)); minor = N0; patch = N0 }
  else None
