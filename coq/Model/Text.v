(* Text utilities shared by the executable model.
   Text is [list N] of UTF-8 byte codes (no extraction directive for strings is needed;
   the OCaml driver converts at the I/O boundary).  Definitions only. *)
From Coq Require Export Ascii String.
From Coq Require Export List NArith ZArith Bool.
From Coq Require Decimal DecimalN.
Export ListNotations.
Open Scope N_scope.

Definition text := list N.

Fixpoint bytes_of_string (s : string) : text :=
  match s with
  | EmptyString => []
  | String c r => N_of_ascii c :: bytes_of_string r
  end.
Definition txt (s : string) : text := bytes_of_string s.

(* decimal rendering of a natural number: Rust's [Display for u32/usize] *)
Fixpoint uint_bytes (d : Decimal.uint) : text :=
  match d with
  | Decimal.Nil => []
  | Decimal.D0 r => 48 :: uint_bytes r | Decimal.D1 r => 49 :: uint_bytes r
  | Decimal.D2 r => 50 :: uint_bytes r | Decimal.D3 r => 51 :: uint_bytes r
  | Decimal.D4 r => 52 :: uint_bytes r | Decimal.D5 r => 53 :: uint_bytes r
  | Decimal.D6 r => 54 :: uint_bytes r | Decimal.D7 r => 55 :: uint_bytes r
  | Decimal.D8 r => 56 :: uint_bytes r | Decimal.D9 r => 57 :: uint_bytes r
  end.

Definition dec_N (n : N) : text := uint_bytes (N.to_uint n).

(* Z rendering: Rust's Display for signed integers (used for versions that are integers) *)
Definition dec_Z (z : Z) : text :=
  match z with
  | Z0 => [48]
  | Zpos p => dec_N (Npos p)
  | Zneg p => 45 :: dec_N (Npos p)
  end.

Definition is_digit (c : N) : bool := (48 <=? c) && (c <=? 57).

Fixpoint text_eqb (a b : text) : bool :=
  match a, b with
  | [], [] => true
  | x :: a', y :: b' => (x =? y) && text_eqb a' b'
  | _, _ => false
  end.

(* join with a separator *)
Fixpoint join (sep : text) (l : list text) : text :=
  match l with
  | [] => []
  | [x] => x
  | x :: r => x ++ sep ++ join sep r
  end.
