(* Model of src/internal/small_vec.rs: four representations, everything observable goes through as_slice. *)
From Coq Require Import List.
Import ListNotations.

Inductive smallvec (T : Type) :=
| SvEmpty
| SvOne (a : T)
| SvTwo (a b : T)
| SvFlexible (v : list T).
Arguments SvEmpty {T}.
Arguments SvOne {T} a.
Arguments SvTwo {T} a b.
Arguments SvFlexible {T} v.

Section SV.
  Context {T : Type}.

  Definition sv_as_slice (x : smallvec T) : list T :=
    match x with SvEmpty => [] | SvOne a => [a] | SvTwo a b => [a; b] | SvFlexible v => v end.

  Definition sv_push (x : smallvec T) (t : T) : smallvec T :=
    match x with
    | SvEmpty => SvOne t
    | SvOne a => SvTwo a t
    | SvTwo a b => SvFlexible [a; b; t]
    | SvFlexible v => SvFlexible (v ++ [t])
    end.

  Definition sv_pop (x : smallvec T) : smallvec T * option T :=
    match x with
    | SvEmpty => (SvEmpty, None)
    | SvOne a => (SvEmpty, Some a)
    | SvTwo a b => (SvOne a, Some b)
    | SvFlexible v =>
        match rev v with
        | [] => (SvFlexible [], None)
        | t :: r => (SvFlexible (rev r), Some t)
        end
    end.

  Definition sv_clear (x : smallvec T) : smallvec T :=
    match x with SvFlexible _ => SvFlexible [] | _ => SvEmpty end.

  Definition sv_len (x : smallvec T) : nat := length (sv_as_slice x).

  Fixpoint list_eqb (teqb : T -> T -> bool) (a b : list T) : bool :=
    match a, b with
    | [], [] => true
    | x :: a', y :: b' => andb (teqb x y) (list_eqb teqb a' b')
    | _, _ => false
    end.

  (* PartialEq: self.as_slice() == other.as_slice() *)
  Definition sv_eqb (teqb : T -> T -> bool) (x y : smallvec T) : bool :=
    list_eqb teqb (sv_as_slice x) (sv_as_slice y).

  (* Hash: self.len().hash(state); Hash::hash_slice(self.as_slice(), state) — the stream fed to the hasher *)
  Definition sv_hash_stream {H : Type} (hash_elt : T -> H) (x : smallvec T) : nat * list H :=
    (sv_len x, map hash_elt (sv_as_slice x)).
End SV.
