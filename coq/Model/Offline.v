(* Model of OfflineDependencyProvider (src/solver.rs l.295-393).  Packages are numbers, versions are
   integers (only Eq/Hash on packages and Ord on versions are used); version sets are abstract. *)
From Coq Require Import List NArith ZArith Bool.
Import ListNotations.

Section Offline.
  Context {VS : Type} (contains : VS -> Z -> bool).

  Definition pkg := N.
  (* DependencyConstraints = Map<P, VS>: association list with unique keys (iteration order of the
     hash map is not modelled; it is compared as a map) *)
  Definition depmap := list (pkg * VS).
  (* Map<P, BTreeMap<V, DependencyConstraints>>: inner list strictly ascending in V *)
  Definition provider := list (pkg * list (Z * depmap)).

  Definition empty_provider : provider := [].

  Fixpoint dm_insert (q : pkg) (s : VS) (m : depmap) : depmap :=
    match m with
    | [] => [(q, s)]
    | (q', s') :: r => if N.eqb q q' then (q, s) :: r else (q', s') :: dm_insert q s r
    end.
  Fixpoint dm_get (q : pkg) (m : depmap) : option VS :=
    match m with
    | [] => None
    | (q', s') :: r => if N.eqb q q' then Some s' else dm_get q r
    end.
  (* dependencies.into_iter().collect(): later entries for the same package win *)
  Definition collect (l : list (pkg * VS)) : depmap :=
    fold_left (fun m qs => dm_insert (fst qs) (snd qs) m) l [].

  (* BTreeMap entry(v).or_default() = deps *)
  Fixpoint inner_set (v : Z) (d : depmap) (l : list (Z * depmap)) : list (Z * depmap) :=
    match l with
    | [] => [(v, d)]
    | (w, d') :: r =>
        match Z.compare v w with
        | Lt => (v, d) :: l
        | Eq => (v, d) :: r
        | Gt => (w, d') :: inner_set v d r
        end
    end.
  Fixpoint inner_get (v : Z) (l : list (Z * depmap)) : option depmap :=
    match l with
    | [] => None
    | (w, d) :: r => if Z.eqb v w then Some d else inner_get v r
    end.

  Fixpoint outer_get (p : pkg) (prov : provider) : option (list (Z * depmap)) :=
    match prov with
    | [] => None
    | (p', l) :: r => if N.eqb p p' then Some l else outer_get p r
    end.
  Fixpoint outer_set (p : pkg) (l : list (Z * depmap)) (prov : provider) : provider :=
    match prov with
    | [] => [(p, l)]
    | (p', l') :: r => if N.eqb p p' then (p, l) :: r else (p', l') :: outer_set p l r
    end.

  Definition add_dependencies (prov : provider) (p : pkg) (v : Z) (deps : list (pkg * VS)) : provider :=
    let inner := match outer_get p prov with Some l => l | None => [] end in
    outer_set p (inner_set v (collect deps) inner) prov.

  Definition packages (prov : provider) : list pkg := map fst prov.
  Definition versions (prov : provider) (p : pkg) : option (list Z) :=
    option_map (map fst) (outer_get p prov).
  Definition dependencies (prov : provider) (p : pkg) (v : Z) : option depmap :=
    match outer_get p prov with Some l => inner_get v l | None => None end.

  (* versions.keys().rev().find(|v| range.contains(v)) *)
  Definition choose_version (prov : provider) (p : pkg) (s : VS) : option Z :=
    match versions prov p with
    | Some vs => hd_error (filter (contains s) (rev vs))
    | None => None
    end.
  (* Reverse(count): the count; a smaller count is a higher priority *)
  Definition prioritize_count (prov : provider) (p : pkg) (s : VS) : nat :=
    match versions prov p with
    | Some vs => length (filter (contains s) vs)
    | None => 0
    end.
  (* Ord for Reverse<usize> *)
  Definition priority_compare (a b : nat) : comparison := Nat.compare b a.

  Inductive dependencies_result := Unavailable | Available (d : depmap).
  Definition get_dependencies (prov : provider) (p : pkg) (v : Z) : dependencies_result :=
    match dependencies prov p v with None => Unavailable | Some d => Available d end.

  (* a history of add_dependencies calls *)
  Definition op := (pkg * Z * list (pkg * VS))%type.
  Definition run (ops : list op) : provider :=
    fold_left (fun prov o => add_dependencies prov (fst (fst o)) (snd (fst o)) (snd o)) ops empty_provider.
End Offline.
