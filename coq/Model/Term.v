(* Model of src/term.rs over any VersionSet.  Definitions only. *)
From Coq Require Import List Bool.
From PG Require Import Model.VS.

Inductive term (VS : Type) := Pos (s : VS) | Neg (s : VS).
Arguments Pos {VS} s.
Arguments Neg {VS} s.

Inductive relation := Satisfied | Contradicted | Inconclusive.

Section Term.
  Context {VS Vr : Type} (O : VSOps VS Vr).

  Definition t_any : term VS := Neg (vs_empty O).
  Definition t_empty : term VS := Pos (vs_empty O).
  Definition t_exact (v : Vr) : term VS := Pos (vs_singleton O v).
  Definition t_is_positive (t : term VS) : bool := match t with Pos _ => true | Neg _ => false end.

  Definition t_negate (t : term VS) : term VS :=
    match t with Pos s => Neg s | Neg s => Pos s end.

  Definition t_contains (t : term VS) (v : Vr) : bool :=
    match t with Pos s => vs_contains O s v | Neg s => negb (vs_contains O s v) end.

  Definition t_intersection (t u : term VS) : term VS :=
    match t, u with
    | Pos r1, Pos r2 => Pos (vs_intersection O r1 r2)
    | Pos p, Neg n => Pos (vs_intersection O (vs_complement O n) p)
    | Neg n, Pos p => Pos (vs_intersection O (vs_complement O n) p)
    | Neg r1, Neg r2 => Neg (vs_union O r1 r2)
    end.

  (* the (Negative, Negative) arm: two negative terms are never disjoint (both hold when the package
     is not selected) *)
  Definition t_is_disjoint (t u : term VS) : bool :=
    match t, u with
    | Pos r1, Pos r2 => vs_is_disjoint O r1 r2
    | Neg r1, Neg r2 => false
    | Pos p, Neg n => vs_subset_of O p n
    | Neg n, Pos p => vs_subset_of O p n
    end.

  (* the arm as it stood before the repair (finding F2), kept to state the refutation *)
  Definition t_is_disjoint_pre_fix (t u : term VS) : bool :=
    match t, u with
    | Neg r1, Neg r2 => vs_eqb O r1 (vs_empty O) && vs_eqb O r2 (vs_empty O)
    | _, _ => t_is_disjoint t u
    end.

  Definition t_union (t u : term VS) : term VS :=
    match t, u with
    | Pos r1, Pos r2 => Pos (vs_union O r1 r2)
    | Pos p, Neg n => Neg (vs_intersection O (vs_complement O p) n)
    | Neg n, Pos p => Neg (vs_intersection O (vs_complement O p) n)
    | Neg r1, Neg r2 => Neg (vs_intersection O r1 r2)
    end.

  Definition t_subset_of (t u : term VS) : bool :=
    match t, u with
    | Pos r1, Pos r2 => vs_subset_of O r1 r2
    | Pos r1, Neg r2 => vs_is_disjoint O r1 r2
    | Neg _, Pos _ => false
    | Neg r1, Neg r2 => vs_subset_of O r2 r1
    end.

  Definition t_relation_with (t other : term VS) : relation :=
    if t_subset_of other t then Satisfied
    else if t_is_disjoint t other then Contradicted
    else Inconclusive.

  Definition t_eqb (t u : term VS) : bool :=
    match t, u with
    | Pos a, Pos b => vs_eqb O a b
    | Neg a, Neg b => vs_eqb O a b
    | _, _ => false
    end.
End Term.
