(* Model of src/report.rs: DerivationTree::collapse_no_versions / merge_no_versions and the
   DefaultStringReporter (build_recursive, build_recursive_helper, report_one_each,
   report_recurse_one_each, add_line_ref, line_ref_of) as a function from a derivation tree to the list
   of abstract steps it hands to a ReportFormatter.  Definitions only.

   The tree type is the one of Model/Solver.v.  A Rust `Derived` is the four components of a
   [TDerived] node.  The reporter is generic in the formatter: a step records WHICH callback produced a
   line and the arguments it received, plus the " (n)" suffixes add_line_ref appended afterwards. *)
From Coq Require Import List NArith Bool.
From PG Require Import Model.VS Model.Term Model.Solver.
Import ListNotations.

Section Report.
  Context {VS Vr : Type} (O : VSOps VS Vr).

  Notation tm := (term VS).
  Notation terms := (list (pkg * tm)).
  Notation ext := (@external VS Vr).
  Notation dtree := (@tree VS Vr).

  (* ---------------------------------------------------------------- collapse_no_versions *)

  (* merge_no_versions(self, package, set) -> Option<Self>, with the panic! of the NotRoot arm explicit *)
  Inductive merge_res :=
  | MMerged (t : dtree)     (* Some(tree) *)
  | MNotMergeable           (* None *)
  | MPanic.                 (* "How did we end up with a NoVersions merged with a NotRoot?" *)

  Definition merge_no_versions (t : dtree) (package : pkg) (set : VS) : merge_res :=
    match t with
    | TDerived _ _ _ _ => MMerged t
    | TExternal (XNotRoot _ _) => MPanic
    | TExternal (XNoVersions _ _) => MNotMergeable
    | TExternal (XFromDep p1 r1 p2 r2) =>
        if N.eqb p1 package
        then MMerged (TExternal (XFromDep p1 (vs_union O r1 set) p2 r2))
        else MMerged (TExternal (XFromDep p1 r1 p2 (vs_union O r2 set)))
    | TExternal (XCustom _ _ _) => MNotMergeable
    end.

  Inductive collapse_res :=
  | CTree (t : dtree)
  | CPanic.

  (* what `*self = other.clone().merge_no_versions(p, r).unwrap_or_else(|| self.to_owned())` leaves in
     *self; [self_now] is self with the already collapsed other cause written back *)
  Definition merge_or_keep (other : dtree) (p : pkg) (r : VS) (self_now : dtree) : collapse_res :=
    match merge_no_versions other p r with
    | MMerged t' => CTree t'
    | MNotMergeable => CTree self_now
    | MPanic => CPanic
    end.

  Fixpoint collapse_no_versions (t : dtree) : collapse_res :=
    match t with
    | TExternal _ => CTree t
    | TDerived ts sh c1 c2 =>
        match c1 with
        | TExternal (XNoVersions p r) =>
            (* first arm: (NoVersions, ref mut cause2) *)
            match collapse_no_versions c2 with
            | CPanic => CPanic
            | CTree c2' => merge_or_keep c2' p r (TDerived ts sh c1 c2')
            end
        | _ =>
            match c2 with
            | TExternal (XNoVersions p r) =>
                (* second arm: (ref mut cause1, NoVersions) *)
                match collapse_no_versions c1 with
                | CPanic => CPanic
                | CTree c1' => merge_or_keep c1' p r (TDerived ts sh c1' c2)
                end
            | _ =>
                match collapse_no_versions c1 with
                | CPanic => CPanic
                | CTree c1' =>
                    match collapse_no_versions c2 with
                    | CPanic => CPanic
                    | CTree c2' => CTree (TDerived ts sh c1' c2')
                    end
                end
            end
        end
    end.

  (* ---------------------------------------------------------------- reporter steps *)

  (* which ReportFormatter callback produced the line, with the arguments it received
     (a `&Derived` argument is used by formatters through its terms only: we record ref id and terms) *)
  Inductive step_kind :=
  | KBothExternal (e1 e2 : ext)                                  (* explain_both_external *)
  | KBothRef (r1 : nat) (t1 : terms) (r2 : nat) (t2 : terms)     (* explain_both_ref *)
  | KRefAndExternal (r : nat) (t : terms) (e : ext)              (* explain_ref_and_external *)
  | KAndExternal (e : ext)                                       (* and_explain_external *)
  | KAndRef (r : nat) (t : terms)                                (* and_explain_ref *)
  | KAndPriorAndExternal (prior e : ext)                         (* and_explain_prior_and_external *)
  | KBlank                                                       (* lines.push("") *)
  | KOnlyExternal (e : ext).                                     (* format_external: the tree is one leaf *)

  Record step := {
    s_kind : step_kind;
    s_concl : terms;          (* the current_terms argument ([] for KBlank / KOnlyExternal) *)
    s_nums : list nat;        (* the " (n)" suffixes appended by add_line_ref, in order *)
  }.

  (* DefaultStringReporter { ref_count, shared_with_ref, lines }; [lines] newest first *)
  Record rstate := {
    ref_count : nat;
    shared_with_ref : list (nat * nat);
    lines : list step;
  }.

  Definition rstate_new : rstate := {| ref_count := 0; shared_with_ref := []; lines := [] |}.

  Fixpoint lookup (id : nat) (m : list (nat * nat)) : option nat :=
    match m with
    | [] => None
    | (k, v) :: r => if Nat.eqb id k then Some v else lookup id r
    end.

  Definition line_ref_of (st : rstate) (shared : option nat) : option nat :=
    match shared with
    | None => None
    | Some id => lookup id (shared_with_ref st)
    end.

  Definition push (st : rstate) (k : step_kind) (concl : terms) : rstate :=
    {| ref_count := ref_count st; shared_with_ref := shared_with_ref st;
       lines := {| s_kind := k; s_concl := concl; s_nums := [] |} :: lines st |}.

  Definition add_num (s : step) (n : nat) : step :=
    {| s_kind := s_kind s; s_concl := s_concl s; s_nums := s_nums s ++ [n] |}.

  (* fn add_line_ref: ref_count += 1; if let Some(line) = lines.last_mut() { line += " (n)" } *)
  Definition add_line_ref (st : rstate) : rstate :=
    let n := S (ref_count st) in
    {| ref_count := n; shared_with_ref := shared_with_ref st;
       lines := match lines st with [] => [] | l :: r => add_num l n :: r end |}.

  Definition insert_shared (st : rstate) (id n : nat) : rstate :=
    {| ref_count := ref_count st; shared_with_ref := (id, n) :: shared_with_ref st; lines := lines st |}.

  Definition bind (x : option rstate) (f : rstate -> option rstate) : option rstate :=
    match x with None => None | Some s => f s end.

  Section OneLevel.
    (* build_recursive with one unit of fuel less; None = out of fuel *)
    Variable rec : terms -> option nat -> dtree -> dtree -> rstate -> option rstate.

    (* fn report_recurse_one_each(derived, external, current_terms) *)
    Definition report_recurse_one_each (dts : terms) (dsh : option nat) (dc1 dc2 : dtree)
               (e : ext) (cur : terms) (st : rstate) : option rstate :=
      match dc1, dc2 with
      | TDerived pts psh pc1 pc2, TExternal prior =>
          bind (rec pts psh pc1 pc2 st) (fun st => Some (push st (KAndPriorAndExternal prior e) cur))
      | TExternal prior, TDerived pts psh pc1 pc2 =>
          bind (rec pts psh pc1 pc2 st) (fun st => Some (push st (KAndPriorAndExternal prior e) cur))
      | _, _ =>
          bind (rec dts dsh dc1 dc2 st) (fun st => Some (push st (KAndExternal e) cur))
      end.

    (* fn report_one_each(derived, external, current_terms) *)
    Definition report_one_each (dts : terms) (dsh : option nat) (dc1 dc2 : dtree)
               (e : ext) (cur : terms) (st : rstate) : option rstate :=
      match line_ref_of st dsh with
      | Some ref_id => Some (push st (KRefAndExternal ref_id dts e) cur)
      | None => report_recurse_one_each dts dsh dc1 dc2 e cur st
      end.

    (* fn build_recursive_helper(current) *)
    Definition build_recursive_helper (ts : terms) (sh : option nat) (c1 c2 : dtree) (st : rstate)
      : option rstate :=
      match c1, c2 with
      | TExternal e1, TExternal e2 => Some (push st (KBothExternal e1 e2) ts)
      | TDerived dts dsh dc1 dc2, TExternal e => report_one_each dts dsh dc1 dc2 e ts st
      | TExternal e, TDerived dts dsh dc1 dc2 => report_one_each dts dsh dc1 dc2 e ts st
      | TDerived ts1 sh1 a1 b1, TDerived ts2 sh2 a2 b2 =>
          match line_ref_of st sh1, line_ref_of st sh2 with
          | Some ref1, Some ref2 => Some (push st (KBothRef ref1 ts1 ref2 ts2) ts)
          | Some ref1, None =>
              bind (rec ts2 sh2 a2 b2 st) (fun st => Some (push st (KAndRef ref1 ts1) ts))
          | None, Some ref2 =>
              bind (rec ts1 sh1 a1 b1 st) (fun st => Some (push st (KAndRef ref2 ts2) ts))
          | None, None =>
              bind (rec ts1 sh1 a1 b1 st) (fun st =>
                match sh1 with
                | Some _ =>
                    (* lines.push(""); self.build_recursive(current, formatter) *)
                    rec ts sh c1 c2 (push st KBlank [])
                | None =>
                    let st := add_line_ref st in
                    let ref1 := ref_count st in
                    let st := push st KBlank [] in
                    bind (rec ts2 sh2 a2 b2 st) (fun st => Some (push st (KAndRef ref1 ts1) ts))
                end)
          end
      end.
  End OneLevel.

  (* fn build_recursive(derived): helper, then number the last line if the node is shared and has no
     reference yet.  Every recursive call of the Rust code re-enters here, so one unit of fuel per call. *)
  Fixpoint build_recursive (fuel : nat) (ts : terms) (sh : option nat) (c1 c2 : dtree) (st : rstate)
    : option rstate :=
    match fuel with
    | 0 => None
    | S fuel' =>
        bind (build_recursive_helper (build_recursive fuel') ts sh c1 c2 st) (fun st =>
          match sh with
          | Some id =>
              match lookup id (shared_with_ref st) with
              | Some _ => Some st
              | None => let st := add_line_ref st in Some (insert_shared st id (ref_count st))
              end
          | None => Some st
          end)
    end.

  Fixpoint tree_size (t : dtree) : nat :=
    match t with
    | TExternal _ => 1
    | TDerived _ _ c1 c2 => S (tree_size c1 + tree_size c2)
    end.

  Inductive report_res :=
  | RSteps (l : list step)     (* reporter.lines, oldest first *)
  | ROutOfFuel.

  Definition report_with_fuel (fuel : nat) (t : dtree) : report_res :=
    match t with
    | TExternal e => RSteps [{| s_kind := KOnlyExternal e; s_concl := []; s_nums := [] |}]
    | TDerived ts sh c1 c2 =>
        match build_recursive fuel ts sh c1 c2 rstate_new with
        | Some st => RSteps (rev (lines st))
        | None => ROutOfFuel
        end
    end.

  (* the call nesting of build_recursive is at most twice the height of the tree (one re-entry per node) *)
  Definition report_steps (t : dtree) : report_res := report_with_fuel (2 * tree_size t + 2) t.

End Report.

Arguments MMerged {VS Vr} t.
Arguments MNotMergeable {VS Vr}.
Arguments MPanic {VS Vr}.
Arguments CTree {VS Vr} t.
Arguments CPanic {VS Vr}.
Arguments RSteps {VS Vr} l.
Arguments ROutOfFuel {VS Vr}.
