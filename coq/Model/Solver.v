(* Executable model of the PubGrub solver: src/internal/{incompatibility,partial_solution,core}.rs and
   src/solver.rs::resolve, generic in the VersionSet (a VSOps record).  Definitions only.

   Fidelity notes (DESIGN.md 5.2):
   - maps are association lists; SmallMap / FxHashMap iteration order is not modelled: [relation]
     is order-insensitive (any contradicted term => Contradicted), which can only change WHICH
     contradicted incompatibilities are cached, never what the solver does;
   - IndexMap order of package_assignments IS modelled (list order, swap_indices, retain);
   - the priority queue is a map; ties among maximal priorities are resolved by the recorded trace
     (the model accepts the package the implementation picked iff its priority is maximal);
   - the provider is replaced by the recorded trace of calls and answers; the model checks that each
     recorded call is the call it would make;
   - std's partition_point is modelled as "first index where the predicate fails";
   - every panic!/unwrap/expect/unreachable!/debug_assert site of the source is a [Panic] outcome. *)
From Coq Require Import List NArith ZArith Bool.
From PG Require Import Model.VS Model.Term Model.Heap.
Import ListNotations.

Definition pkg := N.

Section Solver.
  Context {VS Vr : Type} (O : VSOps VS Vr) (veqb : Vr -> Vr -> bool).

  Notation tm := (term VS).

  (* ---------------------------------------------------------------- incompatibilities *)
  Inductive kind :=
  | KNotRoot (p : pkg) (v : Vr)
  | KNoVersions (p : pkg) (s : VS)
  | KFromDep (p : pkg) (s : VS) (q : pkg) (t : VS)
  | KDerived (i j : nat)
  | KCustom (p : pkg) (s : VS) (m : N).

  Record incompat := { terms : list (pkg * tm); ikind : kind }.

  Fixpoint get {A} (p : pkg) (m : list (pkg * A)) : option A :=
    match m with
    | [] => None
    | (q, a) :: r => if N.eqb p q then Some a else get p r
    end.
  Fixpoint remove {A} (p : pkg) (m : list (pkg * A)) : list (pkg * A) :=
    match m with
    | [] => []
    | (q, a) :: r => if N.eqb p q then remove p r else (q, a) :: remove p r
    end.
  Fixpoint set {A} (p : pkg) (a : A) (m : list (pkg * A)) : list (pkg * A) :=
    match m with
    | [] => [(p, a)]
    | (q, b) :: r => if N.eqb p q then (p, a) :: r else (q, b) :: set p a r
    end.

  Definition not_root (p : pkg) (v : Vr) : incompat :=
    {| terms := [(p, Neg (vs_singleton O v))]; ikind := KNotRoot p v |}.

  (* panics on a negative term *)
  Definition no_versions (p : pkg) (t : tm) : option incompat :=
    match t with
    | Pos r => Some {| terms := [(p, t)]; ikind := KNoVersions p r |}
    | Neg _ => None
    end.

  Definition custom_version (p : pkg) (v : Vr) (m : N) : incompat :=
    let s := vs_singleton O v in {| terms := [(p, Pos s)]; ikind := KCustom p s m |}.

  (* from_dependency, with the repaired treatment of a dependency of a package on itself (finding F1):
     a version depending on its own package outside the set is simply forbidden *)
  Definition from_dependency (p : pkg) (versions : VS) (dep : pkg * VS) : incompat :=
    let '(p2, set2) := dep in
    {| terms :=
         if vs_eqb O set2 (vs_empty O) then [(p, Pos versions)]
         else if N.eqb p p2 then [(p, Pos (vs_intersection O versions (vs_complement O set2)))]
         else [(p, Pos versions); (p2, Neg set2)];
       ikind := KFromDep p versions p2 set2 |}.

  Definition as_dependency (i : incompat) : option (pkg * pkg) :=
    match ikind i with KFromDep p1 _ p2 _ => Some (p1, p2) | _ => None end.

  Definition opt_term_eqb (a b : option tm) : bool :=
    match a, b with
    | Some x, Some y => t_eqb O x y
    | None, None => true
    | _, _ => false
    end.

  Inductive panic_site :=
  | PIndexMissing | PGetUnwrap | PSatisfierUnreachable | PSatisfierCauseNone | PMustBeDecision
  | PMustExist | PDerivationAfterDecision | PDecisionNoDerivations | PDecisionAlready
  | PDecisionNotContained | PDecisionChangedAssert | PExtractDerivation | PNoVersionsNegative
  | PSplitOne | PUnwrapPositive | PUnwrapNegative | PTreeMissing | PBacktrackEmpty | PAnyTerm.

  Inductive res (A : Type) := Good (a : A) | Panic (s : panic_site).
  Arguments Good {A} a.
  Arguments Panic {A} s.
  Definition bind {A B} (r : res A) (f : A -> res B) : res B :=
    match r with Good a => f a | Panic s => Panic s end.
  Notation "'do' x <- r ; k" := (bind r (fun x => k)) (at level 200, x pattern, r at level 100, k at level 200).

  Definition unwrap_positive (t : tm) : res VS := match t with Pos s => Good s | Neg _ => Panic PUnwrapPositive end.
  Definition unwrap_negative (t : tm) : res VS := match t with Neg s => Good s | Pos _ => Panic PUnwrapNegative end.
  Definition req {A} (o : option A) (s : panic_site) : res A := match o with Some a => Good a | None => Panic s end.

  (* merge_dependents: [None] = not mergeable *)
  Definition merge_dependents (self other : incompat) : res (option incompat) :=
    match as_dependency self, as_dependency other with
    | Some (p1, p2), Some (q1, q2) =>
        if negb (N.eqb p1 q1 && N.eqb p2 q2) then Good None
        else if N.eqb p1 p2 then Good None     (* repaired: a self-dependency has no dependency term to compare *)
        else
          let dep_term := get p2 (terms self) in
          if negb (opt_term_eqb dep_term (get p2 (terms other))) then Good None
          else
            do t1 <- req (get p1 (terms self)) PGetUnwrap;
            do t2 <- req (get p1 (terms other)) PGetUnwrap;
            do s1 <- unwrap_positive t1;
            do s2 <- unwrap_positive t2;
            do dset <- match dep_term with None => Good (vs_empty O) | Some t => unwrap_negative t end;
            Good (Some (from_dependency p1 (vs_union O s1 s2) (p2, dset)))
    | _, _ => Good None
    end.

  (* SmallMap::merge with f = |t1, t2| Some(t1.intersection(t2)) *)
  Fixpoint merge_terms (m : list (pkg * tm)) (other : list (pkg * tm)) : list (pkg * tm) :=
    match other with
    | [] => m
    | (q, t2) :: r =>
        merge_terms (match get q m with
                     | None => m ++ [(q, t2)]
                     | Some t1 => set q (t_intersection O t1 t2) m
                     end) r
    end.

  Definition prior_cause (i j : nat) (ti tj : list (pkg * tm)) (p : pkg) : res incompat :=
    do t1 <- req (get p ti) PSplitOne;
    do t2 <- req (get p tj) PGetUnwrap;
    let rest := merge_terms (remove p ti) (remove p tj) in
    let t := t_union O t1 t2 in
    Good {| terms := if t_eqb O t (t_any O) then rest else set p t rest; ikind := KDerived i j |}.

  Definition is_terminal (i : incompat) (root : pkg) (rootv : Vr) : bool :=
    match terms i with
    | [] => true
    | [(p, t)] => N.eqb p root && t_contains O t rootv
    | _ => false
    end.

  (* ---------------------------------------------------------------- partial solution *)
  Record dated := { d_gidx : nat; d_level : nat; d_cause : nat; d_accum : tm }.
  Inductive assign_inter :=
  | ADecision (gidx : nat) (v : Vr) (t : tm)
  | ADerivations (t : tm).
  Record pa := { smallest : nat; highest : nat; derivs : list dated; ai : assign_inter }.

  Definition ai_term (a : assign_inter) : tm := match a with ADecision _ _ t => t | ADerivations t => t end.

  Record psol := {
    next_gidx : nat;
    level : nat;
    assignments : list (pkg * pa);      (* IndexMap: insertion order *)
    queue : list (pkg * (Z * VS));      (* PriorityQueue as a map package -> priority; the set the priority
                                           was reported for is ghost state (not in the implementation) *)
    changed : nat;
    backtracked : bool;
  }.

  Definition ps_empty : psol :=
    {| next_gidx := 0; level := 0; assignments := []; queue := []; changed := 0; backtracked := false |}.

  Definition term_for (ps : psol) (p : pkg) : option tm := option_map (fun a => ai_term (ai a)) (get p (assignments ps)).

  Fixpoint index_of (p : pkg) (m : list (pkg * pa)) (i : nat) : option nat :=
    match m with
    | [] => None
    | (q, _) :: r => if N.eqb p q then Some i else index_of p r (S i)
    end.

  (* swap the entries at positions i and j *)
  Definition swap_indices {A} (l : list A) (i j : nat) : list A :=
    match nth_error l i, nth_error l j with
    | Some a, Some b =>
        map (fun '(k, x) => if Nat.eqb k i then b else if Nat.eqb k j then a else x)
            (combine (seq 0 (length l)) l)
    | _, _ => l
    end.

  Inductive rel := RSatisfied | RContradicted | RAlmost (p : pkg) | RInconclusive.

  (* Incompatibility::relation against a lookup of current terms *)
  Fixpoint relation_scan (ts : list (pkg * tm)) (lookup : pkg -> option tm) (incs : list pkg) : option (list pkg) :=
    match ts with
    | [] => Some incs
    | (p, t) :: r =>
        match option_map (t_relation_with O t) (lookup p) with
        | Some Satisfied => relation_scan r lookup incs
        | Some Contradicted => None
        | _ => relation_scan r lookup (incs ++ [p])
        end
    end.
  Definition relation (ts : list (pkg * tm)) (lookup : pkg -> option tm) : rel :=
    match relation_scan ts lookup [] with
    | None => RContradicted
    | Some [] => RSatisfied
    | Some [p] => RAlmost p
    | Some _ => RInconclusive
    end.

  Definition add_decision (ps : psol) (p : pkg) (v : Vr) : res psol :=
    match index_of p (assignments ps) 0, get p (assignments ps) with
    | Some old_idx, Some a =>
        match ai a with
        | ADecision _ _ _ => Panic PDecisionAlready
        | ADerivations t =>
            if negb (t_contains O t v) then Panic PDecisionNotContained
            else if negb (Nat.eqb (changed ps) (length (assignments ps))) then Panic PDecisionChangedAssert
            else
              let new_idx := level ps in
              let lvl := S (level ps) in
              let a' := {| smallest := smallest a; highest := lvl; derivs := derivs a;
                           ai := ADecision (next_gidx ps) v (t_exact O v) |} in
              let asg := set p a' (assignments ps) in
              Good {| next_gidx := S (next_gidx ps); level := lvl;
                      assignments := if Nat.eqb new_idx old_idx then asg else swap_indices asg new_idx old_idx;
                      queue := queue ps; changed := changed ps; backtracked := backtracked ps |}
        end
    | _, _ => Panic PDecisionNoDerivations
    end.

  Definition add_derivation (ps : psol) (p : pkg) (cause : nat) (cause_terms : list (pkg * tm)) : res psol :=
    do ct <- req (get p cause_terms) PGetUnwrap;
    let t0 := t_negate ct in
    let gi := next_gidx ps in
    let pa_last := Nat.pred (length (assignments ps)) in
    match index_of p (assignments ps) 0, get p (assignments ps) with
    | Some idx, Some a =>
        match ai a with
        | ADecision _ _ _ => Panic PDerivationAfterDecision
        | ADerivations t =>
            let t' := t_intersection O t t0 in
            let dd := {| d_gidx := gi; d_level := level ps; d_cause := cause; d_accum := t' |} in
            let a' := {| smallest := smallest a; highest := level ps; derivs := derivs a ++ [dd]; ai := ADerivations t' |} in
            Good {| next_gidx := S gi; level := level ps; assignments := set p a' (assignments ps);
                    queue := queue ps;
                    changed := if t_is_positive t' then Nat.min (changed ps) idx else changed ps;
                    backtracked := backtracked ps |}
        end
    | _, _ =>
        let dd := {| d_gidx := gi; d_level := level ps; d_cause := cause; d_accum := t0 |} in
        let a' := {| smallest := level ps; highest := level ps; derivs := [dd]; ai := ADerivations t0 |} in
        Good {| next_gidx := S gi; level := level ps; assignments := assignments ps ++ [(p, a')];
                queue := queue ps;
                changed := if t_is_positive t0 then Nat.min (changed ps) pa_last else changed ps;
                backtracked := backtracked ps |}
    end.

  (* packages to (re-)prioritize, in IndexMap order, with their current sets *)
  Definition pick_candidates (ps : psol) : list (pkg * VS) :=
    let check_all := Nat.eqb (changed ps) (Nat.pred (level ps)) in
    flat_map (fun '(p, a) =>
                if check_all || Nat.eqb (highest a) (level ps) then
                  match ai a with
                  | ADerivations (Pos s) => [(p, s)]
                  | _ => []
                  end
                else [])
             (skipn (changed ps) (assignments ps)).

  Definition queue_max (q : list (pkg * (Z * VS))) : option Z :=
    match q with
    | [] => None
    | (_, (z, _)) :: r => Some (fold_left (fun m pz => Z.max m (fst (snd pz))) r z)
    end.

  (* while dated_derivations.last().decision_level > L { pop } *)
  Fixpoint drop_while_gt (L : nat) (l : list dated) : list dated :=
    match l with
    | [] => []
    | dd :: r => if Nat.ltb L (d_level dd) then drop_while_gt L r else l
    end.

  Definition backtrack_pa (L : nat) (a : pa) : res (option pa) :=
    if Nat.ltb L (smallest a) then Good None
    else if Nat.leb (highest a) L then Good (Some a)
    else
      let kept := rev (drop_while_gt L (rev (derivs a))) in
      match rev kept with
      | [] => Panic PBacktrackEmpty
      | last :: _ =>
          Good (Some {| smallest := smallest a; highest := d_level last; derivs := kept;
                        ai := ADerivations (d_accum last) |})
      end.

  Fixpoint backtrack_asg (L : nat) (m : list (pkg * pa)) : res (list (pkg * pa)) :=
    match m with
    | [] => Good []
    | (p, a) :: r =>
        do a' <- backtrack_pa L a;
        do r' <- backtrack_asg L r;
        Good (match a' with Some x => (p, x) :: r' | None => r' end)
    end.

  Definition ps_backtrack (ps : psol) (L : nat) : res psol :=
    do asg <- backtrack_asg L (assignments ps);
    Good {| next_gidx := next_gidx ps; level := L; assignments := asg; queue := [];
            changed := Nat.pred L; backtracked := true |}.

  (* PackageAssignments::satisfier *)
  Fixpoint first_disjoint (ds : list dated) (start : tm) : option dated :=
    match ds with
    | [] => None
    | dd :: r => if t_is_disjoint O (d_accum dd) start then Some dd else first_disjoint r start
    end.
  Definition satisfier (a : pa) (start : tm) : res (option nat * nat * nat) :=
    match first_disjoint (derivs a) start with
    | Some dd => Good (Some (d_cause dd), d_gidx dd, d_level dd)
    | None =>
        match ai a with
        | ADecision gi _ _ => Good (None, gi, highest a)
        | ADerivations _ => Panic PSatisfierUnreachable
        end
    end.

  Definition sat_entry := (pkg * (option nat * nat * nat))%type.

  Fixpoint find_satisfier (ts : list (pkg * tm)) (asg : list (pkg * pa)) : res (list sat_entry) :=
    match ts with
    | [] => Good []
    | (p, t) :: r =>
        do a <- req (get p asg) PMustExist;
        do s <- satisfier a (t_negate t);
        do rest <- find_satisfier r asg;
        Good ((p, s) :: rest)
    end.

  Definition max_by_gidx (m : list sat_entry) : option sat_entry :=
    fold_left (fun acc e =>
                 match acc with
                 | None => Some e
                 | Some b => if Nat.leb (snd (fst (snd b))) (snd (fst (snd e))) then Some e else Some b
                 end) m None.

  Inductive search := SDifferent (prev_level : nat) | SSame (cause : nat).

  Definition satisfier_search (ts : list (pkg * tm)) (ps : psol) (store : list incompat)
    : res (pkg * search) :=
    do m <- find_satisfier ts (assignments ps);
    do top <- req (max_by_gidx m) PMustExist;
    let '(sp, (scause, _, slevel)) := top in
    do spa <- req (get sp (assignments ps)) PGetUnwrap;
    do accum <- match scause with
                | Some c =>
                    do ci <- req (nth_error store c) PGetUnwrap;
                    do ct <- req (get sp (terms ci)) PGetUnwrap;
                    Good (t_negate ct)
                | None =>
                    match ai spa with
                    | ADecision _ _ t => Good t
                    | ADerivations _ => Panic PMustBeDecision
                    end
                end;
    do it <- req (get sp ts) PGetUnwrap;
    do s2 <- satisfier spa (t_intersection O accum (t_negate it));
    let m' := set sp s2 m in
    do top2 <- req (max_by_gidx m') PMustExist;
    let prev := Nat.max (snd (snd top2)) 1 in
    if Nat.leb slevel prev then
      do c <- req scause PSatisfierCauseNone; Good (sp, SSame c)
    else Good (sp, SDifferent prev).

  (* ---------------------------------------------------------------- state *)
  Record state := {
    root : pkg;
    rootv : Vr;
    index : list (pkg * list nat);              (* incompatibilities: P -> Vec<id> *)
    contradicted : list (nat * nat);            (* id -> decision level *)
    merged : list ((pkg * pkg) * list nat);
    ps : psol;
    store : list incompat;                      (* arena: id = position *)
  }.

  Definition upd_ps (st : state) (p : psol) : state :=
    {| root := root st; rootv := rootv st; index := index st; contradicted := contradicted st;
       merged := merged st; ps := p; store := store st |}.

  Definition state_init (r : pkg) (v : Vr) : state :=
    {| root := r; rootv := v; index := [(r, [0])]; contradicted := []; merged := [];
       ps := ps_empty; store := [not_root r v] |}.

  Definition pair_eqb (a b : pkg * pkg) : bool := N.eqb (fst a) (fst b) && N.eqb (snd a) (snd b).
  Fixpoint get2 (k : pkg * pkg) (m : list ((pkg * pkg) * list nat)) : option (list nat) :=
    match m with
    | [] => None
    | (k', l) :: r => if pair_eqb k k' then Some l else get2 k r
    end.
  Fixpoint set2 (k : pkg * pkg) (l : list nat) (m : list ((pkg * pkg) * list nat)) :=
    match m with
    | [] => [(k, l)]
    | (k', l') :: r => if pair_eqb k k' then (k, l) :: r else (k', l') :: set2 k l r
    end.

  Definition index_get (p : pkg) (ix : list (pkg * list nat)) : list nat :=
    match get p ix with Some l => l | None => [] end.

  (* find the first past id mergeable with [cur] *)
  Fixpoint find_merge (cur : incompat) (pasts : list nat) (st : list incompat) : res (option (nat * incompat)) :=
    match pasts with
    | [] => Good None
    | past :: r =>
        do pi <- req (nth_error st past) PGetUnwrap;
        do m <- merge_dependents cur pi;
        match m with
        | Some mi => Good (Some (past, mi))
        | None => find_merge cur r st
        end
    end.

  Definition index_push (id : nat) (ts : list (pkg * tm)) (ix : list (pkg * list nat)) : list (pkg * list nat) :=
    fold_left (fun ix pt => set (fst pt) (index_get (fst pt) ix ++ [id]) ix) ts ix.
  Definition index_drop (past : nat) (ts : list (pkg * tm)) (ix : list (pkg * list nat)) : list (pkg * list nat) :=
    fold_left (fun ix pt => set (fst pt) (filter (fun i => negb (Nat.eqb i past)) (index_get (fst pt) ix)) ix) ts ix.

  Definition has_any (ts : list (pkg * tm)) : bool := existsb (fun pt => t_eqb O (snd pt) (t_any O)) ts.

  Definition merge_incompatibility (st : state) (id : nat) : res state :=
    do cur <- req (nth_error (store st) id) PGetUnwrap;
    match as_dependency cur with
    | Some key =>
        let lookup := match get2 key (merged st) with Some l => l | None => [] end in
        do fm <- find_merge cur lookup (store st);
        match fm with
        | Some (past, mi) =>
            let new := length (store st) in
            if has_any (terms mi) then Panic PAnyTerm else
            Good {| root := root st; rootv := rootv st;
                    index := index_push new (terms mi) (index_drop past (terms mi) (index st));
                    contradicted := contradicted st;
                    merged := set2 key (map (fun i => if Nat.eqb i past then new else i) lookup) (merged st);
                    ps := ps st; store := store st ++ [mi] |}
        | None =>
            if has_any (terms cur) then Panic PAnyTerm else
            Good {| root := root st; rootv := rootv st; index := index_push id (terms cur) (index st);
                    contradicted := contradicted st; merged := set2 key (lookup ++ [id]) (merged st);
                    ps := ps st; store := store st |}
        end
    | None =>
        if has_any (terms cur) then Panic PAnyTerm else
        Good {| root := root st; rootv := rootv st; index := index_push id (terms cur) (index st);
                contradicted := contradicted st; merged := merged st; ps := ps st; store := store st |}
    end.

  Definition alloc (st : state) (i : incompat) : state * nat :=
    ({| root := root st; rootv := rootv st; index := index st; contradicted := contradicted st;
        merged := merged st; ps := ps st; store := store st ++ [i] |}, length (store st)).

  Definition add_incompatibility (st : state) (i : incompat) : res state :=
    let '(st', id) := alloc st i in merge_incompatibility st' id.

  Fixpoint merge_range (st : state) (ids : list nat) : res state :=
    match ids with
    | [] => Good st
    | id :: r => do st' <- merge_incompatibility st id; merge_range st' r
    end.

  (* returns the new state and the id range [start, end) *)
  Definition add_incompatibility_from_dependencies (st : state) (p : pkg) (v : Vr) (deps : list (pkg * VS))
    : res (state * (nat * nat)) :=
    let start := length (store st) in
    let news := map (fun d => from_dependency p (vs_singleton O v) d) deps in
    let st1 := {| root := root st; rootv := rootv st; index := index st; contradicted := contradicted st;
                  merged := merged st; ps := ps st; store := store st ++ news |} in
    let stop := start + length news in
    do st2 <- merge_range st1 (seq start (length news));
    Good (st2, (start, stop)).

  Definition add_version (pso : psol) (p : pkg) (v : Vr) (range : nat * nat) (st : list incompat) : res psol :=
    if negb (backtracked pso) then add_decision pso p v
    else
      let exact := t_exact O v in
      let lookup := fun q => if N.eqb q p then Some exact else term_for pso q in
      let news := firstn (snd range - fst range) (skipn (fst range) st) in
      if forallb (fun i => match relation (terms i) lookup with RSatisfied => false | _ => true end) news
      then add_decision pso p v
      else Good pso.

  Definition backtrack (st : state) (inc : nat) (inc_changed : bool) (L : nat) : res state :=
    do p' <- ps_backtrack (ps st) L;
    let st' := {| root := root st; rootv := rootv st; index := index st;
                  contradicted := filter (fun e => Nat.leb (snd e) L) (contradicted st);
                  merged := merged st; ps := p'; store := store st |} in
    if inc_changed then merge_incompatibility st' inc else Good st'.

  Inductive cr_result := CROk (st : state) (p : pkg) (root_cause : nat) | CRTerminal (st : state) (id : nat).

  Inductive outcome_err := EFuel | EPanic (s : panic_site).

  Fixpoint conflict_resolution (fuel : nat) (st : state) (cur : nat) (cur_changed : bool)
    : cr_result + outcome_err :=
    match fuel with
    | 0 => inr EFuel
    | S fuel' =>
        match nth_error (store st) cur with
        | None => inr (EPanic PGetUnwrap)
        | Some ci =>
            if is_terminal ci (root st) (rootv st) then inl (CRTerminal st cur)
            else
              match satisfier_search (terms ci) (ps st) (store st) with
              | Panic s => inr (EPanic s)
              | Good (p, SDifferent L) =>
                  match backtrack st cur cur_changed L with
                  | Panic s => inr (EPanic s)
                  | Good st' => inl (CROk st' p cur)
                  end
              | Good (p, SSame cause) =>
                  match nth_error (store st) cause with
                  | None => inr (EPanic PGetUnwrap)
                  | Some cj =>
                      match prior_cause cur cause (terms ci) (terms cj) p with
                      | Panic s => inr (EPanic s)
                      | Good pc =>
                          let '(st', id) := alloc st pc in
                          conflict_resolution fuel' st' id true
                      end
                  end
              end
        end
    end.

  Definition cache_set (id lvl : nat) (c : list (nat * nat)) : list (nat * nat) :=
    (id, lvl) :: filter (fun e => negb (Nat.eqb (fst e) id)) c.
  Definition cached (id : nat) (c : list (nat * nat)) : bool := existsb (fun e => Nat.eqb (fst e) id) c.
  Definition upd_cache (st : state) (c : list (nat * nat)) : state :=
    {| root := root st; rootv := rootv st; index := index st; contradicted := c; merged := merged st;
       ps := ps st; store := store st |}.

  (* the `for &incompat_id in incompatibilities[current].iter().rev()` loop *)
  Fixpoint scan_incompats (ids : list nat) (st : state) (buffer : list pkg)
    : res (state * list pkg * option nat) :=
    match ids with
    | [] => Good (st, buffer, None)
    | id :: r =>
        if cached id (contradicted st) then scan_incompats r st buffer
        else
          do ci <- req (nth_error (store st) id) PGetUnwrap;
          match relation (terms ci) (term_for (ps st)) with
          | RSatisfied => Good (st, buffer, Some id)
          | RAlmost q =>
              let buffer' := if existsb (N.eqb q) buffer then buffer else buffer ++ [q] in
              do p' <- add_derivation (ps st) q id (terms ci);
              let st' := upd_cache (upd_ps st p') (cache_set id (level p') (contradicted st)) in
              scan_incompats r st' buffer'
          | RContradicted =>
              scan_incompats r (upd_cache st (cache_set id (level (ps st)) (contradicted st))) buffer
          | RInconclusive => scan_incompats r st buffer
          end
    end.

  Inductive up_result := UPOk (st : state) | UPConflict (st : state) (terminal : nat).

  Fixpoint unit_propagation (fuel : nat) (st : state) (buffer : list pkg) : up_result + outcome_err :=
    match fuel with
    | 0 => inr EFuel
    | S fuel' =>
        match rev buffer with
        | [] => inl (UPOk st)
        | cur :: rest_rev =>
            let buffer1 := rev rest_rev in
            match get cur (index st) with
            | None => inr (EPanic PIndexMissing)
            | Some ids =>
                match scan_incompats (rev ids) st buffer1 with
                | Panic s => inr (EPanic s)
                | Good (st1, buffer2, None) => unit_propagation fuel' st1 buffer2
                | Good (st1, _, Some conflict) =>
                    match conflict_resolution fuel' st1 conflict false with
                    | inr e => inr e
                    | inl (CRTerminal st2 id) => inl (UPConflict st2 id)
                    | inl (CROk st2 q root_cause) =>
                        match nth_error (store st2) root_cause with
                        | None => inr (EPanic PGetUnwrap)
                        | Some rc =>
                            match add_derivation (ps st2) q root_cause (terms rc) with
                            | Panic s => inr (EPanic s)
                            | Good p' =>
                                let st3 := upd_cache (upd_ps st2 p') (cache_set root_cause (level p') (contradicted st2)) in
                                unit_propagation fuel' st3 [q]
                            end
                        end
                    end
                end
            end
        end
    end.

  (* ---------------------------------------------------------------- derivation tree *)
  Inductive external :=
  | XNotRoot (p : pkg) (v : Vr)
  | XNoVersions (p : pkg) (s : VS)
  | XFromDep (p : pkg) (s : VS) (q : pkg) (t : VS)
  | XCustom (p : pkg) (s : VS) (m : N).
  Inductive tree :=
  | TExternal (e : external)
  | TDerived (ts : list (pkg * tm)) (shared : option nat) (c1 c2 : tree).

  (* the stack DFS of State::build_derivation_tree: returns (all_ids, shared_ids) *)
  Fixpoint tree_dfs (fuel : nat) (st : list incompat) (stack : list nat) (all shared : list nat)
    : option (list nat * list nat) :=
    match fuel with
    | 0 => None
    | S fuel' =>
        match stack with
        | [] => Some (all, shared)
        | i :: rest =>
            match nth_error st i with
            | None => None
            | Some ci =>
                match ikind ci with
                | KDerived id1 id2 =>
                    if existsb (Nat.eqb i) all
                    then tree_dfs fuel' st rest all (if existsb (Nat.eqb i) shared then shared else i :: shared)
                    else tree_dfs fuel' st (id2 :: id1 :: rest) (i :: all) shared   (* push id1, push id2: id2 is popped first *)
                | _ => tree_dfs fuel' st rest (if existsb (Nat.eqb i) all then all else i :: all) shared
                end
            end
        end
    end.

  Fixpoint tree_of (fuel : nat) (st : list incompat) (shared : list nat) (id : nat) : option tree :=
    match fuel with
    | 0 => None
    | S fuel' =>
        match nth_error st id with
        | None => None
        | Some ci =>
            match ikind ci with
            | KDerived id1 id2 =>
                match tree_of fuel' st shared id1, tree_of fuel' st shared id2 with
                | Some t1, Some t2 =>
                    Some (TDerived (terms ci) (if existsb (Nat.eqb id) shared then Some id else None) t1 t2)
                | _, _ => None
                end
            | KNotRoot p v => Some (TExternal (XNotRoot p v))
            | KNoVersions p s => Some (TExternal (XNoVersions p s))
            | KFromDep p s q t => Some (TExternal (XFromDep p s q t))
            | KCustom p s m => Some (TExternal (XCustom p s m))
            end
        end
    end.

  Definition build_derivation_tree (st : list incompat) (id : nat) : option tree :=
    match tree_dfs (4 * (S (length st)) * (S (length st))) st [id] [] [] with
    | None => None
    | Some (_, shared) => tree_of (S (length st)) st shared id
    end.

  (* ---------------------------------------------------------------- resolve *)
  Inductive choose_ans := CSome (v : Vr) | CNone | CErr.
  Inductive deps_ans := DAvail (d : list (pkg * VS)) | DUnavail (m : N) | DErr.
  Inductive event :=
  | EvCancel (ok : bool)
  | EvPrioritize (p : pkg) (s : VS) (prio : Z)
  | EvChoose (p : pkg) (s : VS) (a : choose_ans)
  | EvDeps (p : pkg) (v : Vr) (a : deps_ans).

  Inductive failure := FNoTerm | FIncompatibleVersion.
  Inductive outcome :=
  | OSolution (sol : list (pkg * Vr))
  | ONoSolution (t : tree)
  | OErrCancel
  | OErrChoose
  | OErrDeps (p : pkg) (v : Vr)
  | OFailure (f : failure)
  | OPanic (s : panic_site)
  | OOutOfFuel
  (* the recorded trace is not a run of the model: at position [at] (number of events consumed)
     the model would have made a different call, or the trace ended *)
  | OMismatch (at_ : nat) (why : N)
  (* the implementation asked to choose a version for a package whose queue priority is not maximal *)
  | OPickNotMax (at_ : nat) (p : pkg).

  (* consume the prioritize calls of one pick, in order *)
  Fixpoint do_prioritize (cands : list (pkg * VS)) (q : list (pkg * (Z * VS))) (tr : list event) (n : nat)
    : (list (pkg * (Z * VS)) * list event * nat) + outcome :=
    match cands with
    | [] => inl (q, tr, n)
    | (p, s) :: r =>
        match tr with
        | EvPrioritize p' s' prio :: tr' =>
            if N.eqb p p' && vs_eqb O s s' then do_prioritize r (set p (prio, s) q) tr' (S n)
            else inr (OMismatch n 1)
        | _ => inr (OMismatch n 1)
        end
    end.

  Definition extract_solution (p : psol) : res (list (pkg * Vr)) :=
    fold_right (fun '(q, a) acc =>
                  do l <- acc;
                  match ai a with
                  | ADecision _ v _ => Good ((q, v) :: l)
                  | ADerivations _ => Panic PExtractDerivation
                  end) (Good []) (firstn (level p) (assignments p)).

  Definition added_has (added : list (pkg * Vr)) (p : pkg) (v : Vr) : bool :=
    existsb (fun e => N.eqb (fst e) p && veqb (snd e) v) added.

  (* what the solver knows at one decision point: every undecided package with a positive term (and
     that term's set), the priority queue after re-prioritisation, and the index of the Choose event *)
  Definition pick_info := (list (pkg * VS) * list (pkg * (Z * VS)) * nat)%type.
  Definition undecided_positive (p : psol) : list (pkg * VS) :=
    flat_map (fun '(q, a) => match ai a with ADerivations (Pos s) => [(q, s)] | _ => [] end) (assignments p).

  (* outcome, final state, decision log, number of trace events consumed *)
  Definition result := (outcome * state * list pick_info * nat)%type.
  Definition res_out {A} (log : list pick_info) (cnt : nat) (r : res A) (k : A -> result) (st : state) : result :=
    match r with Good a => k a | Panic s => (OPanic s, st, log, cnt) end.

  Fixpoint resolve_loop (fuel : nat) (st : state) (next : pkg) (added : list (pkg * Vr))
           (tr : list event) (n : nat) (log : list pick_info) : result :=
    match fuel with
    | 0 => (OOutOfFuel, st, log, n)
    | S fuel' =>
        match tr with
        | EvCancel ok :: tr1 =>
            if negb ok then (OErrCancel, st, log, S n) else
            match unit_propagation fuel st [next] with
            | inr EFuel => (OOutOfFuel, st, log, S n)
            | inr (EPanic s) => (OPanic s, st, log, S n)
            | inl (UPConflict st1 id) =>
                match build_derivation_tree (store st1) id with
                | Some t => (ONoSolution t, st1, log, S n)
                | None => (OPanic PTreeMissing, st1, log, S n)
                end
            | inl (UPOk st1) =>
                match do_prioritize (pick_candidates (ps st1)) (queue (ps st1)) tr1 (S n) with
                | inr o => (o, st1, log, S n)
                | inl (q, tr2, n2) =>
                    let p1 := ps st1 in
                    let log1 := log ++ [(undecided_positive p1, q, n2)] in
                    let with_queue q' :=
                      {| next_gidx := next_gidx p1; level := level p1; assignments := assignments p1;
                         queue := q'; changed := length (assignments p1); backtracked := backtracked p1 |} in
                    match queue_max q with
                    | None => res_out log1 n2 (extract_solution p1) (fun sol => (OSolution sol, upd_ps st1 (with_queue q), log1, n2)) st1
                    | Some mx =>
                        match tr2 with
                        | EvChoose p s ans :: tr3 =>
                            match get p q with
                            | None => (OPickNotMax n2 p, st1, log1, n2)
                            | Some (prio, _) =>
                                if negb (Z.eqb prio mx) then (OPickNotMax n2 p, st1, log1, n2) else
                                let st2 := upd_ps st1 (with_queue (remove p q)) in
                                match term_for (ps st2) p with
                                | None => (OFailure FNoTerm, st2, log1, n2)
                                | Some ti =>
                                    match ti with
                                    | Neg _ => (OPanic PUnwrapPositive, st2, log1, n2)
                                    | Pos cur_set =>
                                        if negb (vs_eqb O s cur_set) then (OMismatch n2 2, st2, log1, n2) else
                                        match ans with
                                        | CErr => (OErrChoose, st2, log1, S n2)
                                        | CNone =>
                                            match no_versions p ti with
                                            | None => (OPanic PNoVersionsNegative, st2, log1, S n2)
                                            | Some inc =>
                                                res_out log1 (S n2) (add_incompatibility st2 inc)
                                                        (fun st3 => resolve_loop fuel' st3 p added tr3 (S n2) log1) st2
                                            end
                                        | CSome v =>
                                            if negb (t_contains O ti v) then (OFailure FIncompatibleVersion, st2, log1, S n2) else
                                            if added_has added p v then
                                              res_out log1 (S n2) (add_decision (ps st2) p v)
                                                      (fun p' => resolve_loop fuel' (upd_ps st2 p') p added tr3 (S n2) log1) st2
                                            else
                                              let added' := (p, v) :: added in
                                              match tr3 with
                                              | EvDeps p' v' dans :: tr4 =>
                                                  if negb (N.eqb p p' && veqb v v') then (OMismatch (S n2) 3, st2, log1, S n2) else
                                                  match dans with
                                                  | DErr => (OErrDeps p v, st2, log1, S (S n2))
                                                  | DUnavail m =>
                                                      res_out log1 (S (S n2)) (add_incompatibility st2 (custom_version p v m))
                                                              (fun st3 => resolve_loop fuel' st3 p added' tr4 (S (S n2)) log1) st2
                                                  | DAvail deps =>
                                                      res_out log1 (S (S n2)) (add_incompatibility_from_dependencies st2 p v deps)
                                                        (fun '(st3, range) =>
                                                           res_out log1 (S (S n2)) (add_version (ps st3) p v range (store st3))
                                                                   (fun p' => resolve_loop fuel' (upd_ps st3 p') p added' tr4 (S (S n2)) log1) st3)
                                                        st2
                                                  end
                                              | _ => (OMismatch (S n2) 3, st2, log1, S n2)
                                              end
                                        end
                                    end
                                end
                            end
                        | _ => (OMismatch n2 4, st1, log1, n2)
                        end
                    end
                end
            end
        | _ => (OMismatch n 5, st, log, n)
        end
    end.

  Definition resolve (fuel : nat) (r : pkg) (v : Vr) (tr : list event) : result :=
    resolve_loop fuel (state_init r v) r [] tr 0 [].

  (* ---------------------------------------------------------------- resolve with the exact priority queue
     [resolve_loop_h] is [resolve_loop] with the priority queue of the implementation modelled exactly
     (Model/Heap.v: the binary heap of the priority-queue crate) instead of "some package of maximal
     priority, as recorded".  One more loop variable, the heap [hp] of (package, priority) pairs in
     heap-position order:
     - after unit propagation the heap is cleared iff the queue was cleared by a backtrack
       (PartialSolution::backtrack: prioritized_potential_packages.clear());
     - every prioritize answer of this pick is pushed, in call order (pick_highest_priority_pkg);
     - the package of the next choose_version call must be the one the heap pops: otherwise the
       outcome is [OMismatch n 6].
     With the heap the model is a function of the provider's answers alone: the recorded trace no longer
     supplies the choice among several packages of maximal priority (C07, C14).  Proofs/SolverDet.v proves
     that erasing the heap gives back [resolve_loop]. *)
  (* backtrack clears the queue; nothing else empties it while packages are queued *)
  Definition heap_after_propagation (q : list (pkg * (Z * VS))) (hp : heap (I := pkg)) : heap (I := pkg) :=
    match q with [] => [] | _ => hp end.

  Fixpoint heap_pushes (hp : heap (I := pkg)) (evs : list event) : heap (I := pkg) :=
    match evs with
    | EvPrioritize p _ prio :: r => heap_pushes (heap_push N.eqb hp p prio) r
    | _ :: r => heap_pushes hp r
    | [] => hp
    end.

  Fixpoint resolve_loop_h (fuel : nat) (st : state) (next : pkg) (added : list (pkg * Vr))
           (hp : heap (I := pkg)) (tr : list event) (n : nat) (log : list pick_info) : result :=
    match fuel with
    | 0 => (OOutOfFuel, st, log, n)
    | S fuel' =>
        match tr with
        | EvCancel ok :: tr1 =>
            if negb ok then (OErrCancel, st, log, S n) else
            match unit_propagation fuel st [next] with
            | inr EFuel => (OOutOfFuel, st, log, S n)
            | inr (EPanic s) => (OPanic s, st, log, S n)
            | inl (UPConflict st1 id) =>
                match build_derivation_tree (store st1) id with
                | Some t => (ONoSolution t, st1, log, S n)
                | None => (OPanic PTreeMissing, st1, log, S n)
                end
            | inl (UPOk st1) =>
                match do_prioritize (pick_candidates (ps st1)) (queue (ps st1)) tr1 (S n) with
                | inr o => (o, st1, log, S n)
                | inl (q, tr2, n2) =>
                    let hp1 := heap_after_propagation (queue (ps st1)) hp in
                    let hp2 := heap_pushes hp1 (firstn (n2 - S n) tr1) in
                    let p1 := ps st1 in
                    let log1 := log ++ [(undecided_positive p1, q, n2)] in
                    let with_queue q' :=
                      {| next_gidx := next_gidx p1; level := level p1; assignments := assignments p1;
                         queue := q'; changed := length (assignments p1); backtracked := backtracked p1 |} in
                    match queue_max q with
                    | None => res_out log1 n2 (extract_solution p1) (fun sol => (OSolution sol, upd_ps st1 (with_queue q), log1, n2)) st1
                    | Some mx =>
                        match tr2 with
                        | EvChoose p s ans :: tr3 =>
                            match heap_pop hp2 with
                            | None => (OMismatch n2 6, st1, log1, n2)
                            | Some ((hpk, _), hp3) =>
                            if negb (N.eqb p hpk) then (OMismatch n2 6, st1, log1, n2) else
                            match get p q with
                            | None => (OPickNotMax n2 p, st1, log1, n2)
                            | Some (prio, _) =>
                                if negb (Z.eqb prio mx) then (OPickNotMax n2 p, st1, log1, n2) else
                                let st2 := upd_ps st1 (with_queue (remove p q)) in
                                match term_for (ps st2) p with
                                | None => (OFailure FNoTerm, st2, log1, n2)
                                | Some ti =>
                                    match ti with
                                    | Neg _ => (OPanic PUnwrapPositive, st2, log1, n2)
                                    | Pos cur_set =>
                                        if negb (vs_eqb O s cur_set) then (OMismatch n2 2, st2, log1, n2) else
                                        match ans with
                                        | CErr => (OErrChoose, st2, log1, S n2)
                                        | CNone =>
                                            match no_versions p ti with
                                            | None => (OPanic PNoVersionsNegative, st2, log1, S n2)
                                            | Some inc =>
                                                res_out log1 (S n2) (add_incompatibility st2 inc)
                                                        (fun st3 => resolve_loop_h fuel' st3 p added hp3 tr3 (S n2) log1) st2
                                            end
                                        | CSome v =>
                                            if negb (t_contains O ti v) then (OFailure FIncompatibleVersion, st2, log1, S n2) else
                                            if added_has added p v then
                                              res_out log1 (S n2) (add_decision (ps st2) p v)
                                                      (fun p' => resolve_loop_h fuel' (upd_ps st2 p') p added hp3 tr3 (S n2) log1) st2
                                            else
                                              let added' := (p, v) :: added in
                                              match tr3 with
                                              | EvDeps p' v' dans :: tr4 =>
                                                  if negb (N.eqb p p' && veqb v v') then (OMismatch (S n2) 3, st2, log1, S n2) else
                                                  match dans with
                                                  | DErr => (OErrDeps p v, st2, log1, S (S n2))
                                                  | DUnavail m =>
                                                      res_out log1 (S (S n2)) (add_incompatibility st2 (custom_version p v m))
                                                              (fun st3 => resolve_loop_h fuel' st3 p added' hp3 tr4 (S (S n2)) log1) st2
                                                  | DAvail deps =>
                                                      res_out log1 (S (S n2)) (add_incompatibility_from_dependencies st2 p v deps)
                                                        (fun '(st3, range) =>
                                                           res_out log1 (S (S n2)) (add_version (ps st3) p v range (store st3))
                                                                   (fun p' => resolve_loop_h fuel' (upd_ps st3 p') p added' hp3 tr4 (S (S n2)) log1) st3)
                                                        st2
                                                  end
                                              | _ => (OMismatch (S n2) 3, st2, log1, S n2)
                                              end
                                        end
                                    end
                                end
                            end
                            end
                        | _ => (OMismatch n2 4, st1, log1, n2)
                        end
                    end
                end
            end
        | _ => (OMismatch n 5, st, log, n)
        end
    end.

  Definition resolve_h (fuel : nat) (r : pkg) (v : Vr) (tr : list event) : result :=
    resolve_loop_h fuel (state_init r v) r [] [] tr 0 [].

End Solver.

Arguments Good {A} a.
Arguments Panic {A} s.
