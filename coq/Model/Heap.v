(* Executable model of the binary heap of the external crate priority-queue 2.1.1
   (src/priority_queue/mod.rs: push, pop, heapify, bubble_up, up_heapify; src/store.rs: swap,
   swap_remove, clear), as far as pubgrub uses it (PartialSolution::prioritized_potential_packages:
   push, pop, clear).  Definitions only.

   The crate keeps an IndexMap item -> priority, a vector [heap] of map indices in heap order and the
   inverse vector [qp].  Which item sits at which heap position never depends on the map indices
   (comparisons read priorities through the indirection only), so the model is the list of
   (item, priority) pairs in heap-position order.  Ties are resolved exactly as the crate resolves
   them: [bubble_up] moves a parent down only when it is strictly smaller, [heapify] prefers the left
   child and moves to a child only when it is strictly greater. *)
From Coq Require Import List NArith ZArith Bool Arith.
Import ListNotations.

Section Heap.
  Context {I : Type} (ieqb : I -> I -> bool).

  Definition heap := list (I * Z).

  Fixpoint set_nth {A} (n : nat) (a : A) (l : list A) : list A :=
    match l, n with
    | [], _ => []
    | _ :: r, 0 => a :: r
    | x :: r, S n' => x :: set_nth n' a r
    end.

  Definition swap_pos (h : heap) (i j : nat) : heap :=
    match nth_error h i, nth_error h j with
    | Some a, Some b => set_nth j a (set_nth i b h)
    | _, _ => h
    end.

  Fixpoint find_pos (p : I) (h : heap) : option nat :=
    match h with
    | [] => None
    | (q, _) :: r => if ieqb p q then Some 0 else option_map S (find_pos p r)
    end.

  (* bubble_up(position, item): the item travels up from the hole at [pos]; a parent moves down only
     if its priority is strictly smaller.  Returns the heap and the final position. *)
  Fixpoint bubble_up (fuel : nat) (h : heap) (pos : nat) (it : I * Z) : heap * nat :=
    match fuel with
    | 0 => (set_nth pos it h, pos)
    | S f =>
        match pos with
        | 0 => (set_nth pos it h, pos)
        | S _ =>
            let pp := Nat.div2 (pos - 1) in
            match nth_error h pp with
            | Some par =>
                if Z.ltb (snd par) (snd it) then bubble_up f (set_nth pos par h) pp it
                else (set_nth pos it h, pos)
            | None => (set_nth pos it h, pos)
            end
        end
    end.

  (* heapify(i): sift down; left child first, strict comparisons *)
  Fixpoint heapify (fuel : nat) (h : heap) (i : nat) : heap :=
    match fuel with
    | 0 => h
    | S f =>
        match nth_error h i, nth_error h (2 * i + 1) with
        | Some ei, Some el =>
            let largest := if Z.gtb (snd el) (snd ei) then 2 * i + 1 else i in
            let largestp := if Z.gtb (snd el) (snd ei) then snd el else snd ei in
            let largest' :=
              match nth_error h (2 * i + 2) with
              | Some er => if Z.gtb (snd er) largestp then 2 * i + 2 else largest
              | None => largest
              end in
            if Nat.eqb largest' i then h else heapify f (swap_pos h i largest') largest'
        | _, _ => h
        end
    end.

  (* PriorityQueue::push: update (up_heapify = bubble_up then heapify) or append and bubble_up *)
  Definition heap_push (h : heap) (p : I) (z : Z) : heap :=
    match find_pos p h with
    | Some pos =>
        let '(h1, pos1) := bubble_up (S pos) h pos (p, z) in
        heapify (S (length h1)) h1 pos1
    | None =>
        fst (bubble_up (S (length h)) (h ++ [(p, z)]) (length h) (p, z))
    end.

  (* PriorityQueue::pop: swap_remove(0) then heapify(0) *)
  Definition heap_pop (h : heap) : option ((I * Z) * heap) :=
    match h with
    | [] => None
    | [e] => Some (e, [])
    | e :: r => let h1 := last r e :: removelast r in Some (e, heapify (S (length h1)) h1 0)
    end.

  Definition heap_clear (h : heap) : heap := [].

  (* operations as the differential test drives them *)
  Inductive hop := HPush (p : I) (z : Z) | HPop | HClear.
  Definition heap_step (h : heap) (o : hop) : heap * option (I * Z) :=
    match o with
    | HPush p z => (heap_push h p z, None)
    | HPop => match heap_pop h with Some (e, h') => (h', Some e) | None => (h, None) end
    | HClear => ([], None)
    end.
  Fixpoint heap_run (h : heap) (ops : list hop) : list (option (I * Z)) :=
    match ops with
    | [] => []
    | o :: r => let '(h', out) := heap_step h o in
                match o with HPop => out :: heap_run h' r | _ => heap_run h' r end
    end.
End Heap.
