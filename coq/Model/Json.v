(* Executable model of what the serde feature does for Range, SemanticVersion and
   OfflineDependencyProvider when the format is JSON (serde_json).  Definitions only.

   What is modelled is the *glue* in /repo (src/range.rs Deserialize for Range with the untagged
   EitherInterval, src/internal/small_vec.rs, src/version.rs, src/solver.rs) together with the shape
   serde / serde_json give to the types involved:
     Bound<V>          "Unbounded" | {"Included": v} | {"Excluded": v}     (externally tagged enum)
     (A, B)            [a, b]                                              (tuple = sequence of exactly 2)
     Option<V>         null | v
     SmallVec<T>/Range [t, ...]                                            (serde(transparent), sequence)
     SemanticVersion   "a.b.c"                                             (Display / FromStr)
     Map<K, X>         {"k": x, ...} with integer keys as decimal strings  (serde_json map keys)
   serde, serde_json, ron and the derive macros themselves are NOT modelled; the correspondence check
   (harness/src/serde_dom.rs against ocaml/d_serde.ml) validates this shape on every run. *)
From Coq Require Import List NArith ZArith Bool.
From PG Require Import Model.Text Model.SemVer Model.Range Model.Offline Model.Instances.
Import ListNotations.
Open Scope N_scope.

(* serde_json::Value without floats (no float is ever produced or accepted by the modelled types) *)
Inductive json :=
| JNull
| JBool (b : bool)
| JNum (z : Z)
| JStr (s : text)
| JArr (l : list json)
| JObj (l : list (text * json)).

Definition s_unbounded : text := txt "Unbounded".
Definition s_included : text := txt "Included".
Definition s_excluded : text := txt "Excluded".

(* a sequence visitor: the first failing element fails the whole sequence *)
Fixpoint map_opt {A B : Type} (f : A -> option B) (l : list A) : option (list B) :=
  match l with
  | [] => Some []
  | x :: r =>
      match f x with
      | Some y => match map_opt f r with Some ys => Some (y :: ys) | None => None end
      | None => None
      end
  end.

Section Codec.
  Context {V : Type} (enc_v : V -> json) (dec_v : json -> option V).

  (* std::ops::Bound<V>, serde's externally tagged enum *)
  Definition encode_bound (b : bound V) : json :=
    match b with
    | Unb => JStr s_unbounded
    | Incl v => JObj [(s_included, enc_v v)]
    | Excl v => JObj [(s_excluded, enc_v v)]
    end.

  (* a string names a unit variant; a one-entry map names a variant with its payload; a unit variant
     written as a map must carry null ({"Unbounded": null} is accepted by serde) *)
  Definition decode_bound (j : json) : option (bound V) :=
    match j with
    | JStr s => if text_eqb s s_unbounded then Some Unb else None
    | JObj [(k, x)] =>
        if text_eqb k s_included then option_map Incl (dec_v x)
        else if text_eqb k s_excluded then option_map Excl (dec_v x)
        else if text_eqb k s_unbounded then match x with JNull => Some Unb | _ => None end
        else None
    | _ => None
    end.

  (* Option<V>: null is None, anything else is Some(V::deserialize) *)
  Definition decode_opt (j : json) : option (option V) :=
    match j with
    | JNull => Some None
    | _ => option_map Some (dec_v j)
    end.

  (* the legacy variant D(V, Option<V>) and what range.rs pushes for it *)
  Definition decode_legacy (a b : json) : option (bound V * bound V) :=
    match dec_v a with
    | Some va =>
        match decode_opt b with
        | Some (Some vb) => Some (Incl va, Excl vb)
        | Some None => Some (Incl va, Unb)
        | None => None
        end
    | None => None
    end.

  (* #[serde(untagged)] enum EitherInterval { B(Bound, Bound), D(V, Option<V>) }: both variants are
     2-tuples, i.e. sequences of exactly two elements; the first variant that deserializes wins *)
  Definition decode_interval (j : json) : option (bound V * bound V) :=
    match j with
    | JArr [a; b] =>
        match decode_bound a, decode_bound b with
        | Some x, Some y => Some (x, y)
        | _, _ => decode_legacy a b
        end
    | _ => None
    end.

  Definition encode_interval (se : bound V * bound V) : json :=
    JArr [encode_bound (fst se); encode_bound (snd se)].

  (* Range<V>: transparent over SmallVec<Interval<V>>, a sequence.  No validation on decode. *)
  Definition encode_range (r : list (bound V * bound V)) : json := JArr (map encode_interval r).
  Definition decode_range (j : json) : option (list (bound V * bound V)) :=
    match j with
    | JArr l => map_opt decode_interval l
    | _ => None
    end.

  (* the legacy (pre-0.3) encoding of a list of intervals *)
  Definition encode_legacy_interval (ab : V * option V) : json :=
    JArr [enc_v (fst ab); match snd ab with Some b => enc_v b | None => JNull end].
  Definition encode_legacy (l : list (V * option V)) : json := JArr (map encode_legacy_interval l).
  Definition legacy_segment (ab : V * option V) : bound V * bound V :=
    (Incl (fst ab), match snd ab with Some b => Excl b | None => Unb end).

  (* "a version's JSON is neither a valid Bound encoding nor null" *)
  Definition version_json_not_a_bound : Prop :=
    forall v, decode_bound (enc_v v) = None /\ enc_v v <> JNull.
End Codec.

(* ---- version payloads ---- *)

(* integer versions as JSON numbers; any integer *)
Definition enc_num (z : Z) : json := JNum z.
Definition dec_num (j : json) : option Z := match j with JNum z => Some z | _ => None end.

(* u32 versions (what the harness uses): serde's u32 visitor rejects numbers outside 0..=u32::MAX *)
Definition z_in_u32 (z : Z) : bool := ((0 <=? z) && (z <=? 4294967295))%Z.
Definition dec_u32 (j : json) : option Z :=
  match j with JNum z => if z_in_u32 z then Some z else None | _ => None end.

(* SemanticVersion: serialize_str(format!("{}", self)); String::deserialize then FromStr *)
Definition enc_sv (v : semver) : json := JStr (sv_display v).
Definition dec_sv (j : json) : option semver :=
  match j with
  | JStr s => match sv_parse s with ParseOk v => Some v | _ => None end
  | _ => None
  end.

(* ---- maps ---- *)

(* serde_json writes integer map keys as their decimal text, and reads a key back by parsing the whole
   key with the JSON number grammar into the target type: exactly the canonical decimals <= u32::MAX *)
Definition key_of_N (n : N) : text := dec_N n.
Definition N_of_key (s : text) : option N :=
  match parse_u32 s with
  | inl n => if text_eqb (dec_N n) s then Some n else None
  | inr _ => None
  end.
Definition key_of_Z (z : Z) : text := dec_Z z.
Definition Z_of_key (s : text) : option Z := option_map Z.of_N (N_of_key s).

Section Maps.
  Context {K X : Type}.
  Definition encode_entries (ek : K -> text) (ex : X -> json) (m : list (K * X)) : json :=
    JObj (map (fun kx => (ek (fst kx), ex (snd kx))) m).
  Definition decode_entry (dk : text -> option K) (dx : json -> option X) (kv : text * json) : option (K * X) :=
    match dk (fst kv) with
    | Some k => match dx (snd kv) with Some x => Some (k, x) | None => None end
    | None => None
    end.
  (* a map visitor; duplicate keys cannot occur in a serde_json::Value and are outside the model *)
  Definition decode_entries (dk : text -> option K) (dx : json -> option X) (j : json) : option (list (K * X)) :=
    match j with
    | JObj l => map_opt (decode_entry dk dx) l
    | _ => None
    end.
End Maps.

(* OfflineDependencyProvider<P, VS>: serde(transparent) over Map<P, BTreeMap<V, Map<P, VS>>>;
   packages are numbers and versions integers, as in Model/Offline.v *)
Section Provider.
  Context {VS : Type} (enc_vs : VS -> json) (dec_vs : json -> option VS).

  Definition encode_depmap (m : @depmap VS) : json := encode_entries key_of_N enc_vs m.
  Definition decode_depmap (j : json) : option (@depmap VS) := decode_entries N_of_key dec_vs j.
  Definition encode_inner (l : list (Z * @depmap VS)) : json := encode_entries key_of_Z encode_depmap l.
  Definition decode_inner (j : json) : option (list (Z * @depmap VS)) := decode_entries Z_of_key decode_depmap j.
  Definition encode_provider (p : @provider VS) : json := encode_entries key_of_N encode_inner p.
  Definition decode_provider (j : json) : option (@provider VS) := decode_entries N_of_key decode_inner j.
End Provider.

(* ---- the executable instances used by the correspondence check ---- *)
Definition encode_range_u32 (r : RZ.range) : json := encode_range enc_num r.
Definition decode_range_u32 (j : json) : option RZ.range := decode_range dec_u32 j.
Definition encode_range_sv (r : list (bound semver * bound semver)) : json := encode_range enc_sv r.
Definition decode_range_sv (j : json) : option (list (bound semver * bound semver)) := decode_range dec_sv j.
Definition encode_provider_u32 (p : @provider RZ.range) : json := encode_provider encode_range_u32 p.
Definition decode_provider_u32 (j : json) : option (@provider RZ.range) := decode_provider decode_range_u32 j.
