(* Executable model of src/version.rs (SemanticVersion).  Definitions only. *)
From PG Require Export Model.Text.
Open Scope N_scope.

Record semver := SV { major : N; minor : N; patch : N }.

Definition u32_max : N := 4294967295.
Definition in_u32 (n : N) : bool := n <=? u32_max.
Definition sv_in_u32 (v : semver) : bool := in_u32 (major v) && in_u32 (minor v) && in_u32 (patch v).

(* Display: "{}.{}.{}" *)
Definition sv_display (v : semver) : text :=
  dec_N (major v) ++ [46] ++ dec_N (minor v) ++ [46] ++ dec_N (patch v).

(* str::split('.') on bytes: always at least one part *)
Fixpoint split_dot_aux (cur : text) (s : text) : list text :=
  match s with
  | [] => [rev cur]
  | c :: r => if c =? 46 then rev cur :: split_dot_aux [] r else split_dot_aux (c :: cur) r
  end.
Definition split_dot (s : text) : list text := split_dot_aux [] s.

(* core::num  <u32 as FromStr>::from_str, error kinds that can occur for an unsigned type *)
Inductive int_err := IEmpty | IInvalidDigit | IPosOverflow.

(* the checked loop; the unchecked fast path of the implementation (<= 8 digits) computes the same
   value because it cannot overflow; both report InvalidDigit at the first non-digit *)
Fixpoint parse_digits (acc : N) (l : text) : N + int_err :=
  match l with
  | [] => inl acc
  | c :: r =>
      if is_digit c then
        let acc' := acc * 10 + (c - 48) in
        if in_u32 acc' then parse_digits acc' r else inr IPosOverflow
      else inr IInvalidDigit
  end.

Definition parse_u32 (s : text) : N + int_err :=
  match s with
  | [] => inr IEmpty
  | [c] => if (c =? 43) || (c =? 45) then inr IInvalidDigit else parse_digits 0 s
  | c :: r => if c =? 43 then parse_digits 0 r else parse_digits 0 s
  end.

Inductive sv_parse_result :=
| ParseOk (v : semver)
| NotThreeParts (full : text)
| ParseIntError (full part : text) (e : int_err).

Definition sv_parse (s : text) : sv_parse_result :=
  match split_dot s with
  | [a; b; c] =>
      match parse_u32 a with
      | inr e => ParseIntError s a e
      | inl ma =>
          match parse_u32 b with
          | inr e => ParseIntError s b e
          | inl mi =>
              match parse_u32 c with
              | inr e => ParseIntError s c e
              | inl pa => ParseOk (SV ma mi pa)
              end
          end
      end
  | _ => NotThreeParts s
  end.

(* derived Ord: lexicographic on (major, minor, patch) *)
Definition sv_compare (u v : semver) : comparison :=
  match major u ?= major v with
  | Eq => match minor u ?= minor v with
          | Eq => patch u ?= patch v
          | c => c
          end
  | c => c
  end.

Definition sv_to_tuple (v : semver) : N * N * N := (major v, minor v, patch v).
Definition sv_of_tuple (t : N * N * N) : semver := let '(a, b, c) := t in SV a b c.

(* bumps: [None] where `+ 1` overflows u32 (panic in debug builds, wrap-around in release) *)
Definition bump_patch (v : semver) : option semver :=
  if patch v <? u32_max then Some (SV (major v) (minor v) (patch v + 1)) else None.
Definition bump_minor (v : semver) : option semver :=
  if minor v <? u32_max then Some (SV (major v) (minor v + 1) 0) else None.
Definition bump_major (v : semver) : option semver :=
  if major v <? u32_max then Some (SV (major v + 1) 0 0) else None.
