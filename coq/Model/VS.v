(* Model of src/version_set.rs: the VersionSet trait as a record of operations; the four provided
   methods as functions of the five required ones.  Definitions only. *)
From Coq Require Import List Bool NArith.
Import ListNotations.

(* required methods (+ Eq) *)
Record VSReq (VS Vr : Type) := {
  rq_eqb : VS -> VS -> bool;
  rq_empty : VS;
  rq_singleton : Vr -> VS;
  rq_complement : VS -> VS;
  rq_intersection : VS -> VS -> VS;
  rq_contains : VS -> Vr -> bool;
}.
Arguments rq_eqb {VS Vr}. Arguments rq_empty {VS Vr}. Arguments rq_singleton {VS Vr}.
Arguments rq_complement {VS Vr}. Arguments rq_intersection {VS Vr}. Arguments rq_contains {VS Vr}.

(* all methods *)
Record VSOps (VS Vr : Type) := {
  vs_eqb : VS -> VS -> bool;
  vs_empty : VS;
  vs_singleton : Vr -> VS;
  vs_complement : VS -> VS;
  vs_intersection : VS -> VS -> VS;
  vs_contains : VS -> Vr -> bool;
  vs_full : VS;
  vs_union : VS -> VS -> VS;
  vs_is_disjoint : VS -> VS -> bool;
  vs_subset_of : VS -> VS -> bool;
}.
Arguments vs_eqb {VS Vr}. Arguments vs_empty {VS Vr}. Arguments vs_singleton {VS Vr}.
Arguments vs_complement {VS Vr}. Arguments vs_intersection {VS Vr}. Arguments vs_contains {VS Vr}.
Arguments vs_full {VS Vr}. Arguments vs_union {VS Vr}. Arguments vs_is_disjoint {VS Vr}.
Arguments vs_subset_of {VS Vr}.

Section Defaults.
  Context {VS Vr : Type} (R : VSReq VS Vr).
  (* fn full() -> Self { Self::empty().complement() } *)
  Definition full_default : VS := rq_complement R (rq_empty R).
  (* self.complement().intersection(&other.complement()).complement() *)
  Definition union_default (a b : VS) : VS :=
    rq_complement R (rq_intersection R (rq_complement R a) (rq_complement R b)).
  (* self.intersection(other) == Self::empty() *)
  Definition is_disjoint_default (a b : VS) : bool := rq_eqb R (rq_intersection R a b) (rq_empty R).
  (* self == &self.intersection(other) *)
  Definition subset_of_default (a b : VS) : bool := rq_eqb R a (rq_intersection R a b).

  Definition with_defaults : VSOps VS Vr := {|
    vs_eqb := rq_eqb R; vs_empty := rq_empty R; vs_singleton := rq_singleton R;
    vs_complement := rq_complement R; vs_intersection := rq_intersection R; vs_contains := rq_contains R;
    vs_full := full_default; vs_union := union_default;
    vs_is_disjoint := is_disjoint_default; vs_subset_of := subset_of_default |}.
End Defaults.

(* A small finite-universe VersionSet that relies on every provided method: bit masks over the
   eight versions v8 (harness: BitSet8(u8) over versions 0..7). *)
Inductive v8 := V0 | V1 | V2 | V3 | V4 | V5 | V6 | V7.
Definition v8_idx (v : v8) : N :=
  match v with V0 => 0 | V1 => 1 | V2 => 2 | V3 => 3 | V4 => 4 | V5 => 5 | V6 => 6 | V7 => 7 end%N.
Definition v8_of_N (n : N) : v8 :=
  match n with 0 => V0 | 1 => V1 | 2 => V2 | 3 => V3 | 4 => V4 | 5 => V5 | 6 => V6 | _ => V7 end%N.
Definition all_v8 : list v8 := [V0; V1; V2; V3; V4; V5; V6; V7].
Definition bs_mask : N := 255.
Definition bitset_req : VSReq N v8 := {|
  rq_eqb := N.eqb;
  rq_empty := 0%N;
  rq_singleton := fun v => N.shiftl 1 (v8_idx v);
  rq_complement := fun a => N.lxor a bs_mask;
  rq_intersection := N.land;
  rq_contains := fun a v => N.testbit a (v8_idx v);
|}.
Definition bitset_vs : VSOps N v8 := with_defaults bitset_req.
