(* Formal vocabulary of the solver properties (DESIGN.md 4.3): registries, solutions, validity of an
   incompatibility, well-behaved provider traces.  Definitions only. *)
From Coq Require Import List NArith ZArith Bool.
From PG Require Import Model.VS Model.Term Model.Solver.
Import ListNotations.

Section Registry.
  Context {VS Vr : Type} (O : VSOps VS Vr).
  Notation tm := (term VS).

  (* what the provider can offer: the versions of each package and, for each, its dependencies
     ([None] = dependencies unavailable) *)
  Record registry := {
    reg_versions : pkg -> list Vr;
    reg_deps : pkg -> Vr -> option (list (pkg * VS));
  }.

  Definition assignment := pkg -> option Vr.

  (* a set of package versions that contains the root at the requested version and satisfies all
     dependencies of its members (a dependency on the own package counts like any other) *)
  Definition Solution (reg : registry) (root : pkg) (rv : Vr) (a : assignment) : Prop :=
    a root = Some rv /\
    forall p v, a p = Some v ->
      In v (reg_versions reg p) /\
      exists ds, reg_deps reg p v = Some ds /\
        forall q s, In (q, s) ds -> exists w, a q = Some w /\ vs_contains O s w = true.

  (* truth of a term for a choice: a version, or "not selected" *)
  Definition sat_term (t : tm) (c : option Vr) : bool :=
    match c with
    | Some v => t_contains O t v
    | None => negb (t_is_positive t)
    end.

  (* all terms of an incompatibility hold at once *)
  Definition violates (a : assignment) (ts : list (pkg * tm)) : Prop :=
    forall p t, In (p, t) ts -> sat_term t (a p) = true.

  Definition Valid (reg : registry) (root : pkg) (rv : Vr) (ts : list (pkg * tm)) : Prop :=
    forall a, Solution reg root rv a -> ~ violates a ts.

  (* the provider's answers agree with the registry: choose_version answers a version the registry
     has, or None only when no version of the registry is in the offered set; get_dependencies
     answers the registry's dependencies (in any iteration order) *)
  Definition ev_ok (reg : registry) (e : event (VS := VS) (Vr := Vr)) : Prop :=
    match e with
    | EvChoose p s CNone => forall v, In v (reg_versions reg p) -> vs_contains O s v = false
    | EvChoose p s (CSome v) => In v (reg_versions reg p)
    | EvDeps p v (DAvail ds) =>
        exists ds', reg_deps reg p v = Some ds' /\ (forall x, In x ds <-> In x ds')
    | EvDeps p v (DUnavail _) => reg_deps reg p v = None
    | _ => True
    end.
  Definition WellBehaved (reg : registry) (tr : list (event (VS := VS) (Vr := Vr))) : Prop := Forall (ev_ok reg) tr.
End Registry.
