(* Executable model of src/range.rs, generic in the version type (any decidable total order).
   Definitions only.  [Range<V>] is modelled by the slice of its segments (SmallVec abstracted to
   as_slice, see Model/SmallVec.v for the representation-independence of Eq/Hash). *)
From Coq Require Import Orders OrdersEx.
From PG Require Export Model.Text Model.VS.

Inductive bound (T : Type) := Incl (v : T) | Excl (v : T) | Unb.
Arguments Incl {T} v.
Arguments Excl {T} v.
Arguments Unb {T}.

Module RangeM (V : UsualOrderedTypeFull).

  Definition ver := V.t.
  Definition bnd := bound V.t.
  Definition seg := (bnd * bnd)%type.
  Definition range := list seg.

  (* comparisons of versions, all through [V.compare] (Rust: Ord on V) *)
  Definition vltb (a b : ver) : bool := match V.compare a b with Lt => true | _ => false end.
  Definition vleb (a b : ver) : bool := match V.compare a b with Gt => false | _ => true end.
  Definition veqb (a b : ver) : bool := match V.compare a b with Eq => true | _ => false end.
  Definition vmax (a b : ver) : ver := if vleb a b then b else a.   (* std::cmp::max: second if equal *)

  (* ---- constructors (range.rs l.73-136) ---- *)
  Definition empty : range := [].
  Definition full : range := [(Unb, Unb)].
  Definition higher_than (v : ver) : range := [(Incl v, Unb)].
  Definition strictly_higher_than (v : ver) : range := [(Excl v, Unb)].
  Definition strictly_lower_than (v : ver) : range := [(Unb, Excl v)].
  Definition lower_than (v : ver) : range := [(Unb, Incl v)].
  Definition between (v1 v2 : ver) : range := [(Incl v1, Excl v2)].
  Definition singleton (v : ver) : range := [(Incl v, Incl v)].
  Definition is_empty (r : range) : bool := match r with [] => true | _ => false end.

  (* ---- comparison tables (range.rs l.324-545); regenerated from the source as Gen/RangeTables.v
          and proved equal there (Proofs/GenEq.v) ---- *)
  Definition valid_segment (s e : bnd) : bool :=
    match s, e with
    | Incl s, Incl e => vleb s e
    | Incl s, Excl e => vltb s e
    | Excl s, Incl e => vltb s e
    | Excl s, Excl e => vltb s e
    | Unb, _ => true
    | _, Unb => true
    end.

  Definition end_before_start_with_gap (e s : bnd) : bool :=
    match e, s with
    | _, Unb => false
    | Unb, _ => false
    | Incl l, Incl r => vltb l r
    | Incl l, Excl r => vltb l r
    | Excl l, Incl r => vltb l r
    | Excl l, Excl r => vleb l r
    end.

  Definition left_start_is_smaller (l r : bnd) : bool :=
    match l, r with
    | Unb, _ => true
    | _, Unb => false
    | Incl l, Incl r => vleb l r
    | Excl l, Excl r => vleb l r
    | Incl l, Excl r => vleb l r
    | Excl l, Incl r => vltb l r
    end.

  Definition left_end_is_smaller (l r : bnd) : bool :=
    match l, r with
    | _, Unb => true
    | Unb, _ => false
    | Incl l, Incl r => vleb l r
    | Excl l, Excl r => vleb l r
    | Excl l, Incl r => vleb l r
    | Incl l, Excl r => vltb l r
    end.

  (* Ordering::{Less, Equal, Greater} = Lt, Eq, Gt *)
  Definition within_bounds (v : ver) (sg : seg) : comparison :=
    let below_lower :=
      match fst sg with
      | Excl s => vleb v s
      | Incl s => vltb v s
      | Unb => false
      end in
    if below_lower then Lt
    else
      let below_upper :=
        match snd sg with
        | Unb => true
        | Incl e => vleb v e
        | Excl e => vltb v e
        end in
      if below_upper then Eq else Gt.

  Definition cmp_bounds_start (l r : bnd) : comparison :=
    match l, r with
    | Unb, Unb => Eq
    | Incl _, Unb => Gt
    | Excl _, Unb => Gt
    | Unb, Incl _ => Lt
    | Incl l, Incl r => V.compare l r
    | Excl l, Incl r => match V.compare l r with Lt => Lt | Eq => Gt | Gt => Gt end
    | Unb, Excl _ => Lt
    | Incl l, Excl r => match V.compare l r with Lt => Lt | Eq => Lt | Gt => Gt end
    | Excl l, Excl r => V.compare l r
    end.

  Definition cmp_bounds_end (l r : bnd) : comparison :=
    match l, r with
    | Unb, Unb => Eq
    | Incl _, Unb => Lt
    | Excl _, Unb => Lt
    | Unb, Incl _ => Gt
    | Incl l, Incl r => V.compare l r
    | Excl l, Incl r => match V.compare l r with Lt => Lt | Eq => Lt | Gt => Gt end
    | Unb, Excl _ => Gt
    | Incl l, Excl r => match V.compare l r with Lt => Lt | Eq => Gt | Gt => Gt end
    | Excl l, Excl r => V.compare l r
    end.

  (* the [accumulator_end] match inside [union] *)
  Definition acc_end (a s : bnd) : bnd :=
    match a, s with
    | _, Unb => Unb
    | Unb, _ => Unb
    | Incl l, Excl r => if veqb l r then a else if vltb r l then a else s
    | Incl l, Incl r => if veqb l r then a else if vltb r l then a else s
    | Excl l, Incl r => if vltb r l then a else s
    | Excl l, Excl r => if vltb r l then a else s
    end.

  (* the [start] match inside [intersection] *)
  Definition inter_start (l r : bnd) : bnd :=
    match l, r with
    | Incl l, Incl r => Incl (vmax l r)
    | Excl l, Excl r => Excl (vmax l r)
    | Incl i, Excl e => if vleb i e then Excl e else Incl i
    | Excl e, Incl i => if vleb i e then Excl e else Incl i
    | s, Unb => s
    | Unb, s => s
    end.

  (* ---- complement (l.139-190) ---- *)
  Definition flip (b : bnd) : bnd :=
    match b with Incl v => Excl v | Excl v => Incl v | Unb => Unb end.

  (* [Unb] as the start of a later segment is `unreachable!()` in the source (only possible for
     non-canonical input); the model leaves the bound unchanged there. *)
  Fixpoint negate_segments (start : bnd) (segs : range) : range :=
    match segs with
    | [] => match start with Unb => [] | _ => [(start, Unb)] end
    | (v1, v2) :: rest => (start, flip v1) :: negate_segments (flip v2) rest
    end.

  Definition complement (r : range) : range :=
    match r with
    | [] => full
    | (Unb, Unb) :: _ => empty
    | (Incl v, Unb) :: _ => strictly_lower_than v
    | (Excl v, Unb) :: _ => lower_than v
    | (Unb, Incl v) :: rest => negate_segments (Excl v) rest
    | (Unb, Excl v) :: rest => negate_segments (Incl v) rest
    | _ => negate_segments Unb r
    end.

  (* ---- union (l.579-634): the peekable two-iterator loop = merge by start, then coalesce ---- *)
  Fixpoint merge (l r : range) : range :=
    match l with
    | [] => r
    | x :: l' =>
        (fix aux (r : range) : range :=
           match r with
           | [] => l
           | y :: r' =>
               if left_start_is_smaller (fst x) (fst y) then x :: merge l' r else y :: aux r'
           end) r
    end.

  Fixpoint coalesce (acc : seg) (rest : range) : range :=
    match rest with
    | [] => [acc]
    | s :: rest' =>
        if end_before_start_with_gap (snd acc) (fst s) then acc :: coalesce s rest'
        else coalesce (fst acc, acc_end (snd acc) (snd s)) rest'
    end.

  Definition union (a b : range) : range :=
    match merge a b with
    | [] => []
    | s :: rest => coalesce s rest
    end.

  (* ---- intersection (l.637-693) ---- *)
  Definition inter_emit (other_start e ls rs : bnd) : range :=
    if valid_segment other_start e then [(inter_start ls rs, e)] else [].

  Fixpoint intersection (l r : range) : range :=
    match l with
    | [] => []
    | (ls, le) :: l' =>
        (fix aux (r : range) : range :=
           match r with
           | [] => []
           | (rs, re) :: r' =>
               if left_end_is_smaller le re
               then inter_emit rs le ls rs ++ intersection l' r
               else inter_emit ls re ls rs ++ aux r'
           end) r
    end.

  (* ---- is_disjoint (l.699-716) ---- *)
  Fixpoint is_disjoint (l r : range) : bool :=
    match l with
    | [] => true
    | (ls, le) :: l' =>
        (fix aux (r : range) : bool :=
           match r with
           | [] => true
           | (rs, re) :: r' =>
               if negb (valid_segment rs le) then is_disjoint l' r
               else if negb (valid_segment ls re) then aux r'
               else false
           end) r
    end.

  (* ---- subset_of (l.722-759) ---- *)
  Fixpoint advance (sstart : bnd) (c : seg) (cs : range) : option (seg * range) :=
    if valid_segment sstart (snd c) then Some (c, cs)
    else match cs with
         | [] => None
         | c' :: cs' => advance sstart c' cs'
         end.

  Fixpoint subset_loop (sub : range) (c : seg) (cs : range) : bool :=
    match sub with
    | [] => true
    | s :: sub' =>
        match advance (fst s) c cs with
        | None => false
        | Some (c', cs') =>
            if negb (left_start_is_smaller (fst c') (fst s)) then false
            else if negb (left_end_is_smaller (snd s) (snd c')) then false
            else subset_loop sub' c' cs'
        end
    end.

  Definition subset_of (a b : range) : bool :=
    match b with
    | [] => is_empty a
    | c :: cs => subset_loop a c cs
    end.

  (* ---- membership (l.225-271).  [contains] is a binary search in the source; on segments sorted
          w.r.t. the version it coincides with the linear cursor used by [contains_many]. ---- *)
  Fixpoint cursor (v : ver) (segs : range) : bool * range :=
    match segs with
    | [] => (false, [])
    | s :: rest =>
        match within_bounds v s with
        | Lt => (false, segs)
        | Eq => (true, segs)
        | Gt => cursor v rest
        end
    end.

  Definition contains (r : range) (v : ver) : bool := fst (cursor v r).

  Fixpoint contains_many (segs : range) (vs : list ver) : list bool :=
    match vs with
    | [] => []
    | v :: vs' => let (b, segs') := cursor v segs in b :: contains_many segs' vs'
    end.

  (* ---- as_singleton, bounding_range, from_range_bounds (l.196-296) ---- *)
  Definition as_singleton (r : range) : option ver :=
    match r with
    | [(Incl v1, Incl v2)] => if veqb v1 v2 then Some v1 else None
    | _ => None
    end.

  Definition bounding_range (r : range) : option (bnd * bnd) :=
    match r with
    | [] => None
    | (s, _) :: _ => Some (s, snd (last r (Unb, Unb)))
    end.

  Definition from_range_bounds (s e : bnd) : range :=
    if valid_segment s e then [(s, e)] else [].

  (* [check_invariants]: the debug assertion at the end of union / intersection / keep_segments *)
  Fixpoint gaps_ok (r : range) : bool :=
    match r with
    | s1 :: ((s2 :: _) as rest) => end_before_start_with_gap (snd s1) (fst s2) && gaps_ok rest
    | _ => true
    end.
  Definition check_invariants (r : range) : bool :=
    gaps_ok r && forallb (fun sg => valid_segment (fst sg) (snd sg)) r.

  (* ---- simplify (l.771-833) ---- *)
  (* version_locations: index of the segment containing each version; cursor with absolute index *)
  Fixpoint loc_cursor (v : ver) (i : nat) (segs : range) : option nat * nat * range :=
    match segs with
    | [] => (None, i, [])
    | s :: rest =>
        match within_bounds v s with
        | Lt => (None, i, segs)
        | Eq => (Some i, i, segs)
        | Gt => loc_cursor v (S i) rest
        end
    end.

  Fixpoint version_locations (i : nat) (segs : range) (vs : list ver) : list (option nat) :=
    match vs with
    | [] => []
    | v :: vs' =>
        let '(o, i', segs') := loc_cursor v i segs in o :: version_locations i' segs' vs'
    end.

  Definition group := (option nat * option nat)%type.

  Fixpoint gal (sg : option group) (locs : list (option nat)) : list group :=
    match locs with
    | [] => match sg with Some (s, _) => [(s, None)] | None => [] end
    | Some ver :: rest =>
        gal (Some (match sg with Some (s, _) => s | None => Some ver end, Some ver)) rest
    | None :: rest =>
        match sg with
        | Some g => g :: gal None rest
        | None => gal None rest
        end
    end.

  Definition group_adjacent_locations (locs : list (option nat)) : list group :=
    match locs with
    | [] => []
    | first :: rest =>
        gal (match first with Some ver => Some (None, Some ver) | None => None end) rest
    end.

  Definition keep_segments (r : range) (kept : list group) : range :=
    map (fun g : group =>
           (match fst g with None => Unb | Some s => fst (nth s r (Unb, Unb)) end,
            match snd g with None => Unb | Some e => snd (nth e r (Unb, Unb)) end)) kept.

  Definition simplify (r : range) (vs : list ver) : range :=
    match as_singleton r with
    | Some _ => r
    | None =>
        match group_adjacent_locations (version_locations 0 r vs) with
        | [] => r
        | kept => keep_segments r kept
        end
    end.

  (* ---- iter ---- *)
  Definition iter (r : range) : list (bnd * bnd) := r.

  (* ---- PartialOrd / Ord (l.433-457) ---- *)
  Fixpoint range_cmp (a b : range) : comparison :=
    match a, b with
    | [], [] => Eq
    | [], _ :: _ => Lt
    | _ :: _, [] => Gt
    | (ls, le) :: a', (rs, re) :: b' =>
        match cmp_bounds_start ls rs with
        | Eq => match cmp_bounds_end le re with
                | Eq => range_cmp a' b'
                | c => c
                end
        | c => c
        end
    end.
  Definition range_partial_cmp (a b : range) : option comparison := Some (range_cmp a b).

  (* derived PartialEq on the slice *)
  Definition bound_eqb (a b : bnd) : bool :=
    match a, b with
    | Incl x, Incl y => veqb x y
    | Excl x, Excl y => veqb x y
    | Unb, Unb => true
    | _, _ => false
    end.
  Fixpoint range_eqb (a b : range) : bool :=
    match a, b with
    | [], [] => true
    | (s1, e1) :: a', (s2, e2) :: b' => bound_eqb s1 s2 && bound_eqb e1 e2 && range_eqb a' b'
    | _, _ => false
    end.

  (* ---- Display, token level: what each rendered piece means ---- *)
  Inductive token := TStar | TVer (v : ver) | TLt (v : ver) | TLe (v : ver) | TGt (v : ver) | TGe (v : ver).
  (* a segment prints as one atom or as "lo, hi" (a conjunction); segments are joined by " | " *)
  Definition seg_tokens (sg : seg) : list token :=
    match sg with
    | (Unb, Unb) => [TStar]
    | (Unb, Incl v) => [TLe v]
    | (Unb, Excl v) => [TLt v]
    | (Incl v, Unb) => [TGe v]
    | (Incl v, Incl b) => if veqb v b then [TVer v] else [TGe v; TLe b]
    | (Incl v, Excl b) => [TGe v; TLt b]
    | (Excl v, Unb) => [TGt v]
    | (Excl v, Incl b) => [TGt v; TLe b]
    | (Excl v, Excl b) => [TGt v; TLt b]
    end.
  Definition display_tokens (r : range) : list (list token) := map seg_tokens r.   (* [] prints as "∅" *)

  (* ---- Display (l.883-913) ---- *)
  Section Display.
    Variable show : ver -> text.
    Definition display_seg (sg : seg) : text :=
      match sg with
      | (Unb, Unb) => txt "*"
      | (Unb, Incl v) => txt "<=" ++ show v
      | (Unb, Excl v) => txt "<" ++ show v
      | (Incl v, Unb) => txt ">=" ++ show v
      | (Incl v, Incl b) => if veqb v b then show v else txt ">=" ++ show v ++ txt ", <=" ++ show b
      | (Incl v, Excl b) => txt ">=" ++ show v ++ txt ", <" ++ show b
      | (Excl v, Unb) => txt ">" ++ show v
      | (Excl v, Incl b) => txt ">" ++ show v ++ txt ", <=" ++ show b
      | (Excl v, Excl b) => txt ">" ++ show v ++ txt ", <" ++ show b
      end.
    Definition display (r : range) : text :=
      match r with
      | [] => txt "∅"
      | _ => join (txt " | ") (map display_seg r)
      end.

    Definition render_token (t : token) : text :=
      match t with
      | TStar => txt "*" | TVer v => show v | TLt v => txt "<" ++ show v | TLe v => txt "<=" ++ show v
      | TGt v => txt ">" ++ show v | TGe v => txt ">=" ++ show v
      end.
    Definition render (tl : list (list token)) : text :=
      match tl with
      | [] => txt "∅"
      | _ => join (txt " | ") (map (fun conj => join (txt ", ") (map render_token conj)) tl)
      end.
  End Display.

  (* impl VersionSet for Range (l.841-879): every provided method is overridden *)
  Definition range_vs : VSOps range ver := {|
    vs_eqb := range_eqb; vs_empty := empty; vs_singleton := singleton; vs_complement := complement;
    vs_intersection := intersection; vs_contains := contains; vs_full := full; vs_union := union;
    vs_is_disjoint := is_disjoint; vs_subset_of := subset_of |}.

End RangeM.
