(* Concrete instances used for execution: versions are Z (u32 and SemanticVersion embed monotonically). *)
From Coq Require Import Orders ZArith.
From PG Require Import Model.Text Model.Range.

Module ZV <: UsualOrderedTypeFull.
  Definition t := Z.
  Definition eq := @Logic.eq Z.
  Definition eq_equiv : Equivalence eq := eq_equivalence.
  Definition eq_dec := Z.eq_dec.
  Definition lt := Z.lt.
  Definition lt_strorder := Z.lt_strorder.
  Definition lt_compat := Z.lt_compat.
  Definition le := Z.le.
  Definition le_lteq := Z.le_lteq.
  Definition compare := Z.compare.
  Definition compare_spec := Z.compare_spec.
End ZV.

Module RZ := RangeM ZV.

Definition rz_display (r : RZ.range) : text := RZ.display dec_Z r.
