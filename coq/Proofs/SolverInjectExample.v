(* Non-vacuity of the fault-injection theorem (SolverInject.v): on the recorded run [tr2] over Range<Z>
   (13 calls, ends in a solution after a conflict) every kind of fault is injected at a call the fault-free
   run made; the hypotheses of [fault_injection] hold and its conclusion gives the faulty run's result. *)
From Coq Require Import List NArith ZArith Bool Lia.
From PG Require Import Model.Text Model.VS Model.Term Model.Range Model.Solver Model.Instances
  Proofs.VSLaws Proofs.SolverInject Proofs.SolverExamples.
Import ListNotations.

Local Open Scope Z_scope.

Lemma zvs_eqb_eq : forall a b, vs_eqb zvs a b = true -> a = b.
Proof. intros a b. apply (vs_eqb_spec zvs zlaw). Qed.

Definition inject (i : nat) (e' : ev) : list ev := firstn i tr2 ++ [e'].

Lemma tr2_split i : (i < 13)%nat ->
  exists e, tr2 = firstn i tr2 ++ e :: skipn (S i) tr2 /\ nth_error tr2 i = Some e /\ length (firstn i tr2) = i.
Proof.
  intros H. do 13 (destruct i as [|i]; [eexists; repeat split; reflexivity|]). lia.
Qed.

Lemma tr2_consumed : snd (resolve zvs Z.eqb 100 0%N 1 tr2) = 13%nat.
Proof. vm_compute. reflexivity. Qed.

(* generic instance: any fault at any of the 13 calls *)
Lemma inject_tr2 i e e' rest' :
  nth_error tr2 i = Some e -> fault_of zvs e e' ->
  exists st' log',
    resolve zvs Z.eqb 100 0%N 1 (firstn i tr2 ++ e' :: rest') = (fault_outcome e', st', log', S i).
Proof.
  intros Hn Hf.
  assert (Hi : (i < length tr2)%nat) by (apply nth_error_Some; congruence).
  change (length tr2) with 13%nat in Hi.
  destruct (tr2_split i Hi) as (e0 & Hs & Hn' & Hl). assert (e0 = e) by congruence. subst e0.
  replace (S i) with (S (length (firstn i tr2))) by (f_equal; exact Hl).
  apply (fault_injection zvs Z.eqb zeqb_eq zvs_eqb_eq 100 0%N 1 (firstn i tr2) e (skipn (S i) tr2) e' rest' Hf).
  rewrite <- Hs, tr2_consumed, Hl. exact Hi.
Qed.

(* should_cancel fails at the second iteration *)
Example inject_cancel rest' :
  exists st' log', resolve zvs Z.eqb 100 0%N 1 (firstn 4 tr2 ++ EvCancel false :: rest') = (OErrCancel, st', log', 5%nat).
Proof. apply (inject_tr2 4 (EvCancel true) (EvCancel false)); [reflexivity|exact I]. Qed.

(* choose_version fails *)
Example inject_choose_err rest' :
  exists st' log',
    resolve zvs Z.eqb 100 0%N 1 (firstn 6 tr2 ++ EvChoose 1%N RZ.full CErr :: rest') = (OErrChoose, st', log', 7%nat).
Proof. apply (inject_tr2 6 (EvChoose 1%N RZ.full (CSome 2)) (EvChoose 1%N RZ.full CErr)); [reflexivity|split; reflexivity]. Qed.

(* choose_version answers the version 2 that the offered set [not2] excludes *)
Example inject_choose_out_of_set rest' :
  exists st' log',
    resolve zvs Z.eqb 100 0%N 1 (firstn 10 tr2 ++ EvChoose 1%N not2 (CSome 2) :: rest')
    = (OFailure FIncompatibleVersion, st', log', 11%nat).
Proof.
  apply (inject_tr2 10 (EvChoose 1%N not2 (CSome 1)) (EvChoose 1%N not2 (CSome 2))); [reflexivity|].
  split; [reflexivity|split; [reflexivity|]]. vm_compute. reflexivity.
Qed.

(* get_dependencies fails: the error carries the queried package and version *)
Example inject_deps_err rest' :
  exists st' log',
    resolve zvs Z.eqb 100 0%N 1 (firstn 7 tr2 ++ EvDeps 1%N 2 DErr :: rest') = (OErrDeps 1%N 2, st', log', 8%nat).
Proof.
  apply (inject_tr2 7 (EvDeps 1%N 2 (DAvail [(1%N, RZ.empty)])) (EvDeps 1%N 2 DErr)); [reflexivity|split; reflexivity].
Qed.

(* single run, clause (d) *)
Example out_of_set_run :
  forall o st log cnt,
    resolve zvs Z.eqb 100 0%N 1 (firstn 10 tr2 ++ [EvChoose 1%N not2 (CSome 2); EvCancel true]) = (o, st, log, cnt) ->
    (10 < cnt)%nat -> o = OFailure FIncompatibleVersion /\ cnt = 11%nat.
Proof.
  intros o st log cnt E H.
  apply (out_of_set_is_failure zvs Z.eqb zeqb_eq zvs_eqb_eq 100 0%N 1 _ o st log cnt 10 1%N not2 2 E H); vm_compute; reflexivity.
Qed.

Print Assumptions inject_tr2.
Print Assumptions out_of_set_run.
