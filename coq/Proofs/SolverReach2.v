(* C04 (model side), part 2: the invariant [jinv] (time order (K) + justification of every derivation (J)) is
   preserved by every step of unit propagation: derivations found by the scan, satisfier search and
   backtracking, the rule of resolution, and the derivation that follows conflict resolution. *)
From Coq Require Import List NArith ZArith Bool Lia PeanoNat.
From PG Require Import Model.VS Model.Term Model.Solver Model.Registry Proofs.VSLaws Proofs.TermProofs
  Proofs.AssocProofs Proofs.SolverSem Proofs.SolverStore Proofs.SolverQueue Proofs.SolverSound1 Proofs.SolverSound2
  Proofs.SolverSound Proofs.SolverReach1.
Import ListNotations.

Section Reach2.
  Context {VS Vr : Type} (O : VSOps VS Vr) (L : VSLawful O) (veqb : Vr -> Vr -> bool).
  Context (reg : registry (VS := VS) (Vr := Vr)) (r : pkg) (rv : Vr).

  Notation tm := (term VS).
  Notation pa := (@pa VS Vr).
  Notation dated := (@dated VS).
  Notation psol := (@psol VS Vr).
  Notation state := (@state VS Vr).
  Notation incompat := (@incompat VS Vr).
  Notation full_ok := (full_ok O L reg r rv).
  Notation st_ok := (st_ok O L reg r rv).
  Notation inc_ok := (inc_ok O L reg r rv).
  Notation ps_wf := (ps_wf O L).
  Notation twf := (twf O L).
  Notation sat := (sat_term O).
  Notation tle := (tle O).
  Notation ps_chain := (ps_chain O).
  Notation pa_chain := (pa_chain O).
  Notation rchain := (rchain O).
  Notation lookup_before := (lookup_before (Vr := Vr)).
  Notation jr := (jr O).
  Notation just := (just O).
  Local Notation asg st := (assignments (ps st)).

  (* ---------------------------------------------------------------- the invariant *)
  Record jinv (st : state) : Prop := {
    j_ok : full_ok st;
    j_lay : layout (ps st);
    j_chain : ps_chain (asg st);
    j_K : kinv (ps st);
    j_pa : forall q a, get q (asg st) = Some a -> pa_g a /\ jr (store st) (asg st) q (rev (derivs a));
  }.

  (* every term of [ts], except the one of [exc], is satisfied by the partial solution *)
  Definition sat_now (p : psol) (ts : list (pkg * tm)) (exc : option pkg) : Prop :=
    forall x t, In (x, t) ts -> Some x <> exc -> exists tx, term_for p x = Some tx /\ tle tx t.

  Definition cur_sat (st : state) (id : nat) : Prop :=
    exists ci, nth_error (store st) id = Some ci /\ sat_now (ps st) (terms ci) None.
  Definition others_sat (st : state) (q : pkg) (id : nat) : Prop :=
    exists ci, nth_error (store st) id = Some ci /\ sat_now (ps st) (terms ci) (Some q).

  (* ---------------------------------------------------------------- terms *)
  Lemma rel_satisfied_tle t tx : twf t -> twf tx -> t_relation_with O t tx = Satisfied -> tle tx t.
  Proof.
    intros Ht Hx E. pose proof (t_relation_with_spec O L t tx Ht Hx) as H. rewrite E in H.
    intros c. rewrite !(sat_tden O L) by assumption. apply H.
  Qed.

  Lemma disjoint_neg_tle u t : twf u -> twf t -> t_is_disjoint O u (t_negate t) = true -> tle u t.
  Proof.
    intros Hu Ht E. pose proof (proj1 (t_is_disjoint_spec O L u (t_negate t) Hu (twf_negate O L t Ht)) E) as E'. clear E. rename E' into E.
    intros c. rewrite !(sat_tden O L) by assumption. specialize (E (option_map (pt O L) c)).
    rewrite tden_negate in E. destruct (tden O L u _); [|discriminate]. cbn in E. intros _. now apply negb_false_iff in E.
  Qed.

  Lemma tle_union_l tx t1 t2 : twf t1 -> twf t2 -> tle tx t1 -> tle tx (t_union O t1 t2).
  Proof. intros W1 W2 H c Hc. rewrite (sat_union O L) by assumption. now rewrite (H c Hc). Qed.

  Lemma tle_inter tx t1 t2 : twf t1 -> twf t2 -> tle tx t1 -> tle tx t2 -> tle tx (t_intersection O t1 t2).
  Proof. intros W1 W2 H1 H2 c Hc. rewrite (sat_intersection O L) by assumption. now rewrite (H1 c Hc), (H2 c Hc). Qed.

  Lemma twf_all_in (ts : list (pkg * tm)) x t : twf_all O L ts -> In (x, t) ts -> twf t.
  Proof. intros H Hin. unfold twf_all in H. rewrite Forall_forall in H. exact (H _ Hin). Qed.

  (* ---------------------------------------------------------------- relation *)
  Lemma relation_scan_in (ts : list (pkg * tm)) lk : forall incs l,
    relation_scan O ts lk incs = Some l ->
    (forall x, In x incs -> In x l)
    /\ forall x t, In (x, t) ts -> (exists tx, lk x = Some tx /\ t_relation_with O t tx = Satisfied) \/ In x l.
  Proof.
    induction ts as [|[p t] ts IH]; intros incs l; cbn [relation_scan].
    - intros E. injection E as <-. split; [auto|]. intros x t [].
    - assert (Hother : relation_scan O ts lk (incs ++ [p]) = Some l ->
                (forall x, In x incs -> In x l)
                /\ forall x u, In (x, u) ((p, t) :: ts) ->
                     (exists tx, lk x = Some tx /\ t_relation_with O u tx = Satisfied) \/ In x l).
      { intros E. destruct (IH _ _ E) as [I1 I2]. split; [intros x Hx; apply I1, in_or_app; now left|].
        intros x u [Hin|Hin]; [|auto]. injection Hin as <- <-. right. apply I1, in_or_app. right. now left. }
      destruct (lk p) as [tp|] eqn:El; cbn [option_map]; [|exact Hother].
      destruct (t_relation_with O t tp) eqn:Er; [|discriminate|exact Hother].
      intros E. destruct (IH _ _ E) as [I1 I2]. split; [exact I1|].
      intros x u [Hin|Hin]; [|auto]. injection Hin as <- <-. left. eauto.
  Qed.

  Lemma relation_sat_now (p : psol) (ts : list (pkg * tm)) :
    ps_wf p -> twf_all O L ts ->
    match relation O ts (term_for p) with
    | RSatisfied => sat_now p ts None
    | RAlmost q => sat_now p ts (Some q)
    | _ => True
    end.
  Proof.
    intros Hw Wt. unfold relation. destruct (relation_scan O ts (term_for p) []) as [l|] eqn:E; [|exact I].
    destruct (relation_scan_in _ _ _ _ E) as [_ H].
    assert (Hs : forall x t, In (x, t) ts -> ~ In x l -> exists tx, term_for p x = Some tx /\ tle tx t).
    { intros x t Hin Hn. destruct (H x t Hin) as [(tx & Hx & Hr)|Hc]; [|contradiction]. exists tx. split; [exact Hx|].
      apply rel_satisfied_tle; [exact (twf_all_in _ _ _ Wt Hin)|exact (term_for_wf O L _ _ _ Hw Hx)|exact Hr]. }
    destruct l as [|q [|y l]]; [| |exact I].
    - intros x t Hin _. apply (Hs x t Hin). intros [].
    - intros x t Hin Hne. apply (Hs x t Hin). intros [->|[]]. now apply Hne.
  Qed.

  (* ---------------------------------------------------------------- steps that keep the partial solution *)
  Lemma store_J st st' :
    jinv st -> ps st' = ps st -> (exists extra, store st' = store st ++ extra) -> full_ok st' -> jinv st'.
  Proof.
    intros [H1 H2 H3 H4 H5] Eps (extra & Est) Hok. constructor; rewrite ?Eps; try assumption.
    intros q a Hg. destruct (H5 q a Hg) as [P1 P2]. split; [exact P1|].
    eapply jr_transfer; [| |exact P2]; [|reflexivity]. intros id I Hn. rewrite Est. now apply nth_error_app_old.
  Qed.

  Lemma cache_J st c : jinv st -> jinv (upd_cache st c).
  Proof.
    intros H. apply (store_J st); [exact H|reflexivity|exists []; cbn; now rewrite app_nil_r|].
    eapply (full_ok_fields O L reg r rv st); try reflexivity; [exact (proj2 (j_ok _ H))|exact (j_ok _ H)].
  Qed.

  Lemma queue_J st p' :
    jinv st -> next_gidx p' = next_gidx (ps st) -> level p' = level (ps st) -> assignments p' = asg st -> jinv (upd_ps st p').
  Proof.
    intros [H1 H2 H3 H4 H5] Eg El Ea. constructor; cbn [upd_ps ps store]; rewrite ?Ea; try assumption.
    - eapply (full_ok_fields O L reg r rv st); try reflexivity; [|exact H1]. cbn [upd_ps ps]. unfold SolverStore.ps_wf. rewrite Ea. exact (proj2 H1).
    - eapply layout_ext; eauto.
    - destruct H4 as [K1 K2]. split; rewrite ?Ea, ?Eg; assumption.
  Qed.

  (* ---------------------------------------------------------------- a derivation *)
  Lemma jinv_evt_lt st x a dd : jinv st -> get x (asg st) = Some a -> In dd (derivs a) -> d_gidx dd < next_gidx (ps st).
  Proof. intros H Hg Hin. apply (proj1 (j_K _ H) x a _ (d_level dd) Hg). left. eauto. Qed.

  Lemma deriv_J st q id ci p' c :
    jinv st -> nth_error (store st) id = Some ci -> sat_now (ps st) (terms ci) (Some q) ->
    add_derivation O (ps st) q id (terms ci) = Good p' ->
    jinv (upd_cache (upd_ps st p') c).
  Proof.
    intros Hj Hn Hsat Ed. apply cache_J. pose proof Hj as [H1 H2 H3 H4 H5].
    assert (Wc : twf_all O L (terms ci)) by exact (store_just_wf O L reg r rv st id ci (proj1 H1) Hn).
    destruct (add_derivation_get O _ _ _ _ _ Ed) as (ct & a' & Hct & Elv & _ & Hget & Hcase).
    assert (Hkeep : forall g x, g <= next_gidx (ps st) ->
              lookup_before g (assignments p') x = lookup_before g (asg st) x).
    { intros g x Hg. eapply lookup_before_add_derivation; eauto. }
    constructor; cbn [upd_ps ps store].
    - eapply (full_ok_fields O L reg r rv st); try reflexivity; [|exact H1]. cbn [upd_ps ps].
      eapply add_derivation_wf; [exact (proj2 H1)|exact Wc|exact Ed].
    - eapply add_derivation_layout; eauto.
    - eapply add_derivation_chain; [exact H3|exact (proj2 H1)|exact Wc|exact Ed].
    - eapply kinv_add_derivation; eauto.
    - intros x a Hg. rewrite Hget in Hg. destruct (N.eqb_spec x q) as [->|Hne].
      + injection Hg as <-.
        (* the new derivation is justified by the incompatibility it comes from *)
        assert (Hnew : forall prev,
                  just (store st) (assignments p') q
                    {| d_gidx := next_gidx (ps st); d_level := level (ps st); d_cause := id;
                       d_accum := match prev with None => t_negate ct | Some t => t_intersection O t (t_negate ct) end |} prev).
        { intros prev. exists ci, ct. cbn [d_cause d_accum d_gidx]. split; [exact Hn|]. split; [exact Hct|]. split; [reflexivity|].
          intros x t Hin Hne. rewrite Hkeep by lia. rewrite (lookup_before_cur O) by assumption.
          apply Hsat; [exact Hin|congruence]. }
        destruct Hcase as [(a0 & t & Hga & Ea & -> & _)|(Hga & -> & _)].
        * destruct (H5 q a0 Hga) as [[G1 G2] P2]. pose proof (ps_chain_get O _ _ _ H3 Hga) as [_ Hs].
          unfold pa_g, deriv_upd. cbn [derivs ai]. rewrite rev_app_distr. cbn [rev app]. split.
          -- split; [|intros g v t0 Hx; discriminate]. cbn [gdesc d_gidx]. split; [|exact G1].
             apply Forall_forall. intros d Hd. apply in_rev in Hd. eapply jinv_evt_lt; eauto.
          -- cbn [jr]. split.
             ++ destruct (rev (derivs a0)) as [|dl rest]; [destruct Hs|]. rewrite Ea in Hs. destruct Hs as [-> _].
                exact (Hnew (Some (d_accum dl))).
             ++ eapply jr_transfer; [intros i I Hi; exact Hi| |exact P2]. intros d Hd x. apply Hkeep.
                apply in_rev in Hd. pose proof (jinv_evt_lt st q a0 d Hj Hga Hd). lia.
        * unfold pa_g, deriv_new. cbn [derivs ai rev app]. split.
          -- split; [cbn; auto|intros g v t0 Hx; discriminate].
          -- cbn [jr]. split; [exact (Hnew None)|exact I].
      + destruct (H5 x a Hg) as [P1 P2]. split; [exact P1|].
        eapply jr_transfer; [intros i I Hi; exact Hi| |exact P2]. intros d Hd y. apply Hkeep.
        apply in_rev in Hd. pose proof (jinv_evt_lt st x a d Hj Hg Hd). lia.
  Qed.

  (* ---------------------------------------------------------------- a decision *)
  Lemma decide_J st q v p' s :
    jinv st -> term_for (ps st) q = Some (Pos s) -> add_decision O (ps st) q v = Good p' -> jinv (upd_ps st p').
  Proof.
    intros Hj Hpos Ed. pose proof Hj as [H1 H2 H3 H4 H5].
    destruct (add_decision_get O _ _ _ _ H2 Ed) as (a0 & t & Hga & Ea & _ & Elv & _ & Hget).
    assert (Hkeep : forall g x, g <= next_gidx (ps st) ->
              lookup_before g (assignments p') x = lookup_before g (asg st) x).
    { intros g x Hg. eapply lookup_before_add_decision; eauto. }
    constructor; cbn [upd_ps ps store].
    - eapply (full_ok_fields O L reg r rv st); try reflexivity; [|exact H1]. cbn [upd_ps ps]. eapply add_decision_wf; [exact (proj2 H1)|exact Ed].
    - eapply add_decision_layout; eauto.
    - eapply add_decision_chain; eauto.
    - eapply kinv_add_decision; eauto.
    - intros x a Hg. rewrite Hget in Hg.
      assert (Htr : forall y b, get y (asg st) = Some b -> jr (store st) (asg st) y (rev (derivs b)) ->
                      jr (store st) (assignments p') y (rev (derivs b))).
      { intros y b Hb P2. eapply jr_transfer; [intros i I Hi; exact Hi| |exact P2]. intros d Hd z. apply Hkeep.
        apply in_rev in Hd. pose proof (jinv_evt_lt st y b d Hj Hb Hd). lia. }
      destruct (N.eqb_spec x q) as [->|Hne].
      + injection Hg as <-. destruct (H5 q a0 Hga) as [[G1 G2] P2]. unfold pa_g, decide_upd. cbn [derivs ai]. split.
        * split; [exact G1|]. intros g w t0 Hx. injection Hx as <- _ _. split.
          -- intros d Hd. eapply jinv_evt_lt; eauto.
          -- pose proof (ps_chain_get O _ _ _ H3 Hga) as [_ Hs]. destruct (rev (derivs a0)) as [|dl rest]; [destruct Hs|].
             rewrite Ea in Hs. destruct Hs as [Et _]. exists dl, rest. split; [reflexivity|].
             unfold term_for in Hpos. rewrite Hga in Hpos. cbn in Hpos. rewrite Ea in Hpos. cbn in Hpos.
             injection Hpos as Hp. rewrite <- Et, Hp. reflexivity.
        * exact (Htr q a0 Hga P2).
      + destruct (H5 x a Hg) as [P1 P2]. split; [exact P1|exact (Htr x a Hg P2)].
  Qed.

  (* ---------------------------------------------------------------- backtracking *)
  Lemma backtrack_J st Lv p' c :
    jinv st -> Lv <= level (ps st) -> ps_backtrack (ps st) Lv = Good p' ->
    jinv {| root := root st; rootv := rootv st; index := index st; contradicted := c;
            merged := merged st; ps := p'; store := store st |}.
  Proof.
    intros Hj HL Ep. pose proof Hj as [H1 H2 H3 H4 H5].
    destruct (ps_backtrack_layout _ _ _ H2 HL Ep) as [Hl' _].
    destruct (ps_backtrack_asg _ _ _ Ep) as (Elv & _ & _).
    constructor; cbn [ps store].
    - eapply (full_ok_fields O L reg r rv st); try reflexivity; [|exact H1]. cbn [ps]. exact (ps_backtrack_wf O L veqb rv _ _ _ (proj2 H1) Ep).
    - exact Hl'.
    - eapply ps_backtrack_chain; eauto.
    - exact (kinv_backtrack _ _ _ H2 Ep H4).
    - intros x a' Hg'. destruct (ps_backtrack_get_some _ _ _ H2 Ep x a' Hg') as (a & Hg & Hb).
      destruct (H5 x a Hg) as [[G1 G2] P2].
      pose proof (backtrack_pa_cases Lv a (Some a') Hb) as (_ & Hc).
      assert (Hpre : exists pre, rev (derivs a) = pre ++ rev (derivs a')).
      { destruct Hc as [[-> _]|(_ & pre & dl & rest & Er & _ & _ & Er' & _)]; [exists []; reflexivity|]. exists pre. now rewrite Er'. }
      destruct Hpre as (pre & Epre). split.
      + split; [rewrite Epre in G1; exact (gdesc_suffix _ _ G1)|].
        intros g v t Ea'. destruct Hc as [[-> _]|(_ & _ & dl & _ & _ & _ & _ & _ & Ex)]; [exact (G2 g v t Ea')|].
        rewrite Ex in Ea'. discriminate.
      + rewrite Epre in P2. apply jr_suffix in P2.
        eapply jr_transfer; [intros i I Hi; exact Hi| |exact P2].
        intros d Hd y. apply in_rev in Hd.
        (* [d] survives: its level is at most [Lv], so everything assigned before it survives too *)
        assert (Hdl : d_level d <= Lv).
        { destruct (layout_get_ok _ _ _ Hl' Hg') as (_ & K2 & _ & K4). rewrite Forall_forall in K4. specialize (K4 _ Hd).
          cbn in K4. rewrite Elv in K2. lia. }
        assert (Hev : evt a (d_gidx d) (d_level d)).
        { eapply backtrack_pa_evt; [exact Hb|]. left. eauto. }
        apply (lookup_before_backtrack _ _ _ H2 Ep).
        intros z b g' l' Hz Hzb Hlt.
        pose proof (proj2 H4 z b g' l' x a (d_gidx d) (d_level d) Hz Hzb Hg Hev ltac:(lia)). lia.
  Qed.

  (* ---------------------------------------------------------------- satisfier search *)
  Lemma first_disjoint_spec (ds : list dated) start dd :
    first_disjoint O ds start = Some dd -> In dd ds /\ t_is_disjoint O (d_accum dd) start = true.
  Proof.
    induction ds as [|d ds IH]; cbn [first_disjoint]; [discriminate|].
    destruct (t_is_disjoint O (d_accum d) start) eqn:Ed.
    - intros E. injection E as <-. split; [now left|exact Ed].
    - intros E. destruct (IH E). split; [now right|assumption].
  Qed.

  Lemma satisfier_spec (a : pa) start c g l :
    satisfier O a start = Good (c, g, l) ->
    (exists dd, In dd (derivs a) /\ c = Some (d_cause dd) /\ g = d_gidx dd /\ l = d_level dd
                /\ t_is_disjoint O (d_accum dd) start = true)
    \/ (c = None /\ exists v t, ai a = ADecision g v t /\ l = highest a).
  Proof.
    unfold satisfier. destruct (first_disjoint O (derivs a) start) as [dd|] eqn:E.
    - intros H. injection H as <- <- <-. destruct (first_disjoint_spec _ _ _ E). left. exists dd. auto.
    - destruct (ai a) as [gd v t|] eqn:Ea; [|discriminate]. intros H. injection H as <- <- <-. right. eauto.
  Qed.

  Lemma satisfier_evt (a : pa) start c g l : satisfier O a start = Good (c, g, l) -> evt a g l.
  Proof.
    intros H. apply satisfier_spec in H. destruct H as [(dd & Hin & _ & -> & -> & _)|(_ & v & t & Ea & ->)].
    - left. eauto.
    - right. eauto.
  Qed.

  Lemma find_satisfier_in (asg0 : list (pkg * pa)) (ts : list (pkg * tm)) : forall m,
    find_satisfier O ts asg0 = Good m ->
    (forall x t, In (x, t) ts -> exists a s, get x asg0 = Some a /\ satisfier O a (t_negate t) = Good s /\ In (x, s) m)
    /\ (forall x s, In (x, s) m -> exists t a, In (x, t) ts /\ get x asg0 = Some a /\ satisfier O a (t_negate t) = Good s).
  Proof.
    induction ts as [|[q t] ts IH]; intros m; cbn [find_satisfier].
    - intros E. injection E as <-. split; [intros x t []|intros x s []].
    - unfold bind, req. destruct (get q asg0) as [a|] eqn:Eg; [|discriminate].
      destruct (satisfier O a (t_negate t)) as [s|] eqn:Es; [|discriminate].
      destruct (find_satisfier O ts asg0) as [rest|]; [|discriminate].
      intros E. injection E as <-. destruct (IH rest eq_refl) as [I1 I2]. split.
      + intros x u [Hin|Hin].
        * injection Hin as <- <-. exists a, s. split; [exact Eg|]. split; [exact Es|now left].
        * destruct (I1 x u Hin) as (a1 & s1 & K1 & K2 & K3). exists a1, s1. split; [exact K1|]. split; [exact K2|now right].
      + intros x s0 [Hin|Hin].
        * injection Hin as <- <-. exists t, a. split; [now left|auto].
        * destruct (I2 x s0 Hin) as (u & a1 & K1 & K2 & K3). exists u, a1. split; [now right|auto].
  Qed.

  Definition egidx (e : sat_entry) : nat := snd (fst (snd e)).

  Lemma max_by_gidx_max (m : list sat_entry) e : max_by_gidx m = Some e -> forall e', In e' m -> egidx e' <= egidx e.
  Proof.
    unfold max_by_gidx.
    assert (H : forall acc,
              fold_left (fun acc e => match acc with
                 | None => Some e
                 | Some b => if Nat.leb (snd (fst (snd b))) (snd (fst (snd e))) then Some e else Some b end) m acc = Some e ->
              (forall e', In e' m -> egidx e' <= egidx e) /\ (forall b, acc = Some b -> egidx b <= egidx e)).
    { induction m as [|x m IH]; intros acc; cbn [fold_left].
      - intros E. split; [intros e' []|]. intros b Hb. rewrite Hb in E. injection E as <-. lia.
      - intros E. apply IH in E. destruct E as [I1 I2]. destruct acc as [b|].
        + fold (egidx b) in I2. fold (egidx x) in I2. destruct (Nat.leb_spec (egidx b) (egidx x)) as [Hle|Hlt].
          * pose proof (I2 x eq_refl). split; [intros e' [<-|Hin]; auto|]. intros b0 Hb. injection Hb as <-. lia.
          * pose proof (I2 b eq_refl). split; [intros e' [<-|Hin]; [lia|auto]|]. intros b0 Hb. injection Hb as <-. lia.
        + pose proof (I2 x eq_refl). split; [intros e' [<-|Hin]; auto|]. intros b0 Hb. discriminate. }
    intros E. exact (proj1 (H None E)).
  Qed.

  Lemma set_in_other {A} (k x : pkg) (v e : A) (m : list (pkg * A)) : In (x, e) m -> x <> k -> In (x, e) (set k v m).
  Proof.
    intros Hin Hne. induction m as [|[y b] m IH]; cbn [set]; [destruct Hin|].
    destruct (N.eqb_spec k y) as [->|Hky].
    - destruct Hin as [Hin|Hin]; [injection Hin as -> ->; congruence|now right].
    - destruct Hin as [Hin|Hin]; [now left|right; auto].
  Qed.

  Lemma set_in_inv {A} (k : pkg) (v : A) (m : list (pkg * A)) e : In e (set k v m) -> e = (k, v) \/ In e m.
  Proof.
    induction m as [|[y b] m IH]; cbn [set]; [intros [<-|[]]; now left|].
    destruct (N.eqb k y).
    - intros [<-|Hin]; [now left|right; now right].
    - intros [<-|Hin]; [right; now left|]. destruct (IH Hin); [now left|right; now right].
  Qed.

  (* the term of a package at a level, when one of its derivations has that level or a lower one *)
  Lemma dwg_in Lv (dd : dated) : forall l, rchain l -> In dd l -> d_level dd <= Lv ->
    exists d' r0, drop_while_gt Lv l = d' :: r0 /\ tle (d_accum d') (d_accum dd).
  Proof.
    induction l as [|d l IH]; intros Hc Hin Hle; [destruct Hin|]. cbn [drop_while_gt].
    destruct (Nat.ltb_spec Lv (d_level d)) as [Hlt|Hge].
    - destruct Hin as [->|Hin]; [lia|]. apply IH; [exact (proj2 Hc)|exact Hin|exact Hle].
    - exists d, l. split; [reflexivity|]. exact (rchain_head_le O d l dd Hc Hin).
  Qed.

  Lemma term_at_in Lv (a : pa) dd :
    pa_chain a -> In dd (derivs a) -> d_level dd <= Lv -> exists t1, term_at Lv a = Some t1 /\ tle t1 (d_accum dd).
  Proof.
    intros [Hc Hs] Hin Hle. apply in_rev in Hin.
    assert (Hd : exists t1, der_at Lv (derivs a) = Some t1 /\ tle t1 (d_accum dd)).
    { destruct (dwg_in Lv dd _ Hc Hin Hle) as (d' & r0 & E & Ht). unfold der_at. rewrite E. eauto. }
    unfold term_at. destruct (ai a) as [g v t|t]; [|exact Hd].
    destruct (Nat.leb (highest a) Lv); [|exact Hd]. exists t. split; [reflexivity|].
    destruct (rev (derivs a)) as [|dl rest] eqn:Er; [destruct Hs|]. destruct Hs as [-> Hcon].
    eapply tle_trans; [apply (tle_exact O L); exact Hcon|]. exact (rchain_head_le O dl rest dd Hc Hin).
  Qed.

  (* satisfier-search correctness: backtracking to the level of the previous satisfier keeps every term of the
     incompatibility satisfied, except the one of the satisfier package *)
  Lemma satisfier_search_different (p : psol) (ts : list (pkg * tm)) sto sp Lv p' :
    layout p -> ps_chain (assignments p) -> ps_wf p -> kinv p -> twf_all O L ts ->
    sat_now p ts None ->
    satisfier_search O ts p sto = Good (sp, SDifferent Lv) -> ps_backtrack p Lv = Good p' ->
    sat_now p' ts (Some sp).
  Proof.
    intros Hl Hc Hw [_ K2] Wt Hsat Es Ep.
    destruct (satisfier_search_level _ _ _ _ _ _ Hl Es) as [_ HLv].
    revert Es. unfold satisfier_search, bind, req.
    destruct (find_satisfier O ts (assignments p)) as [m|] eqn:Em; [|discriminate].
    destruct (max_by_gidx m) as [[sp0 [[sc sg] sl]]|] eqn:Et; [|discriminate].
    destruct (get sp0 (assignments p)) as [spa|] eqn:Espa; [|discriminate].
    destruct (match sc with Some _ => _ | None => _ end) as [accum|]; [|discriminate].
    destruct (get sp0 ts) as [it|]; [|discriminate].
    destruct (satisfier O spa _) as [s2|] eqn:Es2; [|discriminate].
    destruct (max_by_gidx (set sp0 s2 m)) as [top2|] eqn:Et2; [|discriminate].
    destruct (Nat.leb sl (Nat.max (snd (snd top2)) 1)); [destruct sc; discriminate|].
    intros E. injection E as <- <-.
    destruct (find_satisfier_in _ _ _ Em) as [F1 F2].
    (* the previous satisfier is an assignment of the partial solution *)
    assert (Htop2 : exists y b, get y (assignments p) = Some b /\ evt b (egidx top2) (snd (snd top2))).
    { pose proof (max_by_gidx_in _ _ Et2) as Hin. apply set_in_inv in Hin. destruct Hin as [->|Hin].
      - exists sp0, spa. split; [exact Espa|]. destruct s2 as [[c2 g2] l2]. cbn. eapply satisfier_evt; eauto.
      - destruct top2 as [y [[c2 g2] l2]]. destruct (F2 _ _ Hin) as (t & b & _ & Hb & Hs). exists y, b. split; [exact Hb|].
        cbn. eapply satisfier_evt; eauto. }
    destruct Htop2 as (y2 & b2 & Hy2 & He2).
    assert (HL : Nat.max (snd (snd top2)) 1 <= level p) by lia.
    pose proof (ps_backtrack_layout _ _ _ Hl HL Ep) as [Hl' _].
    pose proof (ps_backtrack_chain O _ _ _ Ep Hc) as Hc'.
    destruct (ps_backtrack_asg _ _ _ Ep) as (Elv & _ & _).
    intros x t Hin Hne. assert (Hx : x <> sp0) by congruence.
    destruct (F1 x t Hin) as (a & [[c g] l] & Hga & Hs & Hm).
    assert (Hl2 : l <= Nat.max (snd (snd top2)) 1).
    { pose proof (max_by_gidx_max _ _ Et2 _ (set_in_other sp0 x s2 _ m Hm Hx)) as Hg. unfold egidx at 1 in Hg. cbn in Hg.
      pose proof (K2 x a g l y2 b2 _ _ Hga (satisfier_evt _ _ _ _ _ Hs) Hy2 He2 Hg). lia. }
    (* the term of x at that level satisfies t *)
    assert (Hat : exists t1, lookup_at (Nat.max (snd (snd top2)) 1) (assignments p) x = Some t1 /\ tle t1 t).
    { unfold lookup_at. rewrite Hga. pose proof (ps_chain_get O _ _ _ Hc Hga) as Hch.
      apply satisfier_spec in Hs. destruct Hs as [(dd & Hdin & _ & _ & -> & Hdis)|(_ & v & t0 & Ea & ->)].
      - destruct (term_at_in _ a dd Hch Hdin Hl2) as (t1 & H1 & H2). exists t1. split; [exact H1|].
        eapply tle_trans; [exact H2|]. apply disjoint_neg_tle; [|exact (twf_all_in _ _ _ Wt Hin)|exact Hdis].
        destruct (ps_wf_get O L _ _ _ Hw Hga) as [_ Wd]. rewrite Forall_forall in Wd. exact (Wd _ Hdin).
      - destruct (Hsat x t Hin ltac:(discriminate)) as (tx & Htx & Hle). unfold term_for in Htx. rewrite Hga in Htx.
        cbn in Htx. rewrite Ea in Htx. cbn in Htx. injection Htx as <-.
        exists t0. split; [|exact Hle]. unfold term_at. rewrite Ea. destruct (Nat.leb_spec (highest a) (Nat.max (snd (snd top2)) 1)); [reflexivity|lia]. }
    destruct Hat as (t1 & Ht1 & Hle1).
    destruct (ps_backtrack_refines O _ _ _ Hl Ep _ x t1 (le_n _) Ht1) as (t' & Ht' & Hle').
    exists t'. split; [|eapply tle_trans; eauto]. rewrite <- (lookup_at_level O p' x Hl' Hc'). now rewrite Elv.
  Qed.

  Lemma satisfier_search_same (p : psol) (ts : list (pkg * tm)) sto sp c :
    satisfier_search O ts p sto = Good (sp, SSame c) ->
    exists a dd, get sp (assignments p) = Some a /\ In dd (derivs a) /\ d_cause dd = c.
  Proof.
    unfold satisfier_search, bind, req.
    destruct (find_satisfier O ts (assignments p)) as [m|] eqn:Em; [|discriminate].
    destruct (max_by_gidx m) as [[sp0 [[sc sg] sl]]|] eqn:Et; [|discriminate].
    destruct (get sp0 (assignments p)) as [spa|] eqn:Espa; [|discriminate].
    destruct (match sc with Some _ => _ | None => _ end) as [accum|]; [|discriminate].
    destruct (get sp0 ts) as [it|]; [|discriminate].
    destruct (satisfier O spa _) as [s2|] eqn:Es2; [|discriminate].
    destruct (max_by_gidx (set sp0 s2 m)) as [top2|] eqn:Et2; [|discriminate].
    destruct (Nat.leb sl (Nat.max (snd (snd top2)) 1)); [|discriminate].
    destruct sc as [c0|]; [|discriminate]. intros E. injection E as <- <-.
    destruct (find_satisfier_in _ _ _ Em) as [_ F2].
    destruct (F2 _ _ (max_by_gidx_in _ _ Et)) as (t & a & _ & Ha & Hs).
    apply satisfier_spec in Hs. destruct Hs as [(dd & Hin & Hc & _)|(Hc & _)]; [|discriminate].
    injection Hc as ->. exists a, dd. auto.
  Qed.

  (* ---------------------------------------------------------------- the rule of resolution *)
  Lemma prior_cause_in i j (ti tj : list (pkg * tm)) p pc x t :
    inc_ok ti -> inc_ok tj -> prior_cause O i j ti tj p = Good pc -> In (x, t) (terms pc) ->
    (x = p /\ exists t1 t2, get p ti = Some t1 /\ get p tj = Some t2 /\ t = t_union O t1 t2)
    \/ (x <> p /\ match get x ti, get x tj with
                  | Some a, Some b => t = t_intersection O a b
                  | Some a, None => t = a
                  | None, Some b => t = b
                  | None, None => False
                  end).
  Proof.
    intros Hi Hj Ep Hin. pose proof (prior_cause_ok O L reg r rv _ _ _ _ _ _ Hi Hj Ep) as (Nd & _ & _).
    apply (In_get _ _ _ Nd) in Hin. destruct Hi as (Ndi & _ & _), Hj as (Ndj & _ & _).
    revert Ep Hin. unfold prior_cause, bind, req.
    destruct (get p ti) as [t1|] eqn:E1; [|discriminate]. destruct (get p tj) as [t2|] eqn:E2; [|discriminate].
    intros E. injection E as <-. cbn [terms].
    set (rest := merge_terms O (remove p ti) (remove p tj)).
    assert (Grest : forall q, q <> p -> get q rest =
              match get q ti, get q tj with
              | Some a, Some b => Some (t_intersection O a b) | Some a, None => Some a
              | None, Some b => Some b | None, None => None end).
    { intros q Hq. unfold rest. rewrite (get_merge_terms O) by now apply nodup_remove.
      rewrite !get_remove_other by congruence. reflexivity. }
    assert (Prest : get p rest = None).
    { unfold rest. rewrite (get_merge_terms O) by now apply nodup_remove. now rewrite !get_remove_same. }
    intros Hg. destruct (N.eq_dec x p) as [->|Hne].
    - left. split; [reflexivity|]. exists t1, t2. split; [reflexivity|]. split; [reflexivity|].
      destruct (t_eqb O (t_union O t1 t2) (t_any O)); [congruence|]. rewrite get_set_same in Hg. congruence.
    - right. split; [exact Hne|].
      assert (Hg' : get x rest = Some t).
      { destruct (t_eqb O (t_union O t1 t2) (t_any O)); [exact Hg|]. now rewrite get_set_other in Hg by congruence. }
      rewrite (Grest x Hne) in Hg'. destruct (get x ti), (get x tj); congruence.
  Qed.

  Lemma resolve_sat st cur cause ci cj sp pc a dd :
    jinv st -> nth_error (store st) cur = Some ci -> nth_error (store st) cause = Some cj ->
    sat_now (ps st) (terms ci) None ->
    get sp (asg st) = Some a -> In dd (derivs a) -> d_cause dd = cause ->
    prior_cause O cur cause (terms ci) (terms cj) sp = Good pc ->
    sat_now (ps st) (terms pc) None.
  Proof.
    intros Hj Hi Hcj Hsat Hga Hdd Hcause Epc. pose proof Hj as [H1 H2 H3 H4 H5].
    pose proof (store_just_nth O L reg r rv _ (proj1 (proj1 H1)) _ _ Hi) as Oi.
    pose proof (store_just_nth O L reg r rv _ (proj1 (proj1 H1)) _ _ Hcj) as Oj.
    pose proof Oi as (Ndi & Wi & _). pose proof Oj as (Ndj & Wj & _).
    (* by (J), the other terms of the cause were satisfied before the derivation, hence are satisfied now *)
    assert (Hjs : forall x t, In (x, t) (terms cj) -> x <> sp -> exists tx, term_for (ps st) x = Some tx /\ tle tx t).
    { destruct (H5 sp a Hga) as [_ P2]. apply in_rev in Hdd. apply in_split in Hdd. destruct Hdd as (pre & post & Er).
      destruct (jr_in O _ _ _ _ P2 _ _ _ Er) as (I & ct & Hn & _ & _ & Hx). rewrite Hcause, Hcj in Hn. injection Hn as <-.
      intros x t Hin Hne. destruct (Hx x t Hin Hne) as (tx & Hb & Hle).
      destruct (lookup_before_final O L _ _ _ _ H3 Hb) as (tf & Hf & Hle'). exists tf. split; [exact Hf|eapply tle_trans; eauto]. }
    intros x t Hin _. destruct (prior_cause_in _ _ _ _ _ _ _ _ Oi Oj Epc Hin) as [(-> & t1 & t2 & G1 & G2 & ->)|(Hne & Hm)].
    - destruct (Hsat sp t1 (get_In _ _ _ G1) ltac:(discriminate)) as (tx & Htx & Hle). exists tx. split; [exact Htx|].
      apply tle_union_l; [exact (twf_all_get O L _ _ _ Wi G1)|exact (twf_all_get O L _ _ _ Wj G2)|exact Hle].
    - destruct (get x (terms ci)) as [ta|] eqn:Ga, (get x (terms cj)) as [tb|] eqn:Gb; [subst t| subst t| subst t|destruct Hm].
      + destruct (Hsat x ta (get_In _ _ _ Ga) ltac:(discriminate)) as (tx & Htx & Hle).
        destruct (Hjs x tb (get_In _ _ _ Gb) Hne) as (tx' & Htx' & Hle'). rewrite Htx in Htx'. injection Htx' as <-.
        exists tx. split; [exact Htx|]. apply tle_inter; try assumption;
          [exact (twf_all_get O L _ _ _ Wi Ga)|exact (twf_all_get O L _ _ _ Wj Gb)].
      + exact (Hsat x ta (get_In _ _ _ Ga) ltac:(discriminate)).
      + exact (Hjs x tb (get_In _ _ _ Gb) Hne).
  Qed.

  (* ---------------------------------------------------------------- conflict resolution *)
  Lemma cr_J fuel : forall st cur chg st' q rc,
    jinv st -> cur_sat st cur ->
    (chg = true -> exists i a b, nth_error (store st) cur = Some i /\ ikind i = KDerived a b) ->
    conflict_resolution O fuel st cur chg = inl (CROk st' q rc) -> jinv st' /\ others_sat st' q rc.
  Proof.
    induction fuel as [|fuel IH]; intros st cur chg st' q rc Hj (ci0 & Hci0 & Hsat) Hchg; cbn [conflict_resolution]; [discriminate|].
    destruct (nth_error (store st) cur) as [ci|] eqn:Ec; [|discriminate]. injection Hci0 as <-.
    destruct (is_terminal O ci (root st) (rootv st)); [discriminate|].
    pose proof Hj as [H1 H2 H3 H4 H5].
    assert (Wc : twf_all O L (terms ci)) by exact (store_just_wf O L reg r rv st cur ci (proj1 H1) Ec).
    destruct (satisfier_search O (terms ci) (ps st) (store st)) as [[p [Lv|cause]]|] eqn:Es; [| |discriminate].
    - destruct (backtrack O st cur chg Lv) as [st2|] eqn:Eb; [|discriminate].
      intros E. injection E as <- <- <-.
      destruct (satisfier_search_level _ _ _ _ _ _ H2 Es) as [_ Hlt].
      assert (Hchg' : chg = true -> exists i a b, nth_error (store st) cur = Some i /\ ikind i = KDerived a b)
        by (rewrite Ec; exact Hchg).
      pose proof (backtrack_ok O L veqb reg r rv st cur chg Lv st2 H1 Hchg' Eb) as Hok2.
      revert Eb. unfold backtrack, bind. destruct (ps_backtrack (ps st) Lv) as [p'|] eqn:Ep; [|discriminate].
      pose proof (backtrack_J st Lv p' (filter (fun e => Nat.leb (snd e) Lv) (contradicted st)) Hj ltac:(lia) Ep) as Hj1.
      pose proof (satisfier_search_different _ _ _ _ _ _ H2 H3 (proj2 H1) H4 Wc Hsat Es Ep) as Hsat'.
      set (st1 := {| root := root st; rootv := rootv st; index := index st;
                     contradicted := filter (fun e => Nat.leb (snd e) Lv) (contradicted st);
                     merged := merged st; ps := p'; store := store st |}) in *.
      destruct chg.
      + intros E. pose proof (merge_incompatibility_ps O _ _ _ E) as Eps.
        destruct (merge_incompatibility_ext O _ _ _ E) as (extra & Est). split.
        * eapply store_J; [exact Hj1|exact Eps|eauto|exact Hok2].
        * exists ci. split; [rewrite Est; cbn [store st1]; now apply nth_error_app_old|]. rewrite Eps. exact Hsat'.
      + intros E. injection E as <-. split; [exact Hj1|]. exists ci. split; [exact Ec|exact Hsat'].
    - destruct (nth_error (store st) cause) as [cj|] eqn:Ej; [|discriminate].
      destruct (prior_cause O cur cause (terms ci) (terms cj) p) as [pc|] eqn:Epc; [|discriminate].
      cbn [alloc]. pose proof (prior_cause_kind O _ _ _ _ _ _ Epc) as Hk.
      destruct (satisfier_search_same _ _ _ _ _ Es) as (a & dd & Hga & Hdd & Hcause).
      pose proof (resolve_sat st cur cause ci cj p pc a dd Hj Ec Ej Hsat Hga Hdd Hcause Epc) as Hsat2.
      apply IH.
      + eapply store_J; [exact Hj|reflexivity|exists [pc]; reflexivity|].
        destruct H1 as [Hok Hw]. split; [|exact Hw].
        apply (alloc_ok O L reg r rv st pc Hok). exact (J_der _ _ _ _ _ _ _ cur cause ci cj p Ec Ej Epc).
      + exists pc. cbn [store ps]. split; [apply nth_error_snoc|exact Hsat2].
      + intros _. exists pc, cur, cause. cbn [store]. split; [apply nth_error_snoc|exact Hk].
  Qed.

  (* ---------------------------------------------------------------- the scan, unit propagation *)
  Lemma scan_J ids : forall st buffer st' b' c,
    jinv st -> scan_incompats O ids st buffer = Good (st', b', c) ->
    jinv st' /\ forall id, c = Some id -> cur_sat st' id.
  Proof.
    induction ids as [|id ids IH]; intros st buffer st' b' c Hj; cbn [scan_incompats].
    { intros E. injection E as <- <- <-. split; [exact Hj|discriminate]. }
    destruct (cached id (contradicted st)); [now apply IH|].
    unfold bind, req. destruct (nth_error (store st) id) as [ci|] eqn:Ec; [|discriminate].
    pose proof Hj as [H1 H2 H3 H4 H5].
    assert (Wc : twf_all O L (terms ci)) by exact (store_just_wf O L reg r rv st id ci (proj1 H1) Ec).
    pose proof (relation_sat_now (ps st) (terms ci) (proj2 H1) Wc) as Hrel.
    destruct (relation O (terms ci) (term_for (ps st))) as [| |q|].
    - intros E. injection E as <- <- <-. split; [exact Hj|]. intros id0 E0. injection E0 as <-. exists ci. auto.
    - apply IH. now apply cache_J.
    - destruct (add_derivation O (ps st) q id (terms ci)) as [p'|] eqn:Ed; [|discriminate].
      apply IH. eapply deriv_J; eauto.
    - now apply IH.
  Qed.

  Lemma up_J fuel : forall st buffer st',
    jinv st -> unit_propagation O fuel st buffer = inl (UPOk st') -> jinv st'.
  Proof.
    induction fuel as [|fuel IH]; intros st buffer st' Hj; cbn [unit_propagation]; [discriminate|].
    destruct (rev buffer) as [|cur rest]; [intros E; now injection E as <-|].
    destruct (get cur (index st)) as [ids|]; [|discriminate].
    destruct (scan_incompats O (rev ids) st (rev rest)) as [[[st1 b2] [conflict|]]|] eqn:Es; [| |discriminate].
    - destruct (scan_J _ _ _ _ _ _ Hj Es) as [Hj1 Hc1].
      destruct (conflict_resolution O fuel st1 conflict false) as [[st2 q rc|st2 id]|] eqn:Ecr; [|discriminate|discriminate].
      destruct (cr_J fuel st1 conflict false st2 q rc Hj1 (Hc1 _ eq_refl) ltac:(discriminate) Ecr) as [Hj2 (rci0 & Hrc0 & Hsat)].
      destruct (nth_error (store st2) rc) as [rci|] eqn:Erc; [|discriminate]. injection Hrc0 as <-.
      destruct (add_derivation O (ps st2) q rc (terms rci)) as [p'|] eqn:Ed; [|discriminate].
      apply IH. eapply deriv_J; eauto.
    - apply IH. exact (proj1 (scan_J _ _ _ _ _ _ Hj Es)).
  Qed.

  Lemma jinv_init : jinv (state_init O r rv).
  Proof.
    constructor; cbn [state_init ps ps_empty assignments store].
    - apply state_init_ok.
    - apply ps_empty_layout.
    - constructor.
    - split; [intros q a g l H; discriminate|intros q1 a1 g1 l1 q2 a2 g2 l2 H; discriminate].
    - intros q a H. discriminate.
  Qed.
End Reach2.
