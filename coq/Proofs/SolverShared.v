(* C03, last sentence: "A derived node carries a shared id exactly when it is reachable along more than one
   path, and all occurrences of one id are the same subtree."  Proved for the Gallina model of
   State::build_derivation_tree (Model/Solver.v: tree_dfs, tree_of, build_derivation_tree).

   T-A  all occurrences of one shared id in the produced tree are the same subtree; a derived node built for store
        id j carries [Some j] iff j is in the shared list, and carries no other id.
   T-B  the DFS's shared list is exactly the set of derived ids of in-degree >= 2 in the cause DAG restricted to
        the ids reachable from the top id (the top id has one extra incoming edge "from outside"; a node whose two
        causes are the same id contributes two edges); [all] is the reachable set; the fuel used by
        build_derivation_tree always suffices on a well-founded store.
   T-C  corollaries for the NoSolution results of [resolve]. *)
From Coq Require Import List NArith ZArith Bool Lia PeanoNat Permutation.
From PG Require Import Model.VS Model.Term Model.Solver Model.Registry Proofs.VSLaws Proofs.TermProofs
  Proofs.AssocProofs Proofs.SolverSem Proofs.SolverStore Proofs.SolverTree.
Import ListNotations.

Section Shared.
  Context {VS Vr : Type}.

  Notation incompat := (@incompat VS Vr).
  Notation tree := (@tree VS Vr).
  Notation kind := (@kind VS Vr).

  Implicit Types (st : list incompat) (t : tree).

  (* ---------------------------------------------------------------- the cause graph of a store *)

  (* edges go to strictly smaller ids *)
  Definition wf_store st : Prop :=
    forall i ci a b, nth_error st i = Some ci -> ikind ci = KDerived a b -> a < i /\ b < i.

  Definition is_derived st (x : nat) : Prop :=
    exists a b ci, nth_error st x = Some ci /\ ikind ci = KDerived a b.

  (* the out-edges of an id: its two causes (with multiplicity) when it is derived, none otherwise *)
  Definition children st (u : nat) : list nat :=
    match nth_error st u with
    | Some ci => match ikind ci with KDerived a b => [a; b] | _ => [] end
    | None => []
    end.

  Inductive reachable st (top : nat) : nat -> Prop :=
  | reach_top : reachable st top top
  | reach_step u x : reachable st top u -> In x (children st u) -> reachable st top x.

  Lemma reachable_trans st a b c : reachable st a b -> reachable st b c -> reachable st a c.
  Proof. intros Hab Hbc. induction Hbc as [|u x _ IH Hx]; [exact Hab|]. eapply reach_step; eauto. Qed.

  Lemma reachable_head st u c x : In c (children st u) -> reachable st c x -> reachable st u x.
  Proof. intros Hc Hx. eapply reachable_trans; [|exact Hx]. eapply reach_step; [apply reach_top|exact Hc]. Qed.

  Lemma reachable_inv_head st u x :
    reachable st u x -> u = x \/ exists c, In c (children st u) /\ reachable st c x.
  Proof.
    induction 1 as [|v x Hv IH Hx]; [now left|]. right. destruct IH as [->|(c & Hc & Hcv)].
    - exists x. split; [exact Hx|apply reach_top].
    - exists c. split; [exact Hc|]. eapply reach_step; eauto.
  Qed.

  Lemma children_derived st i ci a b :
    nth_error st i = Some ci -> ikind ci = KDerived a b -> children st i = [a; b].
  Proof. intros Hn Hk. unfold children. now rewrite Hn, Hk. Qed.

  Lemma children_nonderived st i ci :
    nth_error st i = Some ci -> (forall a b, ikind ci <> KDerived a b) -> children st i = [].
  Proof.
    intros Hn Hk. unfold children. rewrite Hn. destruct (ikind ci) as [| | |a b|]; try reflexivity.
    exfalso. now apply (Hk a b).
  Qed.

  Lemma children_lt st i x : wf_store st -> In x (children st i) -> x < i.
  Proof.
    intros Hwf. unfold children. destruct (nth_error st i) as [ci|] eqn:Hn; [|intros []].
    destruct (ikind ci) as [| | |a b|] eqn:Hk; try (now intros []).
    destruct (Hwf i ci a b Hn Hk) as [Ha Hb]. intros [<-|[<-|[]]]; assumption.
  Qed.

  Lemma children_is_derived st i x : In x (children st i) -> is_derived st i.
  Proof.
    unfold children, is_derived. destruct (nth_error st i) as [ci|] eqn:Hn; [|intros []].
    destruct (ikind ci) as [| | |a b|] eqn:Hk; try (now intros []). intros _. exists a, b, ci. auto.
  Qed.

  Lemma reachable_le st top x : wf_store st -> reachable st top x -> x <= top.
  Proof.
    intros Hwf. induction 1 as [|u x _ IH Hx]; [lia|]. pose proof (children_lt st u x Hwf Hx). lia.
  Qed.

  Lemma kind_derived_dec (k : kind) : (exists a b, k = KDerived a b) \/ (forall a b, k <> KDerived a b).
  Proof. destruct k as [| | |a b|]; try (right; intros; discriminate). left. eauto. Qed.

  Lemma existsb_eqb_In i l : existsb (Nat.eqb i) l = true <-> In i l.
  Proof.
    rewrite existsb_exists. split.
    - intros (x & Hx & E). apply Nat.eqb_eq in E. now subst.
    - intros H. exists i. split; [exact H|apply Nat.eqb_refl].
  Qed.

  Lemma existsb_eqb_nIn i l : existsb (Nat.eqb i) l = false <-> ~ In i l.
  Proof. rewrite <- existsb_eqb_In. destruct (existsb (Nat.eqb i) l); split; congruence. Qed.

  (* ---------------------------------------------------------------- T-A: tree_of *)

  (* [subtree u t]: u is a sub-term of t (reflexive, transitive) *)
  Inductive subtree : tree -> tree -> Prop :=
  | sub_refl t : subtree t t
  | sub_left u ts sh c1 c2 : subtree u c1 -> subtree u (TDerived ts sh c1 c2)
  | sub_right u ts sh c1 c2 : subtree u c2 -> subtree u (TDerived ts sh c1 c2).

  Lemma subtree_trans u v t : subtree u v -> subtree v t -> subtree u t.
  Proof. intros Huv Hvt. induction Hvt; [exact Huv|apply sub_left; auto|apply sub_right; auto]. Qed.

  Lemma tree_of_mono st sh : forall f id t, tree_of f st sh id = Some t ->
    forall f', f <= f' -> tree_of f' st sh id = Some t.
  Proof.
    induction f as [|f IH]; intros id t H f' Hle; [discriminate|].
    destruct f' as [|f']; [lia|]. cbn [tree_of] in H |- *.
    destruct (nth_error st id) as [ci|]; [|discriminate].
    destruct (ikind ci) as [| | |a b|]; try exact H.
    destruct (tree_of f st sh a) as [t1|] eqn:E1; [|discriminate].
    destruct (tree_of f st sh b) as [t2|] eqn:E2; [|discriminate].
    rewrite (IH _ _ E1 f'), (IH _ _ E2 f') by lia. exact H.
  Qed.

  Lemma tree_of_det st sh f1 f2 id t1 t2 :
    tree_of f1 st sh id = Some t1 -> tree_of f2 st sh id = Some t2 -> t1 = t2.
  Proof.
    intros H1 H2. apply (tree_of_mono st sh f1 id t1) with (f' := Nat.max f1 f2) in H1; [|lia].
    apply (tree_of_mono st sh f2 id t2) with (f' := Nat.max f1 f2) in H2; [|lia]. congruence.
  Qed.

  Lemma tree_of_inv_derived st sh f j ts o c1 c2 :
    tree_of f st sh j = Some (TDerived ts o c1 c2) ->
    exists f' ci a b, f = S f' /\ nth_error st j = Some ci /\ ikind ci = KDerived a b /\ ts = terms ci
      /\ o = (if existsb (Nat.eqb j) sh then Some j else None)
      /\ tree_of f' st sh a = Some c1 /\ tree_of f' st sh b = Some c2.
  Proof.
    destruct f as [|f]; [discriminate|]. cbn [tree_of]. destruct (nth_error st j) as [ci|]; [|discriminate].
    destruct (ikind ci) as [| | |a b|] eqn:Ek; try discriminate.
    destruct (tree_of f st sh a) as [t1|] eqn:E1; [|discriminate].
    destruct (tree_of f st sh b) as [t2|] eqn:E2; [|discriminate].
    intros H. injection H as <- <- <- <-. exists f, ci, a, b. repeat split; auto.
  Qed.

  (* the label of a derived node built for store id j: [Some j] iff j is shared, never another id *)
  Lemma tree_of_label st sh f j ts o c1 c2 :
    tree_of f st sh j = Some (TDerived ts o c1 c2) ->
    (o = Some j <-> In j sh) /\ (o = None <-> ~ In j sh) /\ (forall i, o = Some i -> i = j).
  Proof.
    intros H. destruct (tree_of_inv_derived _ _ _ _ _ _ _ _ H) as (f' & ci & a & b & _ & _ & _ & _ & -> & _).
    destruct (existsb (Nat.eqb j) sh) eqn:E.
    - apply existsb_eqb_In in E. repeat split; try congruence; tauto.
    - apply existsb_eqb_nIn in E. repeat split; try congruence; tauto.
  Qed.

  Lemma tree_of_external_not_derived st sh f j e :
    tree_of f st sh j = Some (TExternal e) -> ~ is_derived st j.
  Proof.
    destruct f as [|f]; [discriminate|]. cbn [tree_of]. intros H (a & b & ci & Hn & Hk). rewrite Hn, Hk in H.
    destruct (tree_of f st sh a); [|discriminate]. destruct (tree_of f st sh b); discriminate.
  Qed.

  (* every sub-term of the tree built for [id] is the tree built for some id reachable from [id] *)
  Lemma subtree_tree_of st sh u t : subtree u t -> forall f id, tree_of f st sh id = Some t ->
    exists f' j, reachable st id j /\ tree_of f' st sh j = Some u.
  Proof.
    induction 1 as [t|u ts o c1 c2 _ IH|u ts o c1 c2 _ IH]; intros f id Ht.
    - exists f, id. split; [apply reach_top|exact Ht].
    - destruct (tree_of_inv_derived _ _ _ _ _ _ _ _ Ht) as (f' & ci & a & b & _ & Hn & Hk & _ & _ & H1 & _).
      destruct (IH _ _ H1) as (f'' & j & Hr & Hj). exists f'', j. split; [|exact Hj].
      eapply reachable_head; [|exact Hr]. rewrite (children_derived _ _ _ _ _ Hn Hk). now left.
    - destruct (tree_of_inv_derived _ _ _ _ _ _ _ _ Ht) as (f' & ci & a & b & _ & Hn & Hk & _ & _ & _ & H2).
      destruct (IH _ _ H2) as (f'' & j & Hr & Hj). exists f'', j. split; [|exact Hj].
      eapply reachable_head; [|exact Hr]. rewrite (children_derived _ _ _ _ _ Hn Hk). right. now left.
  Qed.

  (* conversely every reachable id has an occurrence *)
  Lemma reachable_subtree st sh top j : reachable st top j -> forall f t, tree_of f st sh top = Some t ->
    exists f' u, subtree u t /\ tree_of f' st sh j = Some u.
  Proof.
    induction 1 as [|v x _ IH Hx]; intros f t Ht.
    - exists f, t. split; [constructor|exact Ht].
    - destruct (IH f t Ht) as (f' & u & Hsub & Hu).
      destruct f' as [|f']; [discriminate|]. cbn [tree_of] in Hu. unfold children in Hx.
      destruct (nth_error st v) as [ci|]; [|destruct Hx].
      destruct (ikind ci) as [| | |a b|]; try (now destruct Hx).
      destruct (tree_of f' st sh a) as [t1|] eqn:E1; [|discriminate].
      destruct (tree_of f' st sh b) as [t2|] eqn:E2; [|discriminate].
      injection Hu as <-. destruct Hx as [<-|[<-|[]]].
      + exists f', t1. split; [|exact E1]. eapply subtree_trans; [|exact Hsub]. apply sub_left, sub_refl.
      + exists f', t2. split; [|exact E2]. eapply subtree_trans; [|exact Hsub]. apply sub_right, sub_refl.
  Qed.

  (* T-A *)
  Theorem shared_id_same_subtree st sh f id t : tree_of f st sh id = Some t ->
    forall i ts1 a1 b1 ts2 a2 b2,
      subtree (TDerived ts1 (Some i) a1 b1) t -> subtree (TDerived ts2 (Some i) a2 b2) t ->
      TDerived ts1 (Some i) a1 b1 = TDerived ts2 (Some i) a2 b2.
  Proof.
    intros Ht i ts1 a1 b1 ts2 a2 b2 S1 S2.
    destruct (subtree_tree_of st sh _ _ S1 f id Ht) as (f1 & j1 & _ & H1).
    destruct (subtree_tree_of st sh _ _ S2 f id Ht) as (f2 & j2 & _ & H2).
    destruct (tree_of_label _ _ _ _ _ _ _ _ H1) as (_ & _ & L1). specialize (L1 i eq_refl). subst j1.
    destruct (tree_of_label _ _ _ _ _ _ _ _ H2) as (_ & _ & L2). specialize (L2 i eq_refl). subst j2.
    eapply tree_of_det; eassumption.
  Qed.

  (* T-A, second half: the occurrences of the tree are the reachable ids; the label of an occurrence of a derived
     id j is [Some j] when j is shared and [None] otherwise; a node labelled [Some i] is THE tree of id i *)
  Theorem tree_of_labels st sh f top t : tree_of f st sh top = Some t ->
    (forall u, subtree u t -> exists f' j, reachable st top j /\ tree_of f' st sh j = Some u)
    /\ (forall j, reachable st top j -> exists f' u, subtree u t /\ tree_of f' st sh j = Some u)
    /\ (forall f' j ts o c1 c2, tree_of f' st sh j = Some (TDerived ts o c1 c2) ->
          is_derived st j /\ (o = Some j <-> In j sh) /\ (o = None <-> ~ In j sh) /\ (forall i, o = Some i -> i = j))
    /\ (forall ts i c1 c2, subtree (TDerived ts (Some i) c1 c2) t ->
          In i sh /\ is_derived st i /\ reachable st top i
          /\ exists f', tree_of f' st sh i = Some (TDerived ts (Some i) c1 c2)).
  Proof.
    intros Ht. split; [|split; [|split]].
    - intros u Hu. eapply subtree_tree_of; eauto.
    - intros j Hj. eapply reachable_subtree; eauto.
    - intros f' j ts o c1 c2 H. split; [|eapply tree_of_label; eauto].
      destruct (tree_of_inv_derived _ _ _ _ _ _ _ _ H) as (_ & ci & a & b & _ & Hn & Hk & _). exists a, b, ci. auto.
    - intros ts i c1 c2 Hs. destruct (subtree_tree_of st sh _ _ Hs f top Ht) as (f1 & j & Hr & H1).
      destruct (tree_of_label _ _ _ _ _ _ _ _ H1) as (Li & _ & L1). specialize (L1 i eq_refl). subst j.
      split; [now apply Li|]. split; [|split; [exact Hr|eauto]].
      destruct (tree_of_inv_derived _ _ _ _ _ _ _ _ H1) as (_ & ci & a & b & _ & Hn & Hk & _). exists a, b, ci. auto.
  Qed.

  (* fuel sufficiency of tree_of: the depth is bounded by the id *)
  Lemma tree_of_total st sh : wf_store st -> forall f id, id < f -> id < length st ->
    exists t, tree_of f st sh id = Some t.
  Proof.
    intros Hwf. induction f as [|f IH]; intros id Hf Hlen; [lia|]. cbn [tree_of].
    destruct (nth_error st id) as [ci|] eqn:Hn; [|apply nth_error_None in Hn; lia].
    destruct (ikind ci) as [| | |a b|] eqn:Hk; eauto.
    destruct (Hwf id ci a b Hn Hk) as [Ha Hb].
    destruct (IH a) as [t1 ->]; [lia|lia|]. destruct (IH b) as [t2 ->]; [lia|lia|]. eauto.
  Qed.

  (* ---------------------------------------------------------------- T-B: tree_dfs *)

  (* number of occurrences *)
  Fixpoint cnt (x : nat) (l : list nat) : nat :=
    match l with
    | [] => 0
    | y :: r => (if Nat.eqb x y then 1 else 0) + cnt x r
    end.

  Lemma cnt_app x l1 l2 : cnt x (l1 ++ l2) = cnt x l1 + cnt x l2.
  Proof. induction l1 as [|y l1 IH]; cbn [cnt app]; [reflexivity|]. rewrite IH. lia. Qed.

  Lemma cnt_In x l : In x l <-> 1 <= cnt x l.
  Proof.
    induction l as [|y l IH]; cbn [cnt In]; [split; [tauto|lia]|].
    destruct (Nat.eqb_spec x y) as [->|Hne]; [split; [lia|auto]|].
    rewrite IH. split; [intros [E|H]; [congruence|lia]|intros H; right; lia].
  Qed.

  Lemma cnt_nIn x l : ~ In x l -> cnt x l = 0.
  Proof. rewrite cnt_In. lia. Qed.

  Lemma cnt_perm x l l' : Permutation l l' -> cnt x l = cnt x l'.
  Proof. induction 1; cbn [cnt]; lia. Qed.

  Lemma tree_dfs_derived fuel st i rest all shared ci a b :
    nth_error st i = Some ci -> ikind ci = KDerived a b ->
    tree_dfs (S fuel) st (i :: rest) all shared =
      if existsb (Nat.eqb i) all
      then tree_dfs fuel st rest all (if existsb (Nat.eqb i) shared then shared else i :: shared)
      else tree_dfs fuel st (b :: a :: rest) (i :: all) shared.
  Proof. intros Hn Hk. cbn [tree_dfs]. now rewrite Hn, Hk. Qed.

  Lemma tree_dfs_nonderived fuel st i rest all shared ci :
    nth_error st i = Some ci -> (forall a b, ikind ci <> KDerived a b) ->
    tree_dfs (S fuel) st (i :: rest) all shared =
      tree_dfs fuel st rest (if existsb (Nat.eqb i) all then all else i :: all) shared.
  Proof.
    intros Hn Hk. cbn [tree_dfs]. rewrite Hn. destruct (ikind ci) as [| | |a b|]; try reflexivity.
    exfalso. now apply (Hk a b).
  Qed.

  Lemma In_add_if i x l : In x (if existsb (Nat.eqb i) l then l else i :: l) <-> x = i \/ In x l.
  Proof.
    destruct (existsb (Nat.eqb i) l) eqn:E; [|cbn [In]; intuition congruence].
    apply existsb_eqb_In in E. intuition congruence.
  Qed.

  Lemma NoDup_add_if i l : NoDup l -> NoDup (if existsb (Nat.eqb i) l then l else i :: l).
  Proof.
    intros H. destruct (existsb (Nat.eqb i) l) eqn:E; [exact H|]. apply existsb_eqb_nIn in E. now constructor.
  Qed.

  (* The invariant of the DFS, with the ghost list P of the ids popped so far:
     all is the set of P; shared the derived ids popped at least twice; the ids popped or waiting on the stack are
     the top id plus, for every expanded id, its children (as multisets) *)
  Definition dfs_inv st (top : nat) (P stack all shared : list nat) : Prop :=
    NoDup all
    /\ (forall x, In x all <-> In x P)
    /\ (forall x, In x shared <-> is_derived st x /\ 2 <= cnt x P)
    /\ (forall x, cnt x P + cnt x stack = (if Nat.eqb x top then 1 else 0) + cnt x (flat_map (children st) all))
    /\ (forall x, In x stack -> reachable st top x)
    /\ (forall x, In x all -> reachable st top x).

  Lemma dfs_inv_preserved st top : forall fuel P stack all shared all' shared',
    dfs_inv st top P stack all shared -> tree_dfs fuel st stack all shared = Some (all', shared') ->
    exists P', dfs_inv st top P' [] all' shared'.
  Proof.
    induction fuel as [|fuel IH]; intros P stack all shared all' shared' Hinv Hd; [discriminate|].
    destruct stack as [|i rest].
    { cbn [tree_dfs] in Hd. injection Hd as <- <-. eauto. }
    destruct Hinv as (Hnd & Hall & Hsh & Hcnt & Hstk & Hreach).
    destruct (nth_error st i) as [ci|] eqn:Hn; [|cbn [tree_dfs] in Hd; rewrite Hn in Hd; discriminate].
    destruct (kind_derived_dec (ikind ci)) as [(a & b & Hk)|Hk].
    - rewrite (tree_dfs_derived _ _ _ _ _ _ _ _ _ Hn Hk) in Hd.
      assert (Hder : is_derived st i) by (exists a, b, ci; auto).
      destruct (existsb (Nat.eqb i) all) eqn:E.
      + (* popped again: becomes shared *)
        apply existsb_eqb_In in E. apply (IH (i :: P)) in Hd; [exact Hd|].
        split; [exact Hnd|]. split; [|split; [|split; [|split]]].
        * intros x. rewrite Hall. cbn [In]. split; [auto|]. intros [<-|H]; [now apply Hall|exact H].
        * intros x. rewrite In_add_if, Hsh. cbn [cnt].
          assert (1 <= cnt i P) by (apply cnt_In, Hall, E).
          destruct (Nat.eqb_spec x i) as [->|Hne]; [split; [intros _; split; [exact Hder|lia]|auto]|].
          split; [intros [?|H']; [contradiction|exact H']|auto].
        * intros x. specialize (Hcnt x). cbn [cnt] in Hcnt |- *. lia.
        * intros x Hx. apply Hstk. now right.
        * exact Hreach.
      + (* first pop of a derived id: expanded *)
        apply existsb_eqb_nIn in E. apply (IH (i :: P)) in Hd; [exact Hd|].
        assert (HiP : cnt i P = 0) by (apply cnt_nIn; rewrite <- Hall; exact E).
        split; [now constructor|]. split; [|split; [|split; [|split]]].
        * intros x. cbn [In]. now rewrite Hall.
        * intros x. rewrite Hsh. cbn [cnt]. destruct (Nat.eqb_spec x i) as [->|Hne]; [|reflexivity].
          rewrite HiP. split; intros [_ H]; lia.
        * intros x. specialize (Hcnt x). cbn [flat_map]. rewrite (children_derived _ _ _ _ _ Hn Hk), cnt_app.
          cbn [cnt] in Hcnt |- *. lia.
        * assert (Hi : reachable st top i) by (apply Hstk; now left).
          intros x [<-|[<-|Hx]].
          -- eapply reach_step; [exact Hi|]. rewrite (children_derived _ _ _ _ _ Hn Hk). right. now left.
          -- eapply reach_step; [exact Hi|]. rewrite (children_derived _ _ _ _ _ Hn Hk). now left.
          -- apply Hstk. now right.
        * intros x [<-|Hx]; [apply Hstk; now left|now apply Hreach].
    - (* an external id: recorded only *)
      rewrite (tree_dfs_nonderived _ _ _ _ _ _ _ Hn Hk) in Hd.
      assert (Hnder : ~ is_derived st i).
      { intros (a & b & ci' & Hn' & Hk'). rewrite Hn in Hn'. injection Hn' as <-. now apply (Hk a b). }
      assert (Hch : children st i = []) by (eapply children_nonderived; eauto).
      apply (IH (i :: P)) in Hd; [exact Hd|].
      split; [now apply NoDup_add_if|]. split; [|split; [|split; [|split]]].
      * intros x. rewrite In_add_if, Hall. cbn [In]. intuition congruence.
      * intros x. rewrite Hsh. cbn [cnt]. destruct (Nat.eqb_spec x i) as [->|Hne]; [|reflexivity].
        split; intros [H _]; contradiction.
      * intros x. specialize (Hcnt x).
        assert (Hf : cnt x (flat_map (children st) (if existsb (Nat.eqb i) all then all else i :: all))
                     = cnt x (flat_map (children st) all)).
        { destruct (existsb (Nat.eqb i) all); [reflexivity|]. cbn [flat_map]. now rewrite Hch. }
        rewrite Hf. cbn [cnt] in Hcnt |- *. lia.
      * intros x Hx. apply Hstk. now right.
      * intros x. rewrite In_add_if. intros [->|Hx]; [apply Hstk; now left|now apply Hreach].
  Qed.

  Lemma dfs_inv_init st top : dfs_inv st top [] [top] [] [].
  Proof.
    split; [constructor|]. split; [tauto|]. split; [|split; [|split]].
    - intros x. cbn [cnt In]. split; [tauto|]. intros [_ H]. lia.
    - intros x. cbn [cnt flat_map]. lia.
    - intros x [<-|[]]. apply reach_top.
    - intros x [].
  Qed.

  (* what the DFS returns, in terms of the final pop list P *)
  Lemma dfs_result st top fuel all shared :
    tree_dfs fuel st [top] [] [] = Some (all, shared) ->
    NoDup all
    /\ (forall x, In x all <-> reachable st top x)
    /\ (forall x, In x shared <->
          is_derived st x /\ 2 <= (if Nat.eqb x top then 1 else 0) + cnt x (flat_map (children st) all)).
  Proof.
    intros Hd. destruct (dfs_inv_preserved st top _ _ _ _ _ _ _ (dfs_inv_init st top) Hd)
      as (P & Hnd & Hall & Hsh & Hcnt & _ & Hreach).
    assert (HcntP : forall x, cnt x P = (if Nat.eqb x top then 1 else 0) + cnt x (flat_map (children st) all)).
    { intros x. specialize (Hcnt x). cbn [cnt] in Hcnt. lia. }
    split; [exact Hnd|]. split.
    - intros x. split; [apply Hreach|]. induction 1 as [|u x _ IH Hx].
      + apply Hall, cnt_In. rewrite HcntP, Nat.eqb_refl. lia.
      + apply Hall, cnt_In. rewrite HcntP.
        assert (In x (flat_map (children st) all)) by (apply in_flat_map; eauto).
        apply cnt_In in H. lia.
    - intros x. rewrite Hsh, HcntP. reflexivity.
  Qed.

  (* fuel sufficiency of the DFS: every pop either expands a new id (at most n times, two pushes each) or shrinks
     the stack *)
  Lemma tree_dfs_total st : wf_store st -> forall fuel stack all shared,
    (forall x, In x stack -> x < length st) -> NoDup all -> (forall x, In x all -> x < length st) ->
    length stack + 2 * (length st - length all) < fuel ->
    exists r, tree_dfs fuel st stack all shared = Some r.
  Proof.
    intros Hwf. induction fuel as [|fuel IH]; intros stack all shared Hstk Hnd Hall Hf; [lia|].
    destruct stack as [|i rest]; [cbn [tree_dfs]; eauto|].
    assert (Hi : i < length st) by (apply Hstk; now left).
    destruct (nth_error st i) as [ci|] eqn:Hn; [|apply nth_error_None in Hn; lia].
    assert (Hlen : forall l, NoDup l -> (forall x, In x l -> x < length st) -> length l <= length st).
    { intros l Hl Hin. rewrite <- (seq_length (length st) 0). apply NoDup_incl_length; [exact Hl|].
      intros x Hx. apply in_seq. specialize (Hin x Hx). lia. }
    pose proof (Hlen all Hnd Hall) as Hla. cbn [length] in Hf.
    destruct (kind_derived_dec (ikind ci)) as [(a & b & Hk)|Hk].
    - rewrite (tree_dfs_derived _ _ _ _ _ _ _ _ _ Hn Hk).
      destruct (existsb (Nat.eqb i) all) eqn:E.
      + apply IH; auto; [intros x Hx; apply Hstk; now right|lia].
      + apply existsb_eqb_nIn in E. destruct (Hwf i ci a b Hn Hk) as [Ha Hb].
        assert (Hnd' : NoDup (i :: all)) by now constructor.
        assert (Hall' : forall x, In x (i :: all) -> x < length st) by (intros x [<-|Hx]; auto).
        pose proof (Hlen _ Hnd' Hall') as Hla'. cbn [length] in Hla'.
        apply IH; auto.
        * intros x [<-|[<-|Hx]]; [lia|lia|apply Hstk; now right].
        * cbn [length]. lia.
    - rewrite (tree_dfs_nonderived _ _ _ _ _ _ _ Hn Hk). apply IH.
      + intros x Hx. apply Hstk. now right.
      + now apply NoDup_add_if.
      + intros x. rewrite In_add_if. intros [->|Hx]; auto.
      + destruct (existsb (Nat.eqb i) all); cbn [length]; lia.
  Qed.

  Theorem tree_dfs_fuel_suffices st top : wf_store st -> top < length st ->
    exists all shared, tree_dfs (4 * S (length st) * S (length st)) st [top] [] [] = Some (all, shared).
  Proof.
    intros Hwf Htop. destruct (tree_dfs_total st Hwf (4 * S (length st) * S (length st)) [top] [] [])
      as [[all shared] Hr].
    - intros x [<-|[]]. exact Htop.
    - constructor.
    - intros x [].
    - cbn [length]. nia.
    - eauto.
  Qed.

  Theorem build_derivation_tree_total st top : wf_store st -> top < length st ->
    exists t, build_derivation_tree st top = Some t.
  Proof.
    intros Hwf Htop. unfold build_derivation_tree.
    destruct (tree_dfs_fuel_suffices st top Hwf Htop) as (all & shared & ->).
    apply tree_of_total; [exact Hwf|lia|exact Htop].
  Qed.

  (* ---------------------------------------------------------------- in-degree, stated without the DFS *)

  (* (1) as a number.  On a well-founded store reachability is decidable by descending along the causes (the
     fuel [top] suffices since causes are strictly smaller), the reachable set is a sub-list of [0..top], and the
     in-degree of x is 1 if x is the top id (the edge "from outside") plus the number of occurrences of x among the
     children of the reachable ids (an id whose two causes are both x counts twice) *)
  Fixpoint reachb (fuel : nat) st (u x : nat) : bool :=
    Nat.eqb u x ||
    match fuel with
    | 0 => false
    | S f => existsb (fun c => reachb f st c x) (children st u)
    end.

  Definition reach_list st (top : nat) : list nat := filter (reachb top st top) (seq 0 (S top)).

  Definition indeg st (top x : nat) : nat :=
    (if Nat.eqb x top then 1 else 0) + cnt x (flat_map (children st) (reach_list st top)).

  Lemma reachb_sound st : forall fuel u x, reachb fuel st u x = true -> reachable st u x.
  Proof.
    induction fuel as [|fuel IH]; intros u x H; cbn [reachb] in H; apply orb_prop in H as [H|H].
    - apply Nat.eqb_eq in H. subst. apply reach_top.
    - discriminate.
    - apply Nat.eqb_eq in H. subst. apply reach_top.
    - apply existsb_exists in H as (c & Hc & Hr). eapply reachable_head; eauto.
  Qed.

  Lemma reachb_complete st : wf_store st -> forall fuel u x, u <= fuel -> reachable st u x -> reachb fuel st u x = true.
  Proof.
    intros Hwf. induction fuel as [|fuel IH]; intros u x Hle Hr; cbn [reachb];
      apply reachable_inv_head in Hr as [->|(c & Hc & Hr)].
    - now rewrite Nat.eqb_refl.
    - apply (children_lt _ _ _ Hwf) in Hc. lia.
    - now rewrite Nat.eqb_refl.
    - apply orb_true_iff. right. apply existsb_exists. exists c. split; [exact Hc|].
      apply IH; [|exact Hr]. apply (children_lt _ _ _ Hwf) in Hc. lia.
  Qed.

  Lemma reach_list_spec st top u : wf_store st -> In u (reach_list st top) <-> reachable st top u.
  Proof.
    intros Hwf. unfold reach_list. rewrite filter_In, in_seq. split.
    - intros [_ H]. now apply reachb_sound in H.
    - intros H. pose proof (reachable_le _ _ _ Hwf H). split; [lia|]. now apply reachb_complete.
  Qed.

  Lemma reach_list_NoDup st top : NoDup (reach_list st top).
  Proof. apply NoDup_filter, seq_NoDup. Qed.

  (* the number does not depend on the enumeration of the reachable set *)
  Lemma indeg_enum st top l x : wf_store st -> NoDup l -> (forall u, In u l <-> reachable st top u) ->
    indeg st top x = (if Nat.eqb x top then 1 else 0) + cnt x (flat_map (children st) l).
  Proof.
    intros Hwf Hnd Hl. unfold indeg. f_equal. apply cnt_perm, Permutation_flat_map.
    apply NoDup_Permutation; [apply reach_list_NoDup|exact Hnd|].
    intros u. now rewrite reach_list_spec, Hl.
  Qed.

  (* (2) as a statement about edges, for any store: two different edges into x, among the edge from outside into
     the top id and the left / right cause edges of the reachable derived ids *)
  Inductive edge := EOutside | ELeft (u : nat) | ERight (u : nat).

  Definition edge_into st (top : nat) (e : edge) (x : nat) : Prop :=
    match e with
    | EOutside => x = top
    | ELeft u => reachable st top u /\ exists ci b, nth_error st u = Some ci /\ ikind ci = KDerived x b
    | ERight u => reachable st top u /\ exists ci a, nth_error st u = Some ci /\ ikind ci = KDerived a x
    end.

  Definition multi_path st (top x : nat) : Prop :=
    exists e1 e2, e1 <> e2 /\ edge_into st top e1 x /\ edge_into st top e2 x.

  Definition edges_of st (u : nat) : list (edge * nat) :=
    match nth_error st u with
    | Some ci => match ikind ci with KDerived a b => [(ELeft u, a); (ERight u, b)] | _ => [] end
    | None => []
    end.

  Definition owner (e : edge) : option nat :=
    match e with EOutside => None | ELeft u | ERight u => Some u end.

  Lemma In_edges_of st u e x : In (e, x) (edges_of st u) <->
    (e = ELeft u /\ exists ci b, nth_error st u = Some ci /\ ikind ci = KDerived x b)
    \/ (e = ERight u /\ exists ci a, nth_error st u = Some ci /\ ikind ci = KDerived a x).
  Proof.
    split.
    - unfold edges_of. destruct (nth_error st u) as [ci|] eqn:Hn; [|intros []].
      destruct (ikind ci) as [| | |a b|] eqn:Hk; try (now intros []).
      intros [H|[H|[]]]; injection H as <- <-; [left|right]; split; eauto.
    - intros [(-> & ci & b & Hn & Hk)|(-> & ci & a & Hn & Hk)]; unfold edges_of; rewrite Hn, Hk; cbn [In]; auto.
  Qed.

  Lemma map_snd_edges_of st u : map snd (edges_of st u) = children st u.
  Proof.
    unfold edges_of, children. destruct (nth_error st u) as [ci|]; [|reflexivity].
    destruct (ikind ci); reflexivity.
  Qed.

  Lemma map_snd_edges st l : map snd (flat_map (edges_of st) l) = flat_map (children st) l.
  Proof.
    induction l as [|u l IH]; [reflexivity|]. cbn [flat_map]. now rewrite map_app, map_snd_edges_of, IH.
  Qed.

  Lemma edges_of_fst st u : map fst (edges_of st u) = [] \/ map fst (edges_of st u) = [ELeft u; ERight u].
  Proof.
    unfold edges_of. destruct (nth_error st u) as [ci|]; [|now left]. destruct (ikind ci); auto.
  Qed.

  Lemma edges_owner st l e : In e (map fst (flat_map (edges_of st) l)) -> exists u, owner e = Some u /\ In u l.
  Proof.
    induction l as [|u l IH]; [intros []|]. cbn [flat_map]. rewrite map_app, in_app_iff. intros [H|H].
    - exists u. split; [|now left]. destruct (edges_of_fst st u) as [E|E]; rewrite E in H; [destruct H|].
      destruct H as [<-|[<-|[]]]; reflexivity.
    - destruct (IH H) as (v & Hv & Hin). exists v. split; [exact Hv|now right].
  Qed.

  Lemma NoDup_app_disj {A} (l1 l2 : list A) :
    NoDup l1 -> NoDup l2 -> (forall a, In a l1 -> ~ In a l2) -> NoDup (l1 ++ l2).
  Proof.
    induction 1 as [|a l1 Ha _ IH]; intros H2 Hd; [exact H2|]. cbn [app]. constructor.
    - rewrite in_app_iff. intros [H|H]; [contradiction|]. apply (Hd a); [now left|exact H].
    - apply IH; [exact H2|]. intros b Hb. apply Hd. now right.
  Qed.

  Lemma edges_NoDup st l : NoDup l -> NoDup (map fst (flat_map (edges_of st) l)).
  Proof.
    induction 1 as [|u l Hu _ IH]; [constructor|]. cbn [flat_map]. rewrite map_app. apply NoDup_app_disj.
    - destruct (edges_of_fst st u) as [E|E]; rewrite E; [constructor|].
      constructor; [intros [H|[]]; discriminate|]. constructor; [intros []|constructor].
    - exact IH.
    - intros e H1 H2. apply edges_owner in H2 as (v & Hv & Hin).
      destruct (edges_of_fst st u) as [E|E]; rewrite E in H1; [destruct H1|].
      destruct H1 as [<-|[<-|[]]]; cbn [owner] in Hv; injection Hv as <-; contradiction.
  Qed.

  (* two occurrences of x among the targets of a list of distinctly-named edges = two different edges into x *)
  Lemma cnt_pairs {E} x (L : list (E * nat)) : NoDup (map fst L) ->
    (2 <= cnt x (map snd L) <-> exists e1 e2, e1 <> e2 /\ In (e1, x) L /\ In (e2, x) L).
  Proof.
    assert (Hone : forall L' : list (E * nat), 1 <= cnt x (map snd L') <-> exists e, In (e, x) L').
    { intros L'. rewrite <- cnt_In, in_map_iff. split.
      - intros ([e y] & Hy & Hin). cbn [snd] in Hy. subst y. eauto.
      - intros (e & He). exists (e, x). auto. }
    induction L as [|[e y] L IH]; intros Hnd.
    - cbn [map cnt]. split; [lia|]. intros (e1 & e2 & _ & [] & _).
    - cbn [map fst snd] in Hnd. inversion Hnd as [|? ? Hnot Hnd']. subst. specialize (IH Hnd').
      cbn [map snd cnt]. split.
      + intros H. destruct (Nat.eqb_spec x y) as [<-|Hne].
        * assert (H1 : 1 <= cnt x (map snd L)) by lia. apply Hone in H1 as (e' & He').
          exists e, e'. split; [|split; [now left|now right]].
          intros ->. apply Hnot. apply in_map_iff. exists (e', x). auto.
        * cbn in H. apply IH in H as (e1 & e2 & Hne' & H1 & H2). exists e1, e2. split; [exact Hne'|].
          split; now right.
      + intros (e1 & e2 & Hne & [H1|H1] & [H2|H2]).
        * congruence.
        * injection H1 as <- <-. rewrite Nat.eqb_refl.
          assert (1 <= cnt y (map snd L)) by (apply Hone; eauto). lia.
        * injection H2 as <- <-. rewrite Nat.eqb_refl.
          assert (1 <= cnt y (map snd L)) by (apply Hone; eauto). lia.
        * assert (2 <= cnt x (map snd L)) by (apply IH; eauto 6). lia.
  Qed.

  Lemma multi_path_count st top l x : NoDup l -> (forall u, In u l <-> reachable st top u) ->
    (2 <= (if Nat.eqb x top then 1 else 0) + cnt x (flat_map (children st) l) <-> multi_path st top x).
  Proof.
    intros Hnd Hl. set (L := (EOutside, top) :: flat_map (edges_of st) l).
    assert (HL : NoDup (map fst L)).
    { unfold L. cbn [map fst]. constructor; [|now apply edges_NoDup].
      intros H. apply edges_owner in H as (u & Hu & _). discriminate. }
    assert (Hc : cnt x (map snd L) = (if Nat.eqb x top then 1 else 0) + cnt x (flat_map (children st) l)).
    { unfold L. cbn [map snd cnt]. now rewrite map_snd_edges. }
    assert (Hin : forall e, In (e, x) L <-> edge_into st top e x).
    { intros e. unfold L. cbn [In]. rewrite in_flat_map. split.
      - intros [H|(u & Hu & H)]; [injection H as <- <-; reflexivity|].
        apply Hl in Hu. apply In_edges_of in H as [(-> & H)|(-> & H)]; cbn [edge_into]; auto.
      - destruct e as [|u|u]; cbn [edge_into].
        + intros ->. now left.
        + intros [Hr H]. right. exists u. split; [now apply Hl|]. apply In_edges_of. left. auto.
        + intros [Hr H]. right. exists u. split; [now apply Hl|]. apply In_edges_of. right. auto. }
    rewrite <- Hc, (cnt_pairs x L HL). unfold multi_path. split.
    - intros (e1 & e2 & Hne & H1 & H2). exists e1, e2. split; [exact Hne|]. split; now apply Hin.
    - intros (e1 & e2 & Hne & H1 & H2). exists e1, e2. split; [exact Hne|]. split; now apply Hin.
  Qed.

  Theorem indeg_multi_path st top x : wf_store st -> (2 <= indeg st top x <-> multi_path st top x).
  Proof.
    intros Hwf. unfold indeg. apply multi_path_count; [apply reach_list_NoDup|].
    intros u. now apply reach_list_spec.
  Qed.

  (* T-B *)
  Theorem tree_dfs_shared_multi_path st top fuel all shared :
    tree_dfs fuel st [top] [] [] = Some (all, shared) ->
    (forall x, In x all <-> reachable st top x)
    /\ (forall x, In x shared <->
          (exists a b ci, nth_error st x = Some ci /\ ikind ci = KDerived a b) /\ multi_path st top x)
    /\ NoDup all.
  Proof.
    intros Hd. destruct (dfs_result st top fuel all shared Hd) as (Hnd & Hall & Hsh).
    split; [exact Hall|]. split; [|exact Hnd]. intros x. rewrite Hsh.
    rewrite (multi_path_count st top all x Hnd Hall). reflexivity.
  Qed.

  Theorem tree_dfs_shared_indeg st top fuel all shared :
    wf_store st -> tree_dfs fuel st [top] [] [] = Some (all, shared) ->
    (forall x, In x all <-> reachable st top x)
    /\ (forall x, In x shared <->
          (exists a b ci, nth_error st x = Some ci /\ ikind ci = KDerived a b) /\ 2 <= indeg st top x).
  Proof.
    intros Hwf Hd. destruct (dfs_result st top fuel all shared Hd) as (Hnd & Hall & Hsh).
    split; [exact Hall|]. intros x. rewrite Hsh, (indeg_enum st top all x Hwf Hnd Hall). reflexivity.
  Qed.

  (* T-A + T-B for build_derivation_tree *)
  Theorem build_derivation_tree_shared st top t : wf_store st -> build_derivation_tree st top = Some t ->
    exists shared,
      tree_of (S (length st)) st shared top = Some t
      /\ (forall x, In x shared <->
            (exists a b ci, nth_error st x = Some ci /\ ikind ci = KDerived a b) /\ 2 <= indeg st top x)
      /\ (forall x, In x shared <->
            (exists a b ci, nth_error st x = Some ci /\ ikind ci = KDerived a b) /\ multi_path st top x).
  Proof.
    intros Hwf. unfold build_derivation_tree.
    destruct (tree_dfs _ st [top] [] []) as [[all shared]|] eqn:Hd; [|discriminate]. intros Ht.
    exists shared. split; [exact Ht|]. split.
    - apply (tree_dfs_shared_indeg st top _ all shared Hwf Hd).
    - apply (tree_dfs_shared_multi_path st top _ all shared Hd).
  Qed.

  (* the last sentence of C03 for build_derivation_tree on a well-founded store *)
  Theorem build_derivation_tree_shared_clause st top t : wf_store st -> build_derivation_tree st top = Some t ->
    exists shared,
      tree_of (S (length st)) st shared top = Some t
      (* the shared ids are the derived ids of in-degree >= 2 among the ids reachable from top *)
      /\ (forall x, In x shared <->
            (exists a b ci, nth_error st x = Some ci /\ ikind ci = KDerived a b) /\ 2 <= indeg st top x)
      /\ (forall x, In x shared <->
            (exists a b ci, nth_error st x = Some ci /\ ikind ci = KDerived a b) /\ multi_path st top x)
      (* all occurrences of one id are the same subtree *)
      /\ (forall i ts1 a1 b1 ts2 a2 b2,
            subtree (TDerived ts1 (Some i) a1 b1) t -> subtree (TDerived ts2 (Some i) a2 b2) t ->
            TDerived ts1 (Some i) a1 b1 = TDerived ts2 (Some i) a2 b2)
      (* the sub-terms of t are the trees of the reachable ids *)
      /\ (forall u, subtree u t -> exists f j, reachable st top j /\ tree_of f st shared j = Some u)
      /\ (forall j, reachable st top j -> exists f u, subtree u t /\ tree_of f st shared j = Some u)
      (* a derived node built for id j carries [Some j] exactly when j has in-degree >= 2, and never another id *)
      /\ (forall f j ts o c1 c2, tree_of f st shared j = Some (TDerived ts o c1 c2) ->
            (o = Some j <-> 2 <= indeg st top j) /\ (o = None <-> ~ 2 <= indeg st top j)
            /\ (forall i, o = Some i -> i = j)).
  Proof.
    intros Hwf Hb. destruct (build_derivation_tree_shared st top t Hwf Hb) as (shared & Ht & Hdeg & Hmp).
    destruct (tree_of_labels st shared _ top t Ht) as (Hsub & Hocc & Hlab & _).
    exists shared. split; [exact Ht|]. split; [exact Hdeg|]. split; [exact Hmp|].
    split; [exact (shared_id_same_subtree st shared _ top t Ht)|]. split; [exact Hsub|]. split; [exact Hocc|].
    intros f j ts o c1 c2 H. destruct (Hlab f j ts o c1 c2 H) as (Hder & L1 & L2 & L3).
    assert (Hin : In j shared <-> 2 <= indeg st top j) by (rewrite Hdeg; unfold is_derived in Hder; tauto).
    rewrite <- Hin. auto.
  Qed.

End Shared.

(* ---------------------------------------------------------------- T-C: the trees returned by resolve *)
Section SharedResolve.
  Context {VS Vr : Type} (O : VSOps VS Vr) (L : VSLawful O) (veqb : Vr -> Vr -> bool).
  Context (reg : registry (VS := VS) (Vr := Vr)) (r : pkg) (rv : Vr).
  Hypothesis Hregwf : reg_wf O L reg.
  Hypothesis veqb_eq : forall a b, veqb a b = true -> a = b.

  Lemma store_just_wf_store s : store_just O L reg r rv s -> wf_store s.
  Proof.
    induction 1 as [|s i Hs IH Hj]; intros id ci a b Hn Hk; [destruct id; discriminate|].
    destruct (Nat.lt_ge_cases id (length s)) as [Hlt|Hge].
    - rewrite nth_error_app1 in Hn by assumption. destruct (IH id ci a b Hn Hk). auto.
    - rewrite nth_error_app2 in Hn by assumption.
      destruct (id - length s) as [|k] eqn:Ek; [|destruct k; discriminate].
      injection Hn as <-. assert (id = length s) by lia. subst id.
      destruct Hj as [He|a' b' ia ib p Ha Hb Hp].
      + unfold ext_ok in He. rewrite Hk in He. destruct He.
      + apply prior_cause_kind in Hp. rewrite Hk in Hp. injection Hp as <- <-.
        split; apply nth_error_Some; congruence.
  Qed.

  Theorem nosolution_tree_shared fuel tr t st log k :
    WellBehaved O reg tr -> resolve O veqb fuel r rv tr = (ONoSolution t, st, log, k) ->
    exists top shared,
      terminal_at O r rv st top
      /\ build_derivation_tree (store st) top = Some t
      /\ tree_of (S (length (store st))) (store st) shared top = Some t
      /\ (forall x, In x shared <->
            (exists a b ci, nth_error (store st) x = Some ci /\ ikind ci = KDerived a b)
            /\ 2 <= indeg (store st) top x)
      /\ (forall x, In x shared <->
            (exists a b ci, nth_error (store st) x = Some ci /\ ikind ci = KDerived a b)
            /\ multi_path (store st) top x)
      /\ (forall i ts1 a1 b1 ts2 a2 b2,
            subtree (TDerived ts1 (Some i) a1 b1) t -> subtree (TDerived ts2 (Some i) a2 b2) t ->
            TDerived ts1 (Some i) a1 b1 = TDerived ts2 (Some i) a2 b2)
      /\ (forall u, subtree u t ->
            exists f j, reachable (store st) top j /\ tree_of f (store st) shared j = Some u)
      /\ (forall j, reachable (store st) top j ->
            exists f u, subtree u t /\ tree_of f (store st) shared j = Some u)
      /\ (forall f j ts o c1 c2, tree_of f (store st) shared j = Some (TDerived ts o c1 c2) ->
            (o = Some j <-> 2 <= indeg (store st) top j) /\ (o = None <-> ~ 2 <= indeg (store st) top j)
            /\ (forall i, o = Some i -> i = j)).
  Proof.
    intros Hwb E.
    destruct (resolve_nosolution_tree O L veqb reg r rv Hregwf veqb_eq fuel tr t st log k Hwb E)
      as (Hs & top & Hb & Hterm).
    destruct (build_derivation_tree_shared_clause (store st) top t (store_just_wf_store _ Hs) Hb)
      as (shared & H). exists top, shared. split; [exact Hterm|]. split; [exact Hb|]. exact H.
  Qed.

  (* the stand-alone form of "all occurrences of one id are the same subtree" *)
  Corollary nosolution_tree_same_id_same_subtree fuel tr t st log k :
    WellBehaved O reg tr -> resolve O veqb fuel r rv tr = (ONoSolution t, st, log, k) ->
    forall i ts1 a1 b1 ts2 a2 b2,
      subtree (TDerived ts1 (Some i) a1 b1) t -> subtree (TDerived ts2 (Some i) a2 b2) t ->
      TDerived ts1 (Some i) a1 b1 = TDerived ts2 (Some i) a2 b2.
  Proof.
    intros Hwb E. destruct (nosolution_tree_shared fuel tr t st log k Hwb E)
      as (top & shared & _ & _ & _ & _ & _ & H & _). exact H.
  Qed.

  (* build_derivation_tree cannot fail (PTreeMissing is unreachable) on the store of a run *)
  Corollary store_just_tree_total s top : store_just O L reg r rv s -> top < length s ->
    exists t, build_derivation_tree s top = Some t.
  Proof. intros Hs. apply build_derivation_tree_total, store_just_wf_store, Hs. Qed.

End SharedResolve.
