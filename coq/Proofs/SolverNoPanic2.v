(* C05 (model side), part 2: the state invariant [ninv] of the panic-freedom proof and its preservation by the
   steps of unit propagation; satisfier search, conflict resolution, the scan and unit propagation never
   reach a [Panic] outcome (outside [remaining]) on a state satisfying [ninv]. *)
From Coq Require Import List NArith ZArith Bool Lia PeanoNat.
From PG Require Import Model.VS Model.Term Model.Solver Model.Registry Proofs.VSLaws Proofs.TermProofs
  Proofs.AssocProofs Proofs.SolverSem Proofs.SolverStore Proofs.SolverQueue Proofs.SolverSound1 Proofs.SolverSound2
  Proofs.SolverSound Proofs.SolverReach1 Proofs.SolverReach2 Proofs.SolverNoPanic1.
Import ListNotations.

Section NoPanic2.
  Context {VS Vr : Type} (O : VSOps VS Vr) (L : VSLawful O) (veqb : Vr -> Vr -> bool).
  Context (reg : registry (VS := VS) (Vr := Vr)) (r : pkg) (rv : Vr).
  Hypothesis Hat : singleton_atomic O L.

  Notation tm := (term VS).
  Notation pa := (@pa VS Vr).
  Notation dated := (@dated VS).
  Notation psol := (@psol VS Vr).
  Notation state := (@state VS Vr).
  Notation incompat := (@incompat VS Vr).
  Notation full_ok := (full_ok O L reg r rv).
  Notation st_ok := (st_ok O L reg r rv).
  Notation ext_ok := (ext_ok O L reg r rv).
  Notation inc_ok := (inc_ok O L reg r rv).
  Notation jinv := (jinv O L reg r rv).
  Notation rinv := (rinv O r rv).
  Notation ps_wf := (ps_wf O L).
  Notation pa_wf := (pa_wf O L).
  Notation twf := (twf O L).
  Notation twf_all := (twf_all O L).
  Notation tle := (tle O).
  Notation tleU := (tleU O L).
  Notation sat_nowU := (sat_nowU O L).
  Notation pinv := (pinv O L r rv).
  Notation store_noany := (store_noany O).
  Notation noany := (noany O).
  Notation ps_chain := (ps_chain O).
  Notation pa_chain := (pa_chain O).
  Notation rchainU := (rchainU O L).
  Notation ps_chainU := (ps_chainU O L).
  Notation lookup_before := (lookup_before (Vr := Vr)).
  Local Notation asg st := (assignments (ps st)).

  (* ---------------------------------------------------------------- the invariant *)
  (* (J) over the universe: the other terms of the cause of a derivation were satisfied just before it *)
  Definition justU (sto : list incompat) (m : list (pkg * pa)) (q : pkg) (dd : dated) : Prop :=
    forall I x t tx, nth_error sto (d_cause dd) = Some I -> In (x, t) (terms I) -> x <> q ->
      lookup_before (d_gidx dd) m x = Some tx -> tleU tx t.
  Definition JU (st : state) : Prop :=
    forall q a dd, get q (asg st) = Some a -> In dd (derivs a) -> justU (store st) (asg st) q dd.

  (* before the first decision nothing was backtracked and every incompatibility only mentions the root *)
  Definition zinv (st : state) : Prop :=
    level (ps st) = 0 ->
    backtracked (ps st) = false /\ forall ci, In ci (store st) -> forall x, In x (keys (terms ci)) -> x = r.

  Record ninv (st : state) : Prop := {
    n_J : jinv st;
    n_any : store_noany (store st);
    n_ix : ixinv st;
    n_ixa : forall q a, get q (asg st) = Some a -> indexed (index st) q;
    n_P : pinv (ps st);
    n_JU : JU st;
    n_Z : zinv st;
  }.

  Lemma jinv_cause st q a dd :
    jinv st -> get q (asg st) = Some a -> In dd (derivs a) ->
    exists I ct, nth_error (store st) (d_cause dd) = Some I /\ get q (terms I) = Some ct
      /\ forall x t, In (x, t) (terms I) -> x <> q -> exists tx, lookup_before (d_gidx dd) (asg st) x = Some tx.
  Proof.
    intros [_ _ _ _ H5] Hg Hin. destruct (H5 q a Hg) as [_ P2]. apply in_rev in Hin. apply in_split in Hin.
    destruct Hin as (pre & post & Er). destruct (jr_in O _ _ _ _ P2 _ _ _ Er) as (I & ct & Hn & Hct & _ & Hx).
    exists I, ct. split; [exact Hn|]. split; [exact Hct|]. intros x t Hi Hne. destruct (Hx x t Hi Hne) as (tx & Hb & _). eauto.
  Qed.

  (* ---------------------------------------------------------------- steps *)
  Lemma ninv_cache st c : ninv st -> ninv (upd_cache st c).
  Proof.
    intros [H1 H2 H3 H4 H5 H6 H7]. constructor; try assumption. now apply cache_J.
  Qed.

  Lemma add_derivation_backtracked (p : psol) q cause cts p' :
    add_derivation O p q cause cts = Good p' -> backtracked p' = backtracked p.
  Proof.
    unfold add_derivation, bind, req. destruct (get q cts); [|discriminate].
    destruct (index_of q (assignments p) 0), (get q (assignments p)) as [a|]; try destruct (ai a);
      intros E; try discriminate; injection E as <-; reflexivity.
  Qed.

  Lemma ninv_deriv st q id ci p' c :
    ninv st -> nth_error (store st) id = Some ci -> sat_nowU (ps st) (terms ci) (Some q) ->
    indexed (index st) q -> add_derivation O (ps st) q id (terms ci) = Good p' ->
    ninv (upd_cache (upd_ps st p') c).
  Proof.
    intros Hn Hci Hsat Hix Ed. apply ninv_cache. destruct Hn as [H1 H2 H3 H4 H5 H6 H7].
    pose proof H1 as [[Hok Hw] Hl Hc HK Hpa].
    assert (Wc : twf_all (terms ci)) by exact (store_just_wf O L reg r rv st id ci Hok Hci).
    destruct (add_derivation_get O _ _ _ _ _ Ed) as (ct & a' & Hct & Elv & _ & Hget & Hcase).
    assert (Hkeep : forall g x, g <= next_gidx (ps st) -> lookup_before g (assignments p') x = lookup_before g (asg st) x).
    { intros g x Hg. eapply lookup_before_add_derivation; eauto. }
    constructor; cbn [upd_ps ps store index].
    - exact (deriv_J O L reg r rv st q id ci p' (contradicted st) H1 Hci (sat_nowU_now O L _ _ _ Hw Wc Hsat) Ed).
    - exact H2.
    - exact H3.
    - intros x a Hg. rewrite Hget in Hg. destruct (N.eqb_spec x q) as [->|Hne]; [exact Hix|exact (H4 x a Hg)].
    - eapply pinv_add_derivation; [exact Hl|exact Hc|exact Hw|exact HK|exact Wc|exact H5| |exact Ed].
      intros E0. destruct (H7 E0) as [_ Hk]. apply (Hk ci); [eapply nth_error_In; eauto|].
      apply get_In in Hct. change q with (fst (q, ct)). now apply in_map.
    - (* old derivations keep their justification; the new one is justified by [ci] *)
      assert (Hold : forall x a dd, get x (asg st) = Some a -> In dd (derivs a) -> justU (store st) (assignments p') x dd).
      { intros x a dd Hg Hin I y t tx HnI HinI Hne Hlb. rewrite Hkeep in Hlb.
        - exact (H6 x a dd Hg Hin I y t tx HnI HinI Hne Hlb).
        - pose proof (jinv_evt_lt O L reg r rv st x a dd H1 Hg Hin). lia. }
      assert (Hnew : forall acc, justU (store st) (assignments p') q
                                   {| d_gidx := next_gidx (ps st); d_level := level (ps st); d_cause := id; d_accum := acc |}).
      { intros acc I y t tx HnI HinI Hne Hlb. cbn [d_cause d_gidx] in *. rewrite Hci in HnI. injection HnI as <-.
        rewrite Hkeep in Hlb by lia. rewrite (lookup_before_cur O) in Hlb by assumption.
        destruct (Hsat y t HinI ltac:(congruence)) as (tx0 & Htx0 & Hle). rewrite Hlb in Htx0. injection Htx0 as <-. exact Hle. }
      intros x a dd Hg Hin. rewrite Hget in Hg. destruct (N.eqb_spec x q) as [->|Hne]; [|exact (Hold x a dd Hg Hin)].
      injection Hg as <-. destruct Hcase as [(a0 & t & Hg0 & _ & -> & _)|(_ & -> & _)].
      + unfold deriv_upd in Hin. cbn [derivs] in Hin. apply in_app_or in Hin. destruct Hin as [Hin|[<-|[]]].
        * exact (Hold q a0 dd Hg0 Hin).
        * apply Hnew.
      + unfold deriv_new in Hin. cbn [derivs] in Hin. destruct Hin as [<-|[]]. apply Hnew.
    - intros E0. cbn [upd_ps ps] in E0. rewrite Elv in E0. destruct (H7 E0) as [Hb Hk]. split; [|exact Hk].
      cbn [upd_ps ps]. now rewrite (add_derivation_backtracked _ _ _ _ _ Ed).
  Qed.

  Lemma backtrack_pa_derivs Lv (a a' : pa) dd : backtrack_pa Lv a = Good (Some a') -> In dd (derivs a') -> In dd (derivs a).
  Proof.
    intros Hb Hin. pose proof (backtrack_pa_cases Lv a (Some a') Hb) as (_ & [[-> _]|(_ & pre & dl & rest & Er & _ & _ & Er' & _)]);
      [exact Hin|].
    apply in_rev. rewrite Er. apply in_or_app. right. rewrite <- Er'. now apply in_rev in Hin.
  Qed.

  Lemma ninv_backtrack st Lv p' c :
    ninv st -> 1 <= Lv -> Lv <= level (ps st) -> ps_backtrack (ps st) Lv = Good p' ->
    ninv {| root := root st; rootv := rootv st; index := index st; contradicted := c;
            merged := merged st; ps := p'; store := store st |}.
  Proof.
    intros [H1 H2 H3 H4 H5 H6 H7] H1L HL Ep. pose proof H1 as [_ Hl _ HK _].
    pose proof (backtrack_J O L veqb reg r rv st Lv p' c H1 HL Ep) as HJ'.
    destruct (ps_backtrack_asg _ _ _ Ep) as (Elv & _ & _).
    constructor; cbn [ps store index].
    - exact HJ'.
    - exact H2.
    - exact H3.
    - intros x a' Hg'. destruct (ps_backtrack_get_some _ _ _ Hl Ep x a' Hg') as (a & Hg & _). exact (H4 x a Hg).
    - exact (pinv_backtrack O L r rv _ _ _ Hl H5 Ep).
    - intros x a' dd Hg' Hin I y t tx HnI HinI Hne Hlb.
      destruct (ps_backtrack_get_some _ _ _ Hl Ep x a' Hg') as (a & Hg & Hb).
      pose proof (backtrack_pa_derivs Lv a a' dd Hb Hin) as Hin0.
      assert (Hdl : d_level dd <= Lv).
      { pose proof (j_lay _ _ _ _ _ _ HJ') as Hl'. cbn [ps] in Hl'.
        destruct (layout_get_ok _ _ _ Hl' Hg') as (_ & K2 & _ & K4). rewrite Forall_forall in K4. specialize (K4 _ Hin).
        cbn in K4. rewrite Elv in K2. lia. }
      assert (Hev : evt a (d_gidx dd) (d_level dd)) by (left; eauto).
      rewrite (lookup_before_backtrack _ _ _ Hl Ep) in Hlb.
      + exact (H6 x a dd Hg Hin0 I y t tx HnI HinI Hne Hlb).
      + intros z b g' l' Hz Hzb Hlt.
        pose proof (proj2 HK z b g' l' x a (d_gidx dd) (d_level dd) Hz Hzb Hg Hev ltac:(lia)). lia.
    - intros E0. cbn [ps] in E0. lia.
  Qed.

  Lemma ninv_store st st' :
    ninv st -> ps st' = ps st -> (exists extra, store st' = store st ++ extra) -> full_ok st' ->
    store_noany (store st') -> ixinv st' -> (forall x, indexed (index st) x -> indexed (index st') x) -> zinv st' ->
    ninv st'.
  Proof.
    intros [H1 H2 H3 H4 H5 H6 H7] Eps (extra & Est) Hok Hna Hix Hmono Hz. constructor; rewrite ?Eps; try assumption.
    - eapply store_J; [exact H1|exact Eps|eauto|exact Hok].
    - intros q a Hg. apply Hmono. exact (H4 q a Hg).
    - intros q a dd Hg Hin I y t tx HnI HinI Hne Hlb. rewrite Eps in Hg, Hlb.
      destruct (jinv_cause st q a dd H1 Hg Hin) as (I0 & ct & Hn0 & _).
      rewrite Est, (nth_error_app_old _ extra _ _ Hn0) in HnI. injection HnI as <-.
      exact (H6 q a dd Hg Hin I0 y t tx Hn0 HinI Hne Hlb).
  Qed.

  Lemma add_decision_level (p : psol) q v p' : add_decision O p q v = Good p' -> level p' = S (level p).
  Proof.
    unfold add_decision. destruct (index_of q (assignments p) 0); [|discriminate].
    destruct (get q (assignments p)) as [a|]; [|discriminate]. destruct (ai a); [discriminate|].
    destruct (negb _); [discriminate|]. destruct (negb _); [discriminate|]. intros E. injection E as <-. reflexivity.
  Qed.

  Lemma ninv_decide st q v p' s :
    ninv st -> term_for (ps st) q = Some (Pos s) -> get q (queue (ps st)) = None ->
    (level (ps st) = 0 -> q = r -> v = rv) -> add_decision O (ps st) q v = Good p' -> ninv (upd_ps st p').
  Proof.
    intros [H1 H2 H3 H4 H5 H6 H7] Hpos Hqn Hrv Ed. pose proof H1 as [_ Hl _ HK _].
    destruct (add_decision_get O _ _ _ _ Hl Ed) as (a0 & t & Hg0 & Ea0 & _ & Elv & _ & Hget).
    assert (Hkeep : forall g x, g <= next_gidx (ps st) -> lookup_before g (assignments p') x = lookup_before g (asg st) x).
    { intros g x Hg. eapply lookup_before_add_decision; eauto. }
    constructor; cbn [upd_ps ps store index].
    - eapply decide_J; eauto.
    - exact H2.
    - exact H3.
    - intros x a Hg. rewrite Hget in Hg. destruct (N.eqb_spec x q) as [->|Hne]; [exact (H4 q a0 Hg0)|exact (H4 x a Hg)].
    - eapply pinv_add_decision; eauto.
    - assert (Hold : forall x a dd, get x (asg st) = Some a -> In dd (derivs a) -> justU (store st) (assignments p') x dd).
      { intros x a dd Hg Hin I y t0 tx HnI HinI Hne Hlb. rewrite Hkeep in Hlb.
        - exact (H6 x a dd Hg Hin I y t0 tx HnI HinI Hne Hlb).
        - pose proof (jinv_evt_lt O L reg r rv st x a dd H1 Hg Hin). lia. }
      intros x a dd Hg Hin. rewrite Hget in Hg. destruct (N.eqb_spec x q) as [->|Hne]; [|exact (Hold x a dd Hg Hin)].
      injection Hg as <-. cbn [decide_upd derivs] in Hin. exact (Hold q a0 dd Hg0 Hin).
    - intros E0. cbn [upd_ps ps] in E0. rewrite Elv in E0. discriminate.
  Qed.

  Lemma ninv_queue st p' :
    ninv st -> next_gidx p' = next_gidx (ps st) -> level p' = level (ps st) -> assignments p' = asg st ->
    backtracked p' = backtracked (ps st) -> qpos (asg st) (queue p') -> ninv (upd_ps st p').
  Proof.
    intros [H1 H2 H3 H4 H5 H6 H7] Eg El Ea Eb Hq. constructor; cbn [upd_ps ps store index]; rewrite ?Ea; try assumption.
    - now apply queue_J.
    - eapply pinv_queue; eauto.
    - unfold JU. cbn [upd_ps ps store]. rewrite Ea. exact H6.
    - intros E0. cbn [upd_ps ps] in E0 |- *. rewrite El in E0. rewrite Eb. exact (H7 E0).
  Qed.

  (* ---- the root keeps a term below [exact rv] ---- *)
  Lemma rinv_asg st st' : asg st' = asg st -> rinv st -> rinv st'.
  Proof. intros E (t0 & H1 & H2). exists t0. now rewrite E. Qed.

  Lemma rinv_deriv st q id ci p' c :
    jinv st -> nth_error (store st) id = Some ci -> add_derivation O (ps st) q id (terms ci) = Good p' ->
    rinv st -> rinv (upd_cache (upd_ps st p') c).
  Proof.
    intros [[Hok Hw] Hl Hc _ _] Hci Ed. apply (rinv_refines O r rv st _ 0). cbn [upd_cache upd_ps ps].
    eapply add_derivation_refines; [exact Hl|exact Hc|exact Hw| |exact Ed].
    exact (store_just_wf O L reg r rv st id ci Hok Hci).
  Qed.

  Lemma rinv_backtrack st Lv p' c :
    jinv st -> ps_backtrack (ps st) Lv = Good p' -> rinv st ->
    rinv {| root := root st; rootv := rootv st; index := index st; contradicted := c;
            merged := merged st; ps := p'; store := store st |}.
  Proof.
    intros [_ Hl _ _ _] Ep. apply (rinv_refines O r rv st _ 0). cbn [ps].
    eapply refines_weaken; [|exact (ps_backtrack_refines O _ _ _ Hl Ep)]. lia.
  Qed.

  Lemma rinv_decide st q v p' : jinv st -> add_decision O (ps st) q v = Good p' -> rinv st -> rinv (upd_ps st p').
  Proof.
    intros [_ Hl _ _ _] Ed. apply (rinv_refines O r rv st _ 0). cbn [upd_ps ps].
    eapply refines_weaken; [|exact (add_decision_refines O _ _ _ _ Hl Ed)]. lia.
  Qed.

  (* ---------------------------------------------------------------- satisfier search *)
  Ltac bad_ok := unfold Bad, remaining; cbn [In]; tauto.

  Lemma first_disjoint_none (ds : list dated) start :
    first_disjoint O ds start = None -> forall dd, In dd ds -> t_is_disjoint O (d_accum dd) start = false.
  Proof.
    induction ds as [|d ds IH]; cbn [first_disjoint]; [intros _ dd []|].
    destruct (t_is_disjoint O (d_accum d) start) eqn:Ed; [discriminate|]. intros E dd [<-|Hin]; [exact Ed|now apply IH].
  Qed.

  Lemma satisfier_nopanic (a : pa) start :
    (decided a = false -> exists dd, In dd (derivs a) /\ t_is_disjoint O (d_accum dd) start = true) ->
    exists s, satisfier O a start = Good s.
  Proof.
    intros H. unfold satisfier. destruct (first_disjoint O (derivs a) start) as [dd|] eqn:E; [eexists; reflexivity|].
    unfold decided in H. destruct (ai a) as [g v t|t]; [eexists; reflexivity|].
    destruct (H eq_refl) as (dd & Hin & Hd). rewrite (first_disjoint_none _ _ E dd Hin) in Hd. discriminate.
  Qed.

  Lemma find_satisfier_nopanic (asg0 : list (pkg * pa)) (ts : list (pkg * tm)) :
    (forall x t, In (x, t) ts -> exists a s, get x asg0 = Some a /\ satisfier O a (t_negate t) = Good s) ->
    exists m, find_satisfier O ts asg0 = Good m.
  Proof.
    induction ts as [|[x t] ts IH]; intros H; cbn [find_satisfier]; [eexists; reflexivity|].
    destruct (H x t (or_introl eq_refl)) as (a & s & Hg & Hs). rewrite Hg. cbn [req bind]. rewrite Hs. cbn [bind].
    destruct IH as (m & Em); [intros y u Hin; apply H; now right|]. rewrite Em. cbn [bind]. eexists; reflexivity.
  Qed.

  Lemma find_satisfier_keys (asg0 : list (pkg * pa)) (ts : list (pkg * tm)) : forall m,
    find_satisfier O ts asg0 = Good m -> keys m = keys ts.
  Proof.
    induction ts as [|[x t] ts IH]; intros m; cbn [find_satisfier].
    - intros E. injection E as <-. reflexivity.
    - unfold bind, req. destruct (get x asg0) as [a|]; [|discriminate].
      destruct (satisfier O a (t_negate t)) as [s|]; [|discriminate].
      destruct (find_satisfier O ts asg0) as [rest|]; [|discriminate].
      intros E. injection E as <-. cbn. f_equal. now apply IH.
  Qed.

  Lemma max_by_gidx_some (m : list sat_entry) : m <> [] -> exists e, max_by_gidx m = Some e.
  Proof.
    unfold max_by_gidx.
    assert (H : forall (l : list sat_entry) b, exists e,
              fold_left (fun acc e => match acc with
                 | None => Some e
                 | Some b => if Nat.leb (snd (fst (snd b))) (snd (fst (snd e))) then Some e else Some b end) l (Some b) = Some e).
    { induction l as [|x l IH]; intros b; cbn [fold_left]; [eauto|]. destruct (Nat.leb _ _); apply IH. }
    destruct m as [|x m]; [congruence|]. intros _. cbn [fold_left]. apply H.
  Qed.

  Lemma set_nonempty {A} (k : pkg) (v : A) (m : list (pkg * A)) : set k v m <> [].
  Proof. destruct m as [|[y b] m]; cbn [set]; [discriminate|]. destruct (N.eqb k y); discriminate. Qed.

  Lemma set_in_inv_nodup {A} (k : pkg) (v : A) (m : list (pkg * A)) e :
    NoDup (keys m) -> In e (set k v m) -> e = (k, v) \/ (In e m /\ fst e <> k).
  Proof.
    induction m as [|[y b] m IH]; cbn [set]; intros Hnd; [intros [<-|[]]; now left|].
    inversion Hnd as [|? ? Hny Hnd']; subst. destruct (N.eqb_spec k y) as [->|Hne].
    - intros [<-|Hin]; [now left|]. right. split; [now right|]. intros E. apply Hny. rewrite <- E. now apply in_map.
    - intros [<-|Hin]; [right; split; [now left|cbn; congruence]|]. destruct (IH Hnd' Hin) as [->|[H1 H2]]; [now left|].
      right. split; [now right|exact H2].
  Qed.

  Lemma undecided_last (a : pa) :
    pa_chain a -> decided a = false -> exists dl, In dl (derivs a) /\ ai_term (ai a) = d_accum dl.
  Proof.
    intros [_ Hs] Hu. unfold decided in Hu. destruct (rev (derivs a)) as [|dl rest] eqn:Er; [destruct Hs|].
    destruct (ai a) as [|t]; [discriminate|]. destruct Hs as [-> _]. exists dl. split; [|reflexivity].
    apply in_rev. rewrite Er. now left.
  Qed.

  Lemma satisfier_search_key (p : psol) (ts : list (pkg * tm)) sto sp x :
    satisfier_search O ts p sto = Good (sp, x) -> get sp ts <> None.
  Proof.
    unfold satisfier_search, bind, req.
    destruct (find_satisfier O ts (assignments p)) as [m|] eqn:Em; [|discriminate].
    destruct (max_by_gidx m) as [[sp0 [[sc sg] sl]]|] eqn:Et; [|discriminate].
    destruct (get sp0 (assignments p)) as [spa|] eqn:Espa; [|discriminate].
    destruct (match sc with Some _ => _ | None => _ end) as [accum|]; [|discriminate].
    destruct (get sp0 ts) as [it|] eqn:Eit; [|discriminate].
    destruct (satisfier O spa _) as [s2|] eqn:Es2; [|discriminate].
    destruct (max_by_gidx (set sp0 s2 m)) as [top2|] eqn:Et2; [|discriminate].
    destruct (Nat.leb sl (Nat.max (snd (snd top2)) 1)); [destruct sc; [|discriminate]|];
      intros E; injection E as <- _; congruence.
  Qed.

  (* the satisfier lies strictly above the level conflict resolution backtracks to *)
  Lemma satisfier_search_diff_evt (p : psol) (ts : list (pkg * tm)) sto sp Lv :
    satisfier_search O ts p sto = Good (sp, SDifferent Lv) ->
    exists a g l, get sp (assignments p) = Some a /\ evt a g l /\ Lv < l.
  Proof.
    unfold satisfier_search, bind, req.
    destruct (find_satisfier O ts (assignments p)) as [m|] eqn:Em; [|discriminate].
    destruct (max_by_gidx m) as [[sp0 [[sc sg] sl]]|] eqn:Et; [|discriminate].
    destruct (get sp0 (assignments p)) as [spa|] eqn:Espa; [|discriminate].
    destruct (match sc with Some _ => _ | None => _ end) as [accum|]; [|discriminate].
    destruct (get sp0 ts) as [it|] eqn:Eit; [|discriminate].
    destruct (satisfier O spa _) as [s2|] eqn:Es2; [|discriminate].
    destruct (max_by_gidx (set sp0 s2 m)) as [top2|] eqn:Et2; [|discriminate].
    destruct (Nat.leb_spec sl (Nat.max (snd (snd top2)) 1)) as [|Hlt]; [destruct sc; discriminate|].
    intros E. injection E as <- <-.
    destruct (find_satisfier_in O _ _ _ Em) as [_ F2].
    destruct (F2 _ _ (max_by_gidx_in _ _ Et)) as (t & a & _ & Ha & Hs).
    exists a, sg, sl. split; [exact Ha|]. split; [exact (satisfier_evt O _ _ _ _ _ Hs)|exact Hlt].
  Qed.

  Lemma backtrack_pa_keepU Lv lvl (a : pa) dd oa :
    pa_ok lvl a -> pa_chain a -> pa_wf a -> rchainU (rev (derivs a)) -> In dd (derivs a) -> d_level dd <= Lv ->
    backtrack_pa Lv a = Good oa -> exists a', oa = Some a' /\ tleU (ai_term (ai a')) (d_accum dd).
  Proof.
    intros (_ & _ & Hm & _) Hch Hw Hc Hin Hle Hb. pose proof (backtrack_pa_cases Lv a oa Hb) as Hcs. destruct oa as [a'|].
    - exists a'. split; [reflexivity|]. destruct Hcs as (_ & [[-> _]|(_ & pre & dl & rest & Er & Hpre & _ & Er' & Ea')]).
      + now apply (cur_tleU O L Hat).
      + rewrite Ea'. cbn [ai_term]. apply in_rev in Hin. rewrite Er in Hin. apply in_app_or in Hin. destruct Hin as [Hin|Hin].
        * rewrite Forall_forall in Hpre. specialize (Hpre _ Hin). lia.
        * rewrite Er in Hc. apply rchainU_suffix in Hc. exact (rchainU_head_le O L dl rest dd Hc Hin).
    - exfalso. pose proof (mono_ge _ _ (smallest a) Hm (le_n _)) as Hge. rewrite Forall_forall in Hge. specialize (Hge _ Hin). lia.
  Qed.

  Lemma backtrack_pa_keep_decided Lv lvl (a : pa) oa :
    pa_ok lvl a -> highest a <= Lv -> backtrack_pa Lv a = Good oa -> oa = Some a.
  Proof.
    intros (Hs & _) Hh. unfold backtrack_pa. destruct (Nat.ltb_spec Lv (smallest a)); [lia|].
    destruct (Nat.leb_spec (highest a) Lv); [|lia]. intros E. now injection E as <-.
  Qed.

  (* satisfier-search correctness over the universe: after the backtrack every other term is still satisfied *)
  Lemma satisfier_search_differentU (p : psol) (ts : list (pkg * tm)) sto sp Lv p' :
    layout p -> ps_chain (assignments p) -> ps_wf p -> kinv p -> ps_chainU (assignments p) -> twf_all ts ->
    sat_nowU p ts None ->
    satisfier_search O ts p sto = Good (sp, SDifferent Lv) -> ps_backtrack p Lv = Good p' ->
    sat_nowU p' ts (Some sp).
  Proof.
    intros Hl Hc Hw [_ K2] Hu Wt Hsat Es Ep.
    destruct (satisfier_search_level _ _ _ _ _ _ Hl Es) as [_ HLv].
    revert Es. unfold satisfier_search, bind, req.
    destruct (find_satisfier O ts (assignments p)) as [m|] eqn:Em; [|discriminate].
    destruct (max_by_gidx m) as [[sp0 [[sc sg] sl]]|] eqn:Et; [|discriminate].
    destruct (get sp0 (assignments p)) as [spa|] eqn:Espa; [|discriminate].
    destruct (match sc with Some _ => _ | None => _ end) as [accum|]; [|discriminate].
    destruct (get sp0 ts) as [it|]; [|discriminate].
    destruct (satisfier O spa _) as [s2|] eqn:Es2; [|discriminate].
    destruct (max_by_gidx (set sp0 s2 m)) as [top2|] eqn:Et2; [|discriminate].
    destruct (Nat.leb sl (Nat.max (snd (snd top2)) 1)); [destruct sc; discriminate|].
    intros E. injection E as <- <-.
    destruct (find_satisfier_in O _ _ _ Em) as [F1 F2].
    assert (Htop2 : exists y b, get y (assignments p) = Some b /\ evt b (egidx top2) (snd (snd top2))).
    { pose proof (max_by_gidx_in _ _ Et2) as Hin. apply set_in_inv in Hin. destruct Hin as [->|Hin].
      - exists sp0, spa. split; [exact Espa|]. destruct s2 as [[c2 g2] l2]. cbn. eapply satisfier_evt; eauto.
      - destruct top2 as [y [[c2 g2] l2]]. destruct (F2 _ _ Hin) as (t & b & _ & Hb & Hs). exists y, b. split; [exact Hb|].
        cbn. eapply satisfier_evt; eauto. }
    destruct Htop2 as (y2 & b2 & Hy2 & He2).
    intros x t Hin Hne. assert (Hx : x <> sp0) by congruence.
    destruct (F1 x t Hin) as (a & [[c g] l] & Hga & Hs & Hm).
    assert (Hl2 : l <= Nat.max (snd (snd top2)) 1).
    { pose proof (max_by_gidx_max _ _ Et2 _ (set_in_other sp0 x s2 _ m Hm Hx)) as Hg. unfold egidx at 1 in Hg. cbn in Hg.
      pose proof (K2 x a g l y2 b2 _ _ Hga (satisfier_evt O _ _ _ _ _ Hs) Hy2 He2 Hg). lia. }
    destruct (ps_backtrack_get _ _ _ Hl Ep x) as (oa & Hoa & Hb). rewrite Hga in Hb.
    pose proof (ps_chain_get O _ _ _ Hc Hga) as Hch. pose proof (ps_wf_get O L _ _ _ Hw Hga) as Hwa.
    pose proof (layout_get_ok _ _ _ Hl Hga) as Hpok.
    pose proof (satisfier_spec O _ _ _ _ _ Hs) as [(dd & Hdin & _ & _ & -> & Hdis)|(_ & v & t0 & Ea & ->)].
    - destruct (backtrack_pa_keepU _ _ a dd oa Hpok Hch Hwa (Hu x a Hga) Hdin Hl2 Hb) as (a' & -> & Hle').
      exists (ai_term (ai a')). split; [unfold term_for; rewrite Hoa; reflexivity|].
      eapply tleU_trans; [exact Hle'|]. apply (disjoint_neg_tleU O L); [|exact (twf_all_in O L _ _ _ Wt Hin)|exact Hdis].
      destruct Hwa as [_ Wd]. rewrite Forall_forall in Wd. exact (Wd _ Hdin).
    - rewrite (backtrack_pa_keep_decided _ _ a oa Hpok Hl2 Hb) in Hoa.
      destruct (Hsat x t Hin ltac:(discriminate)) as (tx & Htx & Hle). exists tx. split; [|exact Hle].
      unfold term_for in *. rewrite Hoa. rewrite Hga in Htx. exact Htx.
  Qed.

  Section Search.
    Variables (st : state) (ci : incompat) (cur : nat).
    Hypothesis Hn : ninv st.
    Hypothesis Hci : nth_error (store st) cur = Some ci.
    Hypothesis Hsat : sat_nowU (ps st) (terms ci) None.
    Hypothesis Hterm : is_terminal O ci r rv = false.

    Lemma single_root (ts : list (pkg * tm)) it :
      NoDup (keys ts) -> (forall x t, In (x, t) ts -> x = r) -> In (r, it) ts -> ts = [(r, it)].
    Proof.
      intros Hnd Hall Hin. destruct ts as [|[x1 t1] [|[x2 t2] rest]]; [destruct Hin| |].
      - destruct Hin as [E|[]]. now rewrite E.
      - exfalso. pose proof (Hall x1 t1 (or_introl eq_refl)) as E1. pose proof (Hall x2 t2 (or_intror (or_introl eq_refl))) as E2.
        subst x1 x2. inversion Hnd as [|? ? Hni _]. apply Hni. now left.
    Qed.

    (* the satisfier is a decision and the previous satisfier is not below it: only possible for the root decided
       at level 1 with no other package in the incompatibility, which is then terminal *)
    Lemma cause_none_absurd m sp sg sl (spa : pa) it v t s2 top2 :
      find_satisfier O (terms ci) (asg st) = Good m -> max_by_gidx m = Some (sp, (None, sg, sl)) ->
      In (sp, it) (terms ci) -> get sp (asg st) = Some spa -> ai spa = ADecision sg v t -> sl = highest spa ->
      satisfier O spa (t_intersection O t (t_negate it)) = Good s2 ->
      max_by_gidx (set sp s2 m) = Some top2 -> Nat.leb sl (Nat.max (snd (snd top2)) 1) = true -> False.
    Proof.
      intros Em Et Hit Hspa Ea Esl Es2 Et2 Elb.
      pose proof Hn as [H1 H2 H3 H4 H5 H6 H7]. pose proof H1 as [[Hok Hw] Hl Hc HK Hpa].
      pose proof (store_just_nth O L reg r rv _ (proj1 Hok) _ _ Hci) as (Nd & Wt & _).
      destruct (find_satisfier_in O _ _ _ Em) as [F1 F2].
      pose proof (ps_chain_get O _ _ _ Hc Hspa) as Hch. pose proof (ps_wf_get O L _ _ _ Hw Hspa) as Hwa.
      assert (Wit : twf it) by exact (twf_all_in O L _ _ _ Wt Hit).
      (* the decision term is [exact v] and satisfies [it] *)
      assert (Et' : t = t_exact O v).
      { destruct Hch as [_ Hs]. destruct (rev (derivs spa)); [destruct Hs|]. rewrite Ea in Hs. exact (proj1 Hs). }
      subst t.
      assert (Hcv : t_contains O it v = true).
      { destruct (Hsat sp it Hit ltac:(discriminate)) as (tx & Htx & Hle). unfold term_for in Htx. rewrite Hspa in Htx.
        cbn in Htx. rewrite Ea in Htx. cbn in Htx. injection Htx as <-. exact (tleU_exact_contains O L Hat v it Wit Hle). }
      (* the second search returns the first derivation of the package *)
      pose proof (pi_first _ _ _ _ _ H5 sp spa Hspa) as Hf. unfold pa_first in Hf.
      destruct (derivs spa) as [|d1 rest] eqn:Edr; [destruct Hf|].
      assert (Hd1 : In d1 (derivs spa)) by (rewrite Edr; now left).
      assert (Es2' : s2 = (Some (d_cause d1), d_gidx d1, d_level d1)).
      { unfold satisfier in Es2. rewrite Edr in Es2. cbn [first_disjoint] in Es2.
        rewrite (disjoint_of_empty O L) in Es2.
        - now injection Es2 as <-.
        - destruct Hwa as [_ Wd]. rewrite Forall_forall in Wd. exact (Wd _ Hd1).
        - apply (twf_intersection O L); [apply twf_exact|now apply twf_negate].
        - exact (exact_inter_neg_empty O L Hat v it Wit Hcv). }
      assert (Hg1 : d_gidx d1 < sg) by exact (proj1 (proj2 (proj1 (Hpa sp spa Hspa)) sg v _ Ea) d1 Hd1).
      (* everything assigned at or before the decision lies below its level *)
      pose proof (pi_kdec _ _ _ _ _ H5 sp spa sg v _ Hspa Ea) as KD.
      assert (Hbelow : forall y c g l, In (y, (c, g, l)) m -> y <> sp -> l < highest spa).
      { intros y c g l Hin Hne. destruct (F2 _ _ Hin) as (t' & b & _ & Hb & Hs).
        pose proof (max_by_gidx_max _ _ Et _ Hin) as Hg. unfold egidx in Hg. cbn in Hg.
        destruct (KD y b g l Hb (satisfier_evt O _ _ _ _ _ Hs) Hg) as [Hlt|[E _]]; [exact Hlt|congruence]. }
      assert (Hnd : NoDup (keys m)) by (rewrite (find_satisfier_keys _ _ _ Em); exact Nd).
      assert (Htop2 : snd (snd top2) < highest spa).
      { pose proof (max_by_gidx_in _ _ Et2) as Hin. apply (set_in_inv_nodup _ _ _ _ Hnd) in Hin.
        destruct Hin as [->|[Hin Hne]].
        - rewrite Es2'. cbn [snd].
          destruct (KD sp spa (d_gidx d1) (d_level d1) Hspa) as [Hlt|[_ E]]; [left; eauto|lia|exact Hlt|lia].
        - destruct top2 as [y [[c g] l]]. cbn [fst snd] in *. exact (Hbelow y c g l Hin Hne). }
      apply Nat.leb_le in Elb.
      assert (Eh : highest spa = 1) by lia.
      destruct (pi_dec1 _ _ _ _ _ H5 sp spa sg v _ Hspa Ea Eh) as [-> ->].
      (* no other package occurs in the incompatibility *)
      assert (Hall : forall x t, In (x, t) (terms ci) -> x = r).
      { intros x t Hin. destruct (N.eq_dec x r) as [E|Hne]; [exact E|]. exfalso.
        destruct (F1 x t Hin) as (a & [[c g] l] & Hga & Hs & Hm).
        pose proof (Hbelow x c g l Hm Hne) as Hlt.
        apply Hne. apply (pi_lev0 _ _ _ _ _ H5 x a g Hga). replace 0 with l by lia. exact (satisfier_evt O _ _ _ _ _ Hs). }
      pose proof (single_root _ it Nd Hall Hit) as Ets.
      unfold is_terminal in Hterm. rewrite Ets, N.eqb_refl, Hcv in Hterm. discriminate.
    Qed.

    Lemma satisfier_search_nopanic : okres (satisfier_search O (terms ci) (ps st) (store st)) (fun _ => True).
    Proof.
      pose proof Hn as [H1 H2 H3 H4 H5 H6 H7]. pose proof H1 as [[Hok Hw] Hl Hc HK Hpa].
      pose proof (store_just_nth O L reg r rv _ (proj1 Hok) _ _ Hci) as (Nd & Wt & _).
      (* every term has a satisfier *)
      assert (Hs1 : forall x t, In (x, t) (terms ci) ->
                exists a s, get x (asg st) = Some a /\ satisfier O a (t_negate t) = Good s).
      { intros x t Hin. destruct (Hsat x t Hin ltac:(discriminate)) as (tx & Htx & Hle). unfold term_for in Htx.
        destruct (get x (asg st)) as [a|] eqn:Eg; [|discriminate]. cbn in Htx. injection Htx as <-. exists a.
        destruct (satisfier_nopanic a (t_negate t)) as (s & Es); [|eauto].
        intros Hu. destruct (undecided_last a (ps_chain_get O _ _ _ Hc Eg) Hu) as (dl & Hdl & Edl). exists dl. split; [exact Hdl|].
        apply (disjoint_neg_tleU O L); [|exact (twf_all_in O L _ _ _ Wt Hin)|rewrite <- Edl; exact Hle].
        destruct (ps_wf_get O L _ _ _ Hw Eg) as [_ Wd]. rewrite Forall_forall in Wd. exact (Wd _ Hdl). }
      destruct (find_satisfier_nopanic _ _ Hs1) as (m & Em).
      unfold satisfier_search. rewrite Em. cbn [bind].
      destruct (find_satisfier_in O _ _ _ Em) as [F1 F2].
      assert (Hm : m <> []).
      { destruct (terms ci) as [|[x0 t0] ts0] eqn:Ets; [unfold is_terminal in Hterm; rewrite Ets in Hterm; discriminate|].
        destruct (F1 x0 t0 (or_introl eq_refl)) as (a & s & _ & _ & Hin). intros ->. destruct Hin. }
      destruct (max_by_gidx_some m Hm) as ([sp [[sc sg] sl]] & Et). rewrite Et. cbn [req bind]. cbv beta iota zeta.
      destruct (F2 _ _ (max_by_gidx_in _ _ Et)) as (it & spa & Hit & Hspa & Hss).
      rewrite Hspa. cbn [req bind].
      pose proof (ps_chain_get O _ _ _ Hc Hspa) as Hch. pose proof (ps_wf_get O L _ _ _ Hw Hspa) as Hwa.
      set (acc := match sc with Some c => _ | None => _ end).
      assert (Hacc : exists accum, acc = Good accum /\ twf accum
                      /\ (sc = None -> exists v, ai spa = ADecision sg v accum /\ sl = highest spa)).
      { unfold acc. pose proof (satisfier_spec O _ _ _ _ _ Hss) as [(dd & Hdd & -> & _)|(-> & v & t & Ea & Esl)].
        - destruct (jinv_cause st sp spa dd H1 Hspa Hdd) as (I & ct & HnI & Hct & _). rewrite HnI. cbn [req bind]. rewrite Hct. cbn [req bind].
          exists (t_negate ct). split; [reflexivity|]. split; [|discriminate]. apply twf_negate.
          exact (twf_all_get O L _ _ _ (store_just_wf O L reg r rv st _ I Hok HnI) Hct).
        - rewrite Ea. exists t. split; [reflexivity|]. split; [destruct Hwa as [Wa _]; now rewrite Ea in Wa|].
          intros _. exists v. auto. }
      destruct Hacc as (accum & Eacc & Wacc & Hnone). rewrite Eacc. cbn [bind].
      rewrite (In_get _ _ _ Nd Hit). cbn [req bind].
      destruct (Hsat sp it Hit ltac:(discriminate)) as (tx & Htx & Hle). unfold term_for in Htx. rewrite Hspa in Htx.
      cbn in Htx. injection Htx as <-.
      assert (Wit : twf it) by exact (twf_all_in O L _ _ _ Wt Hit).
      destruct (satisfier_nopanic spa (t_intersection O accum (t_negate it))) as (s2 & Es2).
      { intros Hu. destruct (undecided_last spa Hch Hu) as (dl & Hdl & Edl). exists dl. split; [exact Hdl|].
        apply (tleU_disjoint_inter O L); [|exact Wit|exact Wacc|rewrite <- Edl; exact Hle].
        destruct Hwa as [_ Wd]. rewrite Forall_forall in Wd. exact (Wd _ Hdl). }
      rewrite Es2. cbn [bind]. cbv beta iota zeta.
      destruct (max_by_gidx_some (set sp s2 m) (set_nonempty _ _ _)) as (top2 & Et2). rewrite Et2. cbn [req bind].
      destruct (Nat.leb sl (Nat.max (snd (snd top2)) 1)) eqn:Elb; [|exact I].
      destruct sc as [c|]; cbn [req bind okres]; [exact I|].
      (* PSatisfierCauseNone *)
      exfalso. destruct (Hnone eq_refl) as (v & Ea & Esl).
      exact (cause_none_absurd m sp sg sl spa it v accum s2 top2 Em Et Hit Hspa Ea Esl Es2 Et2 Elb).
    Qed.
  End Search.

  (* ---------------------------------------------------------------- the rule of resolution *)
  Definition cur_satU (st : state) (id : nat) : Prop :=
    exists ci, nth_error (store st) id = Some ci /\ sat_nowU (ps st) (terms ci) None.

  Lemma prior_cause_keys' i j (ti tj : list (pkg * tm)) p pc x :
    inc_ok ti -> inc_ok tj -> prior_cause O i j ti tj p = Good pc -> In x (keys (terms pc)) ->
    In x (keys ti) \/ In x (keys tj).
  Proof.
    intros Hi Hj Ep Hin. apply in_map_iff in Hin. destruct Hin as ([y t] & <- & Hin). cbn [fst].
    assert (Hk : forall (m : list (pkg * tm)) a, get y m = Some a -> In y (keys m)).
    { intros m a Hg. apply get_In in Hg. change y with (fst (y, a)). now apply in_map. }
    destruct (prior_cause_in O L reg r rv _ _ _ _ _ _ _ _ Hi Hj Ep Hin) as [(-> & t1 & t2 & G1 & _)|(_ & Hm)].
    - left. exact (Hk _ _ G1).
    - destruct (get y ti) as [a|] eqn:Ea; [left; exact (Hk _ _ Ea)|].
      destruct (get y tj) as [b|] eqn:Eb; [right; exact (Hk _ _ Eb)|destruct Hm].
  Qed.

  Lemma resolve_satU st cur cause ci cj sp pc a dd :
    ninv st -> nth_error (store st) cur = Some ci -> nth_error (store st) cause = Some cj ->
    sat_nowU (ps st) (terms ci) None ->
    get sp (asg st) = Some a -> In dd (derivs a) -> d_cause dd = cause ->
    prior_cause O cur cause (terms ci) (terms cj) sp = Good pc ->
    sat_nowU (ps st) (terms pc) None.
  Proof.
    intros Hn Hi Hcj Hsat Hga Hdd Hcause Epc. pose proof Hn as [H1 _ _ _ H5 H6 _]. pose proof H1 as [[Hok Hw] Hl Hc HK Hpa].
    pose proof (store_just_nth O L reg r rv _ (proj1 Hok) _ _ Hi) as Oi.
    pose proof (store_just_nth O L reg r rv _ (proj1 Hok) _ _ Hcj) as Oj.
    pose proof Oi as (Ndi & Wi & _). pose proof Oj as (Ndj & Wj & _).
    assert (Hjs : forall x t, In (x, t) (terms cj) -> x <> sp -> exists tx, term_for (ps st) x = Some tx /\ tleU tx t).
    { destruct (jinv_cause st sp a dd H1 Hga Hdd) as (I & ct & HnI & _ & Hx). rewrite Hcause, Hcj in HnI. injection HnI as <-.
      intros x t Hin Hne. destruct (Hx x t Hin Hne) as (tx & Hb).
      pose proof (H6 sp a dd Hga Hdd cj x t tx ltac:(now rewrite Hcause) Hin Hne Hb) as Hle.
      destruct (lookup_before_finalU O L Hat _ _ _ _ Hc Hw (pi_chU _ _ _ _ _ H5) Hb) as (tf & Hf & Hle').
      exists tf. split; [exact Hf|eapply tleU_trans; eauto]. }
    intros x t Hin _. destruct (prior_cause_in O L reg r rv _ _ _ _ _ _ _ _ Oi Oj Epc Hin) as [(-> & t1 & t2 & G1 & G2 & ->)|(Hne & Hm)].
    - destruct (Hsat sp t1 (get_In _ _ _ G1) ltac:(discriminate)) as (tx & Htx & Hle). exists tx. split; [exact Htx|].
      apply (tleU_union_l O L); [exact (twf_all_get O L _ _ _ Wi G1)|exact (twf_all_get O L _ _ _ Wj G2)|exact Hle].
    - destruct (get x (terms ci)) as [ta|] eqn:Ga, (get x (terms cj)) as [tb|] eqn:Gb; [subst t| subst t| subst t|destruct Hm].
      + destruct (Hsat x ta (get_In _ _ _ Ga) ltac:(discriminate)) as (tx & Htx & Hle).
        destruct (Hjs x tb (get_In _ _ _ Gb) Hne) as (tx' & Htx' & Hle'). rewrite Htx in Htx'. injection Htx' as <-.
        exists tx. split; [exact Htx|]. apply (tleU_inter O L); try assumption;
          [exact (twf_all_get O L _ _ _ Wi Ga)|exact (twf_all_get O L _ _ _ Wj Gb)].
      + exact (Hsat x ta (get_In _ _ _ Ga) ltac:(discriminate)).
      + exact (Hjs x tb (get_In _ _ _ Gb) Hne).
  Qed.

  (* ---------------------------------------------------------------- conflict resolution *)
  Definition crpost (st' : state) (q : pkg) (rc : nat) : Prop :=
    ninv st' /\ rinv st' /\ 1 <= level (ps st')
    /\ (forall a, get q (asg st') = Some a -> decided a = false)
    /\ exists ci, nth_error (store st') rc = Some ci /\ sat_nowU (ps st') (terms ci) (Some q)
                  /\ get q (terms ci) <> None /\ indexed (index st') q.

  Definition okcr (x : cr_result (VS := VS) (Vr := Vr) + outcome_err) : Prop :=
    match x with
    | inl (CROk st' q rc) => crpost st' q rc
    | inl (CRTerminal st' id) => ninv st' /\ terminal_at O r rv st' id
    | inr EFuel => True
    | inr (EPanic s) => Bad s
    end.

  Lemma key_of_get {A} (m : list (pkg * A)) x : get x m <> None -> In x (keys m).
  Proof.
    intros H. destruct (get x m) as [a|] eqn:E; [|congruence]. apply get_In in E. change x with (fst (x, a)). now apply in_map.
  Qed.

  Lemma cr_np fuel : forall st cur chg,
    ninv st -> rinv st -> cur_satU st cur ->
    (chg = true -> exists i a b, nth_error (store st) cur = Some i /\ ikind i = KDerived a b) ->
    (chg = false -> forall ci x, nth_error (store st) cur = Some ci -> In x (keys (terms ci)) -> indexed (index st) x) ->
    okcr (conflict_resolution O fuel st cur chg).
  Proof.
    induction fuel as [|fuel IH]; intros st cur chg Hn Hr (ci & Hci & Hsat) Hchg Hidx; cbn [conflict_resolution]; [exact I|].
    rewrite Hci.
    pose proof Hn as [H1 H2 H3 H4 H5 H6 H7]. pose proof H1 as [[Hok Hw] Hl Hc HK Hpa].
    pose proof Hok as (Hsj & Hme & Hroot & Hrootv). rewrite Hroot, Hrootv.
    destruct (is_terminal O ci r rv) eqn:Eterm.
    { split; [exact Hn|]. exists ci. auto. }
    pose proof (satisfier_search_nopanic st ci cur Hn Hci Hsat Eterm) as Hss.
    assert (Wc : twf_all (terms ci)) by exact (store_just_wf O L reg r rv st cur ci Hok Hci).
    destruct (satisfier_search O (terms ci) (ps st) (store st)) as [[sp [Lv|cause]]|s] eqn:Es; cbn [okres] in Hss; [| |exact Hss].
    - (* the satisfier and the previous satisfier are at different levels: backtrack *)
      destruct (satisfier_search_level _ _ _ _ _ _ Hl Es) as [HL1 HL2].
      pose proof (satisfier_search_key _ _ _ _ _ Es) as Hkey.
      destruct (ps_backtrack_nopanic (ps st) Lv (lay_keys _ Hl) (pi_first _ _ _ _ _ H5)) as (p' & Ep).
      pose proof (ninv_backtrack st Lv p' (filter (fun e => Nat.leb (snd e) Lv) (contradicted st)) Hn HL1 ltac:(lia) Ep) as Hn1.
      pose proof (rinv_backtrack st Lv p' (filter (fun e => Nat.leb (snd e) Lv) (contradicted st)) H1 Ep Hr) as Hr1.
      pose proof (satisfier_search_differentU _ _ _ _ _ _ Hl Hc Hw HK (pi_chU _ _ _ _ _ H5) Wc Hsat Es Ep) as Hsat1.
      destruct (ps_backtrack_asg _ _ _ Ep) as (Elv & _ & _).
      assert (Hund : forall a, get sp (assignments p') = Some a -> decided a = false).
      { intros a Hg. destruct (decided a) eqn:Ed; [|reflexivity]. exfalso.
        destruct (ps_backtrack_decided _ _ _ Hl Ep sp a Hg Ed) as [Hg0 Hh].
        destruct (satisfier_search_diff_evt _ _ _ _ _ Es) as (a0 & g & l & Ha0 & He & Hlt).
        rewrite Hg0 in Ha0. injection Ha0 as <-.
        destruct (layout_get_ok _ _ _ Hl Hg0) as (_ & _ & _ & K4).
        destruct He as [(dd & Hin & _ & <-)|(v & t & _ & <-)]; [|lia].
        rewrite Forall_forall in K4. specialize (K4 _ Hin). cbn in K4. lia. }
      unfold backtrack. rewrite Ep. cbn [bind].
      set (st1 := {| root := root st; rootv := rootv st; index := index st;
                     contradicted := filter (fun e => Nat.leb (snd e) Lv) (contradicted st);
                     merged := merged st; ps := p'; store := store st |}) in *.
      destruct chg.
      + destruct (Hchg eq_refl) as (i & a & b & Hi & Hk). rewrite Hci in Hi. injection Hi as <-.
        assert (Hdep : as_dependency ci = None) by (unfold as_dependency; now rewrite Hk).
        pose proof (j_ok _ _ _ _ _ _ (n_J _ Hn1)) as Hok1.
        destruct (merge_incompatibility_nopanic O L reg r rv st1 cur ci (proj1 Hok1) Hci ltac:(congruence)
                    (store_noany_nth O _ _ _ H2 Hci)) as (st2 & Em).
        rewrite Em. cbn [okcr].
        pose proof (merge_incompatibility_ps O _ _ _ Em) as Eps.
        destruct (merge_incompatibility_ext O _ _ _ Em) as (extra & Est).
        assert (Hok2 : full_ok st2).
        { eapply (backtrack_ok O L veqb reg r rv st cur true Lv st2); [split; [exact Hok|exact Hw]| |].
          - intros _. exists ci, a, b. auto.
          - unfold backtrack. rewrite Ep. cbn [bind]. exact Em. }
        assert (Hn2 : ninv st2).
        { eapply (ninv_store st1 st2 Hn1 Eps); [eauto|exact Hok2| | | |].
          - eapply (merge_incompatibility_noany O L reg r rv st1 cur st2 (proj1 Hok1)); [|exact H2|exact Em].
            intros i Hi Hd. cbn [store st1] in Hi. rewrite Hci in Hi. injection Hi as <-. congruence.
          - exact (merge_incompatibility_ix O st1 cur st2 (n_ix _ Hn1) Em).
          - intros x Hx. exact (merge_incompatibility_indexed O st1 cur st2 x Em Hx).
          - intros E0. rewrite Eps in E0. cbn [st1 ps] in E0. lia. }
        split; [exact Hn2|]. split; [exact (rinv_asg st1 st2 ltac:(now rewrite Eps) Hr1)|].
        rewrite Eps. cbn [st1 ps]. split; [lia|]. split; [exact Hund|].
        exists ci. split; [rewrite Est; cbn [st1 store]; now apply nth_error_app_old|]. split; [exact Hsat1|]. split; [exact Hkey|].
        apply (merge_incompatibility_keys O st1 cur st2 ci Hci Hdep Em). now apply key_of_get.
      + cbn [okcr]. split; [exact Hn1|]. split; [exact Hr1|]. cbn [st1 ps]. split; [lia|]. split; [exact Hund|].
        exists ci. split; [exact Hci|]. split; [exact Hsat1|]. split; [exact Hkey|].
        cbn [st1 index]. apply (Hidx eq_refl ci sp Hci). now apply key_of_get.
    - (* same level: apply the rule of resolution and continue *)
      destruct (satisfier_search_same O _ _ _ _ _ Es) as (a & dd & Hga & Hdd & Hcause).
      destruct (jinv_cause st sp a dd H1 Hga Hdd) as (cj & ct & Hcj & Hct & _). rewrite Hcause in Hcj. rewrite Hcj.
      pose proof (satisfier_search_key _ _ _ _ _ Es) as Hkey.
      destruct (prior_cause O cur cause (terms ci) (terms cj) sp) as [pc|s] eqn:Epc.
      2:{ exfalso. unfold prior_cause in Epc. destruct (get sp (terms ci)); [|congruence]. rewrite Hct in Epc. discriminate. }
      cbn [alloc]. pose proof (prior_cause_kind O _ _ _ _ _ _ Epc) as Hk.
      pose proof (store_just_nth O L reg r rv _ Hsj _ _ Hci) as Oi.
      pose proof (store_just_nth O L reg r rv _ Hsj _ _ Hcj) as Oj.
      apply IH.
      + eapply (ninv_store st _ Hn); [reflexivity|exists [pc]; reflexivity| | | | |].
        * split; [|exact Hw]. apply (alloc_ok O L reg r rv st pc Hok). exact (J_der O L reg r rv _ _ cur cause ci cj sp Hci Hcj Epc).
        * cbn [store]. apply Forall_app. split; [exact H2|]. constructor; [|constructor].
          eapply (noany_prior_cause O L); [exact (proj1 (proj2 Oi))|exact (proj1 (proj2 Oj))| | |exact Epc].
          -- exact (store_noany_nth O _ _ _ H2 Hci).
          -- exact (store_noany_nth O _ _ _ H2 Hcj).
        * exact (alloc_ix st pc H3).
        * auto.
        * intros E0. cbn [ps] in E0 |- *. destruct (H7 E0) as [Hb Hkk]. split; [exact Hb|]. cbn [store].
          intros i Hi x Hx. apply in_app_or in Hi. destruct Hi as [Hi|[<-|[]]]; [exact (Hkk i Hi x Hx)|].
          destruct (prior_cause_keys' _ _ _ _ _ _ x Oi Oj Epc Hx) as [Hx'|Hx'].
          -- exact (Hkk ci (nth_error_In _ _ Hci) x Hx').
          -- exact (Hkk cj (nth_error_In _ _ Hcj) x Hx').
      + exact (rinv_asg st _ eq_refl Hr).
      + exists pc. cbn [store ps]. split; [apply nth_error_snoc|].
        exact (resolve_satU st cur cause ci cj sp pc a dd Hn Hci Hcj Hsat Hga Hdd Hcause Epc).
      + intros _. exists pc, cur, cause. cbn [store]. split; [apply nth_error_snoc|exact Hk].
      + discriminate.
  Qed.

  (* ---------------------------------------------------------------- the scan *)
  Definition scanpost (st : state) (ids : list nat) (res : state * list pkg * option nat) : Prop :=
    let '(st', b', c) := res in
    ninv st' /\ rinv st' /\ index st' = index st /\ store st' = store st
    /\ (forall x, In x b' -> indexed (index st') x)
    /\ forall id, c = Some id -> In id ids /\ cur_satU st' id.

  Lemma scan_np ids : forall st buffer,
    ninv st -> rinv st -> (forall id, In id ids -> exists p, active st p id) ->
    (forall x, In x buffer -> indexed (index st) x) ->
    okres (scan_incompats O ids st buffer) (scanpost st ids).
  Proof.
    induction ids as [|id ids IH]; intros st buffer Hn Hr Hact Hbuf; cbn [scan_incompats].
    { cbn [okres scanpost]. split; [exact Hn|]. split; [exact Hr|]. split; [reflexivity|]. split; [reflexivity|].
      split; [exact Hbuf|]. intros id0 E0. discriminate. }
    assert (Hnext : forall st' b', ninv st' -> rinv st' -> index st' = index st -> store st' = store st ->
                      (forall x, In x b' -> indexed (index st') x) ->
                      okres (scan_incompats O ids st' b') (scanpost st (id :: ids))).
    { intros st' b' Hn' Hr' Eix Est Hb'. eapply okres_weaken; [apply (IH st' b' Hn' Hr'); [|exact Hb']|].
      - intros x Hx. destruct (Hact x (or_intror Hx)) as (p & Hp). exists p. unfold active in *. now rewrite Eix.
      - intros [[st2 b2] c] _ (K1 & K2 & K3 & K4 & K5 & K6). cbn [scanpost]. split; [exact K1|]. split; [exact K2|].
        split; [congruence|]. split; [congruence|]. split; [exact K5|]. intros id0 E0. destruct (K6 id0 E0) as [A B].
        split; [now right|exact B]. }
    destruct (cached id (contradicted st)); [now apply Hnext|].
    destruct (Hact id (or_introl eq_refl)) as (pk & Hpk).
    pose proof Hn as [H1 H2 H3 H4 H5 H6 H7]. pose proof H1 as [[Hok Hw] Hl Hc HK Hpa].
    destruct (H3 pk id Hpk) as (ci & Hci & Hkeys). rewrite Hci. cbn [req bind].
    assert (Wc : twf_all (terms ci)) by exact (store_just_wf O L reg r rv st id ci Hok Hci).
    pose proof (relation_sat_nowU O L (ps st) (terms ci) Hw Wc) as Hrel.
    destruct (relation O (terms ci) (term_for (ps st))) as [| |q|] eqn:Erel.
    - cbn [okres scanpost]. split; [exact Hn|]. split; [exact Hr|]. split; [reflexivity|]. split; [reflexivity|].
      split; [exact Hbuf|]. intros id0 E0. injection E0 as <-. split; [now left|]. exists ci. auto.
    - apply Hnext; try reflexivity; [now apply ninv_cache|exact Hr|exact Hbuf].
    - (* almost satisfied: derive the negation of the remaining term *)
      destruct (relation_almost_inv O _ _ _ Erel) as (t & Hqt & Hq).
      assert (Hqk : In q (keys (terms ci))) by (change q with (fst (q, t)); now apply in_map).
      destruct (add_derivation_nopanic O (ps st) q id (terms ci)) as (p' & Ed).
      { destruct (In_get_some _ _ _ Hqt) as (b & Hb). congruence. }
      { intros a Hg. destruct (decided a) eqn:Eda; [|reflexivity]. exfalso.
        apply decided_ai in Eda. destruct Eda as (g & v & t0 & Ea).
        pose proof (ps_chain_get O _ _ _ Hc Hg) as [_ Hs]. destruct (rev (derivs a)); [destruct Hs|]. rewrite Ea in Hs.
        destruct Hs as [-> _]. unfold term_for in Hq. rewrite Hg in Hq. cbn in Hq. rewrite Ea in Hq. cbn in Hq.
        destruct Hq as [Hq|(tx & Hx & Hinc)]; [discriminate|]. injection Hx as <-.
        exact (exact_not_inconclusive O L Hat v t (twf_all_in O L _ _ _ Wc Hqt) Hinc). }
      rewrite Ed. cbn [bind].
      apply Hnext; try reflexivity.
      + apply (ninv_deriv st q id ci p' _ Hn Hci Hrel); [|exact Ed]. now apply Hkeys.
      + exact (rinv_deriv st q id ci p' _ H1 Hci Ed Hr).
      + cbn [upd_cache upd_ps index]. intros x Hx. destruct (existsb (N.eqb q) buffer); [now apply Hbuf|].
        apply in_app_or in Hx. destruct Hx as [Hx|[<-|[]]]; [now apply Hbuf|now apply Hkeys].
    - now apply Hnext.
  Qed.

  (* ---------------------------------------------------------------- unit propagation *)
  Definition okup (x : up_result (VS := VS) (Vr := Vr) + outcome_err) : Prop :=
    match x with
    | inl (UPOk st') => ninv st' /\ rinv st'
    | inl (UPConflict st' id) => ninv st' /\ terminal_at O r rv st' id
    | inr EFuel => True
    | inr (EPanic s) => Bad s
    end.

  Lemma up_np fuel : forall st buffer,
    ninv st -> rinv st -> (forall x, In x buffer -> indexed (index st) x) -> okup (unit_propagation O fuel st buffer).
  Proof.
    induction fuel as [|fuel IH]; intros st buffer Hn Hr Hbuf; cbn [unit_propagation]; [exact I|].
    destruct (rev buffer) as [|cur rest] eqn:Erev; [split; assumption|].
    assert (Hin : forall x, In x (cur :: rest) -> indexed (index st) x).
    { intros x Hx. apply Hbuf. apply in_rev. now rewrite Erev. }
    destruct (get cur (index st)) as [ids|] eqn:Eix.
    2:{ exfalso. exact (Hin cur (or_introl eq_refl) Eix). }
    pose proof (scan_np (rev ids) st (rev rest) Hn Hr) as Hscan.
    destruct (scan_incompats O (rev ids) st (rev rest)) as [[[st1 b2] c]|s] eqn:Es; cbn [okres] in Hscan.
    2:{ apply Hscan.
        - intros id Hid. exists cur. unfold active, index_get. rewrite Eix. now apply in_rev.
        - intros x Hx. apply Hin. right. now apply in_rev. }
    destruct Hscan as (Hn1 & Hr1 & Eix1 & Est1 & Hb2 & Hc).
    { intros id Hid. exists cur. unfold active, index_get. rewrite Eix. now apply in_rev. }
    { intros x Hx. apply Hin. right. now apply in_rev. }
    destruct c as [conflict|]; [|now apply IH].
    destruct (Hc conflict eq_refl) as [Hcin Hcsat].
    assert (Hcr : okcr (conflict_resolution O fuel st1 conflict false)).
    { apply cr_np; [exact Hn1|exact Hr1|exact Hcsat|discriminate|].
      intros _ ci x Hci Hx. destruct (n_ix _ Hn1 cur conflict) as (ci' & Hci' & Hk).
      - unfold active, index_get. rewrite Eix1, Eix. now apply in_rev.
      - rewrite Hci in Hci'. injection Hci' as <-. now apply Hk. }
    destruct (conflict_resolution O fuel st1 conflict false) as [[st2 q rc|st2 id]|[|s]]; cbn [okcr] in Hcr;
      [|exact Hcr|exact I|exact Hcr].
    destruct Hcr as (Hn2 & Hr2 & _ & Hund & rci & Hrc & Hsat & Hkey & Hqi).
    rewrite Hrc.
    destruct (add_derivation_nopanic O (ps st2) q rc (terms rci) Hkey Hund) as (p' & Ed). rewrite Ed.
    apply IH.
    - exact (ninv_deriv st2 q rc rci p' _ Hn2 Hrc Hsat Hqi Ed).
    - exact (rinv_deriv st2 q rc rci p' _ (n_J _ Hn2) Hrc Ed Hr2).
    - intros x [<-|[]]. exact Hqi.
  Qed.
End NoPanic2.
